#!/venv/bin/python
"""Regenerates MANIFEST.json from the check modules present in vk/checks (single source of truth: module attributes)."""
import importlib, json, os, sys
ROOT = os.path.dirname(os.path.abspath(__file__))
sys.path[:0] = ["/repo", ROOT, os.path.join(ROOT, ".deps")]
props = [json.loads(l) for l in open(os.path.join(ROOT, "properties.jsonl"))]
READY = json.load(open(os.path.join(ROOT, "ready.json")))  # property ids whose checks are claimed
NOT_YET = {}
checks, na = [], []
for p in props:
    pid = p["id"]
    path = os.path.join(ROOT, "vk", "checks", pid.lower() + ".py")
    if os.path.exists(path) and pid in READY:
        mod = importlib.import_module(f"vk.checks.{pid.lower()}")
        checks.append({
            "property_id": pid,
            "quick_cmd": f"./check {pid} quick",
            "thorough_cmd": f"./check {pid} thorough",
            "evidence_file": f"/verif/evidence/{pid}.json",
            "replay_cmd_template": f"./check {pid} --replay {{path}}",
            "engine": "vk",
            "level_claimed": {"category": getattr(mod, "LEVEL", "exploration"), "text": mod.LEVEL_TEXT, "design_ref": f"DESIGN.md §5 {pid}"},
            "level_note": mod.LEVEL_NOTE,
            "technique": mod.TECHNIQUE,
        })
    else:
        na.append({"property_id": pid, "reason": NOT_YET.get(pid, "no runtime monitor implemented for this property yet; not claimed")})
man = {
    "version": 1,
    "setup_cmd": "./setup.sh",
    "hooks": {
        "guard": "UP_VERIF",
        "enable": "checks import unified_planning from /repo's working tree (PYTHONPATH=/repo) with UP_VERIF=1; monitors are attached from the harness at class level, no source hook is compiled in",
        "baseline_off_cmd": "cd /repo && /venv/bin/python -m pytest -ra -q -p no:cacheprovider --timeout=900 --continue-on-collection-errors",
        "source_commits": [],
        "add_only": True,
    },
    "engines": [
        {"name": "vk", "path": "/verif/vk", "serves_properties": [c["property_id"] for c in checks],
         "kind_free_text": "runtime-monitoring kit: boundary wrappers + reference-model oracles (vk/ref) + seeded generators (vk/gen), sharded over processes by vk/run.py"}
    ],
    "checks": checks,
    "not_applicable": na,
    "notes": "Technique family: runtime monitoring. Exit 0 held / 1 VIOLATION / 3 INCONCLUSIVE. Known findings: known_findings.json.",
}
json.dump(man, open(os.path.join(ROOT, "MANIFEST.json"), "w"), indent=1)
print(len(checks), "checks;", len(na), "not claimed")

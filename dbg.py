import sys, json, traceback
sys.path[:0]=['/repo','/verif','/verif/.deps']
from vk import env
from vk.recipe import instantiate_problem
from vk.ref import seqsem
w=json.load(open(sys.argv[1]))['witness']
pb,ctx=instantiate_problem(w['recipe'], env.fresh_env())
print(pb)
from unified_planning.engines.sequential_simulator import UPSequentialSimulator
sim=UPSequentialSimulator(pb)
s=sim.get_initial_state()
for a,args in w.get('path',[]):
    act=pb.action(a); s=sim.apply(s,act,seqsem.param_exprs(pb,act,tuple(args)))
a,args=w['step']; act=pb.action(a)
try:
    print('app',sim.is_applicable(s,act,seqsem.param_exprs(pb,act,tuple(args))))
    print('apply',sim.apply(s,act,seqsem.param_exprs(pb,act,tuple(args))))
except Exception: traceback.print_exc()

#!/bin/sh
# setup_cmd: offline install of the contract libraries beside the harness (git-ignored), byte-compile the kit.
set -e
cd "$(dirname "$0")"
if [ ! -d .deps/icontract ] || [ ! -d .deps/deal ]; then
  PIP_NO_INDEX=1 /venv/bin/pip install -q --no-index --find-links /opt/veriftools/wheels --target .deps icontract deal >/dev/null 2>&1 || \
  echo "setup: icontract/deal not installable (contracts degrade to plain wrappers)"
fi
mkdir -p evidence out/replay
/venv/bin/python -m compileall -q vk >/dev/null 2>&1 || true
echo "setup ok"

#!/venv/bin/python
"""Self-test driver: applies a patch to a scratch copy of the repository (never /repo) and runs checks against it through VK_REPO.

  ./selftest.py revert <commit> C01 C02 ...       # re-introduce a repaired defect (reverse of a fix: commit)
  ./selftest.py patch  <file.diff> C01 ...        # apply a seeded change (/verif/seeded/<id>/patch.diff)
  ./selftest.py all                               # every fix: commit against the checks recorded in known_findings.json + every seeded/*/meta.json

The scratch copy lives under /var/tmp/vkscratch-<letters> and is removed afterwards. Exit code 0 iff every expected check fired."""
import json
import os
import shutil
import subprocess
import sys

ROOT = os.path.dirname(os.path.abspath(__file__))


def scratch(idx=0):
    # letters only: up_test_cases filters problem files by substring of the *full path* (digits / words in the path break it)
    d = "/var/tmp/vkscratch-" + "".join("abcdefghij"[int(c)] for c in str(os.getpid())) + "x" + "".join("abcdefghij"[int(c)] for c in str(idx))
    if os.path.exists(d):
        shutil.rmtree(d)
    os.makedirs(d)
    shutil.copytree("/repo/unified_planning", os.path.join(d, "unified_planning"), ignore=shutil.ignore_patterns("__pycache__"))
    if os.path.isdir("/repo/up_test_cases"):
        shutil.copytree("/repo/up_test_cases", os.path.join(d, "up_test_cases"), symlinks=True)
    return d


def run_checks(d, checks, tier="quick", seed=None):
    seed = seed or os.environ.get("VERIF_SEED", "0")
    out = {}
    for c in checks:
        env = dict(os.environ, VK_REPO=d, VERIF_SEED=seed)
        p = subprocess.run([os.path.join(ROOT, "check"), c, tier], env=env, stdout=subprocess.PIPE, stderr=subprocess.STDOUT, cwd=ROOT)
        txt = p.stdout.decode(errors="replace")
        viol = [l for l in txt.splitlines() if l.startswith("VIOLATION")]
        out[c] = {"exit": p.returncode, "violations": len(viol), "first": viol[0][:300] if viol else txt.strip().splitlines()[-1][:300]}
    return out


def apply(d, diff_text, reverse=False):
    cmd = ["patch", "-p1", "-s", "-d", d] + (["-R"] if reverse else [])
    p = subprocess.run(cmd + ["--dry-run"], input=diff_text.encode(), stdout=subprocess.PIPE, stderr=subprocess.STDOUT)
    if p.returncode != 0:
        # a later fix: commit changed the context lines of this one: retry with the maximal fuzz
        cmd += ["-F", "3"]
        p = subprocess.run(cmd + ["--dry-run"], input=diff_text.encode(), stdout=subprocess.PIPE, stderr=subprocess.STDOUT)
        if p.returncode != 0:
            raise SystemExit("patch failed: " + p.stdout.decode())
    p = subprocess.run(cmd, input=diff_text.encode(), stdout=subprocess.PIPE, stderr=subprocess.STDOUT)
    if p.returncode != 0:
        raise SystemExit("patch failed: " + p.stdout.decode())


def main():
    mode = sys.argv[1]
    tier = os.environ.get("SELFTEST_TIER", "quick")
    jobs = []
    if mode == "revert":
        diff = subprocess.check_output(["git", "-C", "/repo", "show", "--format=", sys.argv[2], "--", "unified_planning"]).decode()
        jobs.append((f"revert {sys.argv[2]}", diff, True, sys.argv[3:]))
    elif mode == "patch":
        jobs.append((sys.argv[2], open(sys.argv[2]).read(), False, sys.argv[3:]))
    elif mode == "all":
        kf = json.load(open(os.path.join(ROOT, "known_findings.json")))
        for line in kf.get("fixed", []):
            parts = line.split()
            prop = parts[1].split("=")[1]
            commit = parts[2]
            diff = subprocess.check_output(["git", "-C", "/repo", "show", "--format=", commit, "--", "unified_planning"]).decode()
            jobs.append((f"revert {commit} ({prop})", diff, True, [prop]))
        sd = os.path.join(ROOT, "seeded")
        for name in sorted(os.listdir(sd)) if os.path.isdir(sd) else []:
            mp = os.path.join(sd, name, "meta.json")
            if os.path.exists(mp):
                meta = json.load(open(mp))
                jobs.append((f"seeded/{name}", open(os.path.join(sd, name, "patch.diff")).read(), False, meta.get("expected_checks", [meta["property"]])))
    skip = set(filter(None, os.environ.get("SELFTEST_SKIP", "").split(",")))
    only = set(filter(None, os.environ.get("SELFTEST_ONLY", "").split(",")))
    jobs = [j for j in jobs if not (set(j[3]) & skip) and (not only or set(j[3]) & only)]
    ok = True
    results = {}

    def one(ij):
        idx, (name, diff, rev, checks) = ij
        d = scratch(idx)
        try:
            try:
                apply(d, diff, reverse=rev)
            except SystemExit as e:
                return name, None, str(e)[:120]
            return name, run_checks(d, checks, tier), None
        finally:
            shutil.rmtree(d, ignore_errors=True)

    from concurrent.futures import ThreadPoolExecutor

    with ThreadPoolExecutor(max_workers=int(os.environ.get("SELFTEST_JOBS", "1"))) as ex:
        for name, r, err in ex.map(one, enumerate(jobs)):
            if r is None:
                print(f"SKIPPED {name}: patch does not apply ({err})", flush=True)
                results[name] = {"_skipped": {"exit": -1, "violations": 0, "first": "patch does not apply to the current tree"}}
                continue
            results[name] = r
            for c, o in r.items():
                caught = o["exit"] == 1 and o["violations"] > 0
                ok = ok and caught
                print(f"{'CAUGHT' if caught else 'MISSED'}  {name:45s} {c}: exit={o['exit']} violations={o['violations']}  {o['first'][:160]}", flush=True)
    os.makedirs(os.path.join(ROOT, "out"), exist_ok=True)
    json.dump(results, open(os.path.join(ROOT, "out", "selftest.json"), "w"), indent=1)
    if mode == "all":
        rp = os.path.join(ROOT, "seeded", "selftest_results.json")
        if (skip or only) and os.path.exists(rp):  # partial run: merge into the previous table
            prev = json.load(open(rp))
            prev.update(results)
            results = prev
        json.dump(results, open(rp, "w"), indent=1, sort_keys=True)
    sys.exit(0 if ok else 1)


if __name__ == "__main__":
    main()

#!/venv/bin/python
"""Regenerates the generated tables of DESIGN.md (between the GENERATED markers) from known_findings.json, seeded/*/meta.json
and out/selftest.json (if present)."""
import json, os, glob
ROOT = os.path.dirname(os.path.abspath(__file__))
kf = json.load(open(os.path.join(ROOT, "known_findings.json")))
out = []
out.append("### 11.7 Known findings (genuine defects recorded, not repaired) — mirror of `known_findings.json`\n")
out.append("Matching is by the exact *mechanism string* that the check derives from the witness (prefix match only where marked); any violation with another mechanism is reported as VIOLATION.\n")
out.append("| property | mechanism | what fails |\n|---|---|---|")
for f in kf["findings"]:
    out.append(f"| {f['property']} | `{f['mechanism']}`{' (prefix)' if f.get('prefix') else ''} | {f['what']} |")
out.append("\n### 11.8 Repaired defects (`fix:` commits in /repo) — mirror of the `fixed` list\n")
out.append("| property | commit | what failed |\n|---|---|---|")
for l in kf["fixed"]:
    parts = l.split(" ", 3)
    out.append(f"| {parts[1].split('=')[1]} | {parts[2]} | {parts[3]} |")
out.append("\n### 11.9 Seeded changes (independent sub-agents, property text only) and which checks catch them\n")
st = {}
try:
    st = json.load(open(os.path.join(ROOT, "seeded", "selftest_results.json")))
except FileNotFoundError:
    pass
out.append("| seeded change | breaks | needs, in order to manifest | caught by (quick tier, seed 0) |\n|---|---|---|---|")
for mp in sorted(glob.glob(os.path.join(ROOT, "seeded", "*", "meta.json"))):
    m = json.load(open(mp))
    name = os.path.basename(os.path.dirname(mp))
    r = st.get("seeded/" + name, {})
    caught = ", ".join(f"{c}{'' if (o['exit']==1 and o['violations']>0) else ' (MISSED)'}" for c, o in sorted(r.items())) or ", ".join(m.get("expected_checks", []))
    out.append(f"| `{name}` | {m['property']} | {m['needs_to_manifest']} | {caught} |")
txt = "\n".join(out) + "\n"
p = os.path.join(ROOT, "DESIGN.md")
s = open(p).read()
B, E = "<!-- BEGIN GENERATED TABLES -->", "<!-- END GENERATED TABLES -->"
if B in s:
    s = s[: s.index(B) + len(B)] + "\n" + txt + s[s.index(E):]
else:
    s = s.rstrip("\n") + "\n\n" + B + "\n" + txt + E + "\n"
open(p, "w").write(s)
print("DESIGN.md tables regenerated")

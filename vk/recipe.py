"""Environment-independent JSON recipes and `instantiate` through the *public constructors* only.

type   : "bool" | ["int", lb|None, ub|None] | ["real", "p/q"|None, "p/q"|None] | ["user", name]
expr   : ["b",true] ["i",5] ["r","1/3"] ["o",name] ["p",name] ["v",name,type] ["f",fluent,arg...]
         ["if",func,arg...] ["and",...] ["or",...] ["not",e] ["implies",a,b] ["iff",a,b]
         ["exists",[[v,type]...],body] ["forall",[[v,type]...],body] ["eq",a,b] ["le",a,b] ["lt",a,b]
         ["ge",a,b] ["gt",a,b] ["plus",...] ["minus",a,b] ["times",...] ["div",a,b]
         ["always",e] ["sometime",e] ["amo",e] ["sb",a,b] ["sa",a,b] ["dot",agent,e]
problem: see instantiate_problem
"""
from collections import OrderedDict
from fractions import Fraction

import unified_planning as up
from unified_planning.model import (
    Fluent,
    InstantaneousAction,
    DurativeAction,
    Problem,
    Object,
    Variable,
    Parameter,
    InterpretedFunction,
)
from unified_planning.model import metrics as upm


# ---- interpreted functions: names into a fixed table of pure functions -----------------------------
def _if_double(x):
    return 2 * x


def _if_succ(x):
    return x + 1


def _if_pos(x):
    return x > 0


def _if_sum(x, y):
    return x + y


def _if_lt(x, y):
    return x < y


def _if_half(x):
    return Fraction(x) / 2


def _if_sq(x):
    return x * x


def _if_boom(x):
    """raises for x == 3: a user callable that fails mid-walk (natural fault for C14)"""
    if x == 3:
        raise ValueError("if_boom(3)")
    return x + 10


IF_TABLE = {
    "if_boom": (_if_boom, ["int", None, None], [["int", None, None]]),
    # name: (callable, return type recipe, [arg type recipes])
    "if_double": (_if_double, ["int", None, None], [["int", None, None]]),
    "if_succ": (_if_succ, ["int", None, None], [["int", None, None]]),
    "if_pos": (_if_pos, "bool", [["int", None, None]]),
    "if_sum": (_if_sum, ["int", None, None], [["int", None, None], ["int", None, None]]),
    "if_lt": (_if_lt, "bool", [["int", None, None], ["int", None, None]]),
    "if_half": (_if_half, ["real", None, None], [["int", None, None]]),
    "if_sq": (_if_sq, ["int", None, None], [["int", None, None]]),
}


def frac(x):
    return None if x is None else Fraction(x)


class Ctx:
    """Instantiation context for one environment."""

    def __init__(self, env):
        self.env = env
        self.em = env.expression_manager
        self.tm = env.type_manager
        self.types = {}
        self.fluents = {}
        self.objects = {}
        self.params = {}  # current action's parameters
        self.vars = {}
        self.ifs = {}

    def type(self, t):
        if t == "bool":
            return self.tm.BoolType()
        k = t[0]
        if k == "int":
            return self.tm.IntType(t[1], t[2])
        if k == "real":
            return self.tm.RealType(frac(t[1]), frac(t[2]))
        if k == "user":
            return self.types[t[1]]
        raise ValueError(t)

    def var(self, name, t):
        key = (name, str(t))
        if key not in self.vars:
            self.vars[key] = Variable(name, self.type(t), self.env)
        return self.vars[key]

    def ifunc(self, name):
        if name not in self.ifs:
            fn, rt, ats = IF_TABLE[name]
            sig = OrderedDict((f"a{i}", self.type(a)) for i, a in enumerate(ats))
            self.ifs[name] = InterpretedFunction(name, self.type(rt), sig, fn, self.env)
        return self.ifs[name]

    def expr(self, e):
        em = self.em
        k = e[0]
        if k == "b":
            return em.Bool(bool(e[1]))
        if k == "i":
            return em.Int(int(e[1]))
        if k == "r":
            return em.Real(Fraction(e[1]))
        if k == "o":
            return em.ObjectExp(self.objects[e[1]])
        if k == "p":
            return em.ParameterExp(self.params[e[1]])
        if k == "v":
            return em.VariableExp(self.var(e[1], e[2]))
        if k == "f":
            return em.FluentExp(self.fluents[e[1]], tuple(self.expr(a) for a in e[2:]))
        if k == "if":
            return em.InterpretedFunctionExp(self.ifunc(e[1]), tuple(self.expr(a) for a in e[2:]))
        if k == "and":
            return em.And(*[self.expr(a) for a in e[1:]])
        if k == "or":
            return em.Or(*[self.expr(a) for a in e[1:]])
        if k == "not":
            return em.Not(self.expr(e[1]))
        if k == "implies":
            return em.Implies(self.expr(e[1]), self.expr(e[2]))
        if k == "iff":
            return em.Iff(self.expr(e[1]), self.expr(e[2]))
        if k == "exists":
            return em.Exists(self.expr(e[2]), *[self.var(n, t) for n, t in e[1]])
        if k == "forall":
            return em.Forall(self.expr(e[2]), *[self.var(n, t) for n, t in e[1]])
        if k == "eq":
            return em.Equals(self.expr(e[1]), self.expr(e[2]))
        if k == "le":
            return em.LE(self.expr(e[1]), self.expr(e[2]))
        if k == "lt":
            return em.LT(self.expr(e[1]), self.expr(e[2]))
        if k == "ge":
            return em.GE(self.expr(e[1]), self.expr(e[2]))
        if k == "gt":
            return em.GT(self.expr(e[1]), self.expr(e[2]))
        if k == "plus":
            return em.Plus(*[self.expr(a) for a in e[1:]])
        if k == "times":
            return em.Times(*[self.expr(a) for a in e[1:]])
        if k == "minus":
            return em.Minus(self.expr(e[1]), self.expr(e[2]))
        if k == "div":
            return em.Div(self.expr(e[1]), self.expr(e[2]))
        if k == "always":
            return em.Always(self.expr(e[1]))
        if k == "sometime":
            return em.Sometime(self.expr(e[1]))
        if k == "amo":
            return em.AtMostOnce(self.expr(e[1]))
        if k == "sb":
            return em.SometimeBefore(self.expr(e[1]), self.expr(e[2]))
        if k == "sa":
            return em.SometimeAfter(self.expr(e[1]), self.expr(e[2]))
        if k == "dot":
            return em.Dot(e[1], self.expr(e[2]))
        if k == "timing":
            return em.TimingExp(timing(e[1]))
        raise ValueError(f"unknown expr recipe {e!r}")


# ---- timing recipes -------------------------------------------------------------------------------
def timing(t):
    """["start", delay] | ["end", delay] | ["gstart", delay] | ["gend", delay]"""
    from unified_planning.model.timing import StartTiming, EndTiming, GlobalStartTiming, GlobalEndTiming

    from unified_planning.model.timing import Timing, Timepoint, TimepointKind

    k = t[0]
    d = Fraction(t[1]) if len(t) > 1 else Fraction(0)
    if d.denominator == 1:
        d = int(d)
    kind = {
        "start": TimepointKind.START,
        "end": TimepointKind.END,
        "gstart": TimepointKind.GLOBAL_START,
        "gend": TimepointKind.GLOBAL_END,
    }.get(k)
    if kind is not None:
        return Timing(d, Timepoint(kind))
    raise ValueError(t)


def interval(iv):
    """["closed"|"open"|"lopen"|"ropen", t1, t2] or ["point", t]"""
    from unified_planning.model.timing import (
        TimePointInterval,
        ClosedTimeInterval,
        OpenTimeInterval,
        LeftOpenTimeInterval,
        RightOpenTimeInterval,
    )

    k = iv[0]
    if k == "point":
        return TimePointInterval(timing(iv[1]))
    a, b = timing(iv[1]), timing(iv[2])
    return {
        "closed": ClosedTimeInterval,
        "open": OpenTimeInterval,
        "lopen": LeftOpenTimeInterval,
        "ropen": RightOpenTimeInterval,
    }[k](a, b)


def duration(ctx, d):
    """["fixed", e] | ["closed"|"open"|"lopen"|"ropen", lo, hi]"""
    from unified_planning.model.timing import (
        FixedDuration,
        ClosedDurationInterval,
        OpenDurationInterval,
        LeftOpenDurationInterval,
        RightOpenDurationInterval,
    )

    k = d[0]
    if k == "fixed":
        return FixedDuration(ctx.expr(d[1]))
    lo, hi = ctx.expr(d[1]), ctx.expr(d[2])
    return {
        "closed": ClosedDurationInterval,
        "open": OpenDurationInterval,
        "lopen": LeftOpenDurationInterval,
        "ropen": RightOpenDurationInterval,
    }[k](lo, hi)


def _add_effect(ctx, target, eff, when=None):
    fl = ctx.expr(eff["fluent"])
    val = ctx.expr(eff["value"])
    cond = ctx.expr(eff["cond"]) if eff.get("cond") is not None else True
    fa = tuple(ctx.var(n, t) for n, t in eff.get("forall", []))
    kind = eff.get("kind", "assign")
    pre = (when,) if when is not None else ()
    if kind == "assign":
        if when is None:
            target.add_effect(fl, val, cond, fa)
        elif hasattr(target, "add_timed_effect"):
            target.add_timed_effect(when, fl, val, cond, fa)
        else:
            target.add_effect(when, fl, val, cond, fa)
    elif kind == "inc":
        target.add_increase_effect(*pre, fl, val, cond, fa)
    elif kind == "dec":
        target.add_decrease_effect(*pre, fl, val, cond, fa)
    else:
        raise ValueError(kind)


def instantiate_problem(r, env, problem_cls=Problem):
    """r: {"name", "types":[[name,father|None]], "objects":[[name,type]],
           "fluents":[{"name","type","sig":[[n,type]],"default":expr|None}],
           "actions":[{"name","params":[[n,type]],"pre":[expr],"effects":[eff]}            (instantaneous)
                    | {"name","params","duration":dur,"conds":[[interval,expr]],"effects":[[timing,eff]]} (durative)],
           "init":[[fluent_expr,value_expr]], "goals":[expr], "invariants":[expr], "traj":[expr],
           "timed_effects":[[timing,eff]], "timed_goals":[[interval,expr]],
           "metric": None | {"kind":"costs","costs":{action:expr},"default":expr|None} | {"kind":"length"}
                     | {"kind":"minfinal"|"maxfinal","expr":expr} | {"kind":"oversub","goals":[[expr,weight]]}
                     | {"kind":"makespan"},
           "epsilon": "p/q"|None}
    Returns (problem, ctx)."""
    ctx = Ctx(env)
    pb = problem_cls(r.get("name", "p"), env)
    for name, father in r.get("types", []):
        ctx.types[name] = ctx.tm.UserType(name, ctx.types[father] if father else None)
    for f in r.get("fluents", []):
        sig = OrderedDict((n, ctx.type(t)) for n, t in f.get("sig", []))
        fl = Fluent(f["name"], ctx.type(f["type"]), sig, env)
        ctx.fluents[f["name"]] = fl
    for name, t in r.get("objects", []):
        o = Object(name, ctx.type(t), env)
        ctx.objects[name] = o
        pb.add_object(o)
    for f in r.get("fluents", []):
        fl = ctx.fluents[f["name"]]
        if f.get("default") is not None:
            pb.add_fluent(fl, default_initial_value=ctx.expr(f["default"]))
        else:
            pb.add_fluent(fl)
    for a in r.get("actions", []):
        params = OrderedDict((n, ctx.type(t)) for n, t in a.get("params", []))
        if "duration" in a:
            act = DurativeAction(a["name"], params, env)
        else:
            act = InstantaneousAction(a["name"], params, env)
        ctx.params = {p.name: p for p in act.parameters}
        if "duration" in a:
            act.set_duration_constraint(duration(ctx, a["duration"]))
            for iv, c in a.get("conds", []):
                act.add_condition(interval(iv), ctx.expr(c))
            for t, eff in a.get("effects", []):
                _add_effect(ctx, act, eff, timing(t))
        else:
            for c in a.get("pre", []):
                act.add_precondition(ctx.expr(c))
            for eff in a.get("effects", []):
                _add_effect(ctx, act, eff)
        ctx.params = {}
        pb.add_action(act)
    for fe, v in r.get("init", []):
        pb.set_initial_value(ctx.expr(fe), ctx.expr(v))
    for g in r.get("goals", []):
        pb.add_goal(ctx.expr(g))
    for inv in r.get("invariants", []):
        pb.add_state_invariant(ctx.expr(inv))
    for tc in r.get("traj", []):
        pb.add_trajectory_constraint(ctx.expr(tc))
    for t, eff in r.get("timed_effects", []):
        _add_effect(ctx, pb, eff, timing(t))
    for iv, g in r.get("timed_goals", []):
        pb.add_timed_goal(interval(iv), ctx.expr(g))
    if r.get("epsilon") is not None:
        pb.epsilon = Fraction(r["epsilon"])
    m = r.get("metric")
    if m:
        k = m["kind"]
        if k == "costs":
            costs = {pb.action(an): ctx_expr_for_action(ctx, pb.action(an), ce) for an, ce in m["costs"].items()}
            dflt = ctx.expr(m["default"]) if m.get("default") is not None else None
            pb.add_quality_metric(upm.MinimizeActionCosts(costs, dflt, env))
        elif k == "length":
            pb.add_quality_metric(upm.MinimizeSequentialPlanLength(env))
        elif k == "minfinal":
            pb.add_quality_metric(upm.MinimizeExpressionOnFinalState(ctx.expr(m["expr"]), env))
        elif k == "maxfinal":
            pb.add_quality_metric(upm.MaximizeExpressionOnFinalState(ctx.expr(m["expr"]), env))
        elif k == "oversub":
            goals = {ctx.expr(g): (Fraction(w) if "/" in str(w) else int(w)) for g, w in m["goals"]}
            pb.add_quality_metric(upm.Oversubscription(goals, env))
        elif k == "makespan":
            pb.add_quality_metric(upm.MinimizeMakespan(env))
        else:
            raise ValueError(k)
    return pb, ctx


def ctx_expr_for_action(ctx, action, e):
    ctx.params = {p.name: p for p in action.parameters}
    try:
        return ctx.expr(e)
    finally:
        ctx.params = {}


def plan_steps(problem, steps):
    """steps: [[action_name, [python values]]] -> [(action, args tuple)]"""
    return [(problem.action(a), tuple(args)) for a, args in steps]


def sequential_plan(problem, steps):
    from unified_planning.plans import SequentialPlan, ActionInstance
    from vk.ref.seqsem import param_exprs

    ais = []
    for a, args in steps:
        act = problem.action(a) if isinstance(a, str) else a
        ais.append(ActionInstance(act, param_exprs(problem, act, tuple(args))))
    return SequentialPlan(ais, problem.environment)

"""C02 — applicability queries agree with apply, and answering a query has no side effect.

Monitor: internal consistency of ONE simulator instance over a shuffled, repeated query history (no reference semantics is
needed to judge; vk.ref.seqsem is only used to label which queries hit undefined values / conflicts for the coverage counters).
"""
from vk import env as _env  # noqa: F401
from vk.core import rng_for, simple_plan, h
from vk.checks import c01
from vk.ref import seqsem
from vk.ref.evalx import Unsupported

PROPERTY = "C02"
LEVEL = "exploration"
TECHNIQUE = "runtime monitoring: self-consistency and answer-stability monitor over shuffled, repeated query histories on one simulator instance"
LEVEL_TEXT = (
    "For generated problems, every reachable state (bounded) and every ground instance, the answers of is_applicable, apply, "
    "get_applicable_actions, is_goal and get_unsatisfied_goals of one long-lived UPSequentialSimulator are recorded while the "
    "queries are issued in a random interleaving with repetitions (including queries on old states); the monitor checks the "
    "agreement clauses of the statement, that the first answer to a query is the answer forever, and that the argument state "
    "reads back unchanged after every query. Held on the histories observed."
)
LEVEL_NOTE = "Trusted: CPython, UPState.get_value as the observation of a state, the generator. The simulator is judged against itself only."
RULE = (
    "cases = generated problems (C01 grammar); per problem the states reached by apply within depth 3 (<= 14 states) x all ground "
    "instances; each query kind (is_applicable, apply, is_goal, get_unsatisfied_goals, get_applicable_actions) is issued 2-3 times at random "
    "positions of one shuffled history on one simulator. evaluations = queries issued. distinct_nontrivial = distinct (problem, state, "
    "instance) whose action has conditional/forall effects or touches an invariant/bounded fluent (apply and the applicability path both "
    "have to evaluate effects), plus distinct repeat queries issued after a query that internally hit an undefined fluent or a conflict."
    " Thorough tier, shard 0: the same shuffled query histories on the repository's example problems inside the simulator's kind "
    "(52 problems on the pinned tree; counter examples_explored)."
)
ASSUMPTIONS = ["a state is observed through get_value on every ground fluent; hidden state not reachable through get_value is not compared"]
BOUNDS = {"quick": dict(n=500, depth=3, max_states=10, max_inst=30), "thorough": dict(n=24000, depth=4, max_states=24, max_inst=50)}
PROFILE = dict(c01.PROFILE)


def plan(tier, seed):
    b = BOUNDS[tier]
    return simple_plan(PROPERTY, tier, seed, b["n"], b["n"])


def run_shard(spec, res):
    for key in spec["cases"]:
        try:
            run_case(key, spec["tier"], res)
        except Unsupported:
            res.count("skipped_unsupported_by_oracle")
    if spec["tier"] == "thorough" and spec["shard"] == 0:
        res.count("tier:thorough")
        run_examples(spec["tier"], res)


def replay(witness, res):
    if witness.get("example"):
        run_examples(witness.get("tier", "thorough"), res, only=witness["example"])
        return
    run_case(witness["case_key"], witness.get("tier", "quick"), res)


def inst_key(a, pex):
    return (a.name, tuple(str(p) for p in pex))


def run_case(key, tier, res):
    from unified_planning.engines.sequential_simulator import UPSequentialSimulator
    from unified_planning.exceptions import UPProblemDefinitionError, UPUsageError, UPStateMissingFluentError

    b = BOUNDS[tier]
    rec, feats, pb, ex = c01.build(key, PROFILE)
    if pb is None:
        res.count("rejected_at_build")
        return
    if not UPSequentialSimulator.supports(pb.kind):
        res.count("rejected_unsupported_kind")
        return
    judge_problem(pb, {"case_key": key, "tier": tier, "recipe": rec}, b, rng_for(key, "history"), h(rec), res)


def run_examples(tier, res, only=None):
    """The repository's example problems (thorough tier): same query histories on realistic models."""
    import random

    from unified_planning.engines.sequential_simulator import UPSequentialSimulator
    from unified_planning.model import Problem
    from unified_planning.test.examples import get_example_problems

    b = dict(BOUNDS[tier], max_states=8, depth=2, max_inst=40)
    for name, ex in sorted(get_example_problems().items()):
        if only and name != only:
            continue
        pb = ex.problem
        if type(pb) is not Problem or pb.kind.has_simulated_effects() or not UPSequentialSimulator.supports(pb.kind):
            continue
        try:
            if len(seqsem.all_instances(pb)) > 400 or len(seqsem.ground_fluents(pb)) > 400:
                res.count("examples_skipped_too_large")
                continue
            res.count("examples_explored")
            judge_problem(pb, {"example": name, "tier": tier}, b, random.Random(name), "ex:" + name, res)
        except Unsupported:
            res.count("examples_skipped_unsupported_by_oracle")


def judge_problem(pb, wbase, b, rng, pid, res):
    from unified_planning.engines.sequential_simulator import UPSequentialSimulator
    from unified_planning.exceptions import UPProblemDefinitionError, UPUsageError, UPStateMissingFluentError

    def viol(mech, summary, **w):
        res.violation(mech, summary, {**wbase, **w})

    try:
        sim = UPSequentialSimulator(pb)
        s0 = sim.get_initial_state()
    except (UPUsageError, UPProblemDefinitionError):
        res.count("rejected_by_simulator")
        return
    gfl = seqsem.ground_fluents(pb)
    insts = seqsem.all_instances(pb)[: b["max_inst"]]
    pexs = {(a.name, args): seqsem.param_exprs(pb, a, args) for a, args in insts}
    inv_fluents = set()
    for inv in pb.state_invariants:
        from vk.ref.evalx import fluents_in

        inv_fluents |= {f.name for f in fluents_in(inv)}
    bounded = {f.name for f in pb.fluents if (f.type.is_int_type() or f.type.is_real_type()) and (f.type.lower_bound is not None or f.type.upper_bound is not None)}

    # collect states with a *separate* simulator so that the simulator under observation starts with a clean history
    try:
        sim_b = UPSequentialSimulator(pb)
        states = [sim_b.get_initial_state()]
        snaps = [seqsem.read_state(pb, states[0], gfl)]
        seen = {seqsem.freeze(snaps[0])}
        frontier = [(states[0], 0)]
        while frontier and len(states) < b["max_states"]:
            st, d = frontier.pop(0)
            if d >= b["depth"]:
                continue
            for a, args in insts:
                ns = sim_b.apply(st, a, pexs[(a.name, args)])
                if ns is None:
                    continue
                sn = seqsem.read_state(pb, ns, gfl)
                k = seqsem.freeze(sn)
                if k not in seen and len(states) < b["max_states"]:
                    seen.add(k)
                    states.append(ns)
                    snaps.append(sn)
                    frontier.append((ns, d + 1))
    except Exception as e:
        viol(f"raises-during-exploration:{type(e).__name__}", f"apply raised {e!r} while collecting states")
        return

    # label queries (coverage only)
    label = {}
    for si, sn in enumerate(snaps):
        for a, args in insts:
            r = seqsem.succ(pb, sn, a, args)
            tags = set()
            if r.reason in ("precondition-undefined", "effect-value-undefined") or (r.status == seqsem.DONTCARE and "undefined" in str(r.reason)):
                tags.add("undefined")
            if r.reason == "conflicting-assignments":
                tags.add("conflict")
            if any(e.is_conditional() or e.forall for e in a.effects):
                tags.add("condforall")
            if any(e.fluent.fluent().name in inv_fluents or e.fluent.fluent().name in bounded for e in a.effects):
                tags.add("invariant-touch")
            label[(si, a.name, args)] = tags

    # build the history
    queries = []
    for si in range(len(states)):
        for a, args in insts:
            for kind in ("app", "apply"):
                for _ in range(rng.choice([2, 2, 3])):
                    queries.append((kind, si, a, args))
        for kind in ("goal", "unsat", "actions"):
            for _ in range(2):
                queries.append((kind, si, None, None))
    rng.shuffle(queries)
    # partially consumed get_applicable_actions iterators (any()/next()/break in user code): their answers are not judged, but
    # they are queries, and "answering a query never changes the answer to any later query"
    npeek = rng.choice([0, 1, 2, 3])
    for _ in range(npeek):
        queries.insert(rng.randrange(len(queries) + 1), ("peek", rng.randrange(len(states)), None, None))
    if rng.random() < 0.5:
        queries.insert(0, ("peek", rng.randrange(len(states)), None, None))
    first = {}
    hist = []
    after_undefined = False

    def record(qk, ans, q):
        nonlocal after_undefined
        if qk in first:
            if first[qk] != ans:
                viol(
                    "answer-instability:" + q[0],
                    f"query {q[0]} on state #{q[1]} {('for ' + q[2].name + str(list(q[3]))) if q[2] else ''} answered {first[qk]!r} first and {ans!r} later",
                    history=hist[-30:],
                    query=[q[0], q[1], q[2].name if q[2] else None, list(q[3]) if q[3] else None],
                )
                return False
            if after_undefined:
                res.nt(("repeat-after-undefined", pid, str(qk)))
                res.count("repeat_after_undefined")
        else:
            first[qk] = ans
        return True

    for q in queries:
        kind, si, a, args = q
        st = states[si]
        res.case()
        res.mon()
        try:
            if kind == "peek":
                it = sim.get_applicable_actions(st)
                for _k in range(rng.choice([0, 1, 1, 2])):
                    if next(it, None) is None:
                        break
                del it
                res.count("partial_iterations")
                hist.append(["peek", si, None, None])
                continue
            if kind == "app":
                ans = bool(sim.is_applicable(st, a, pexs[(a.name, args)]))
            elif kind == "apply":
                ns = sim.apply(st, a, pexs[(a.name, args)])
                ans = None if ns is None else seqsem.freeze(seqsem.read_state(pb, ns, gfl))
            elif kind == "goal":
                ans = bool(sim.is_goal(st))
            elif kind == "unsat":
                try:
                    ans = len(sim.get_unsatisfied_goals(st)) == 0
                except UPStateMissingFluentError:
                    ans = False
            else:
                ans = tuple(sorted(inst_key(x, p) for x, p in sim.get_applicable_actions(st)))
        except Exception as e:
            viol(
                f"query-raises:{kind}:{type(e).__name__}",
                f"{kind} on state #{si} {(a.name + str(list(args))) if a else ''} raised {e!r} after {len(hist)} earlier queries",
                history=hist[-30:],
            )
            return
        hist.append([kind, si, a.name if a else None, list(args) if args else None])
        qk = (kind, si, a.name if a else None, args)
        if not record(qk, ans, q):
            return
        # (d) no side effect on the argument state
        now = seqsem.read_state(pb, st, gfl)
        if now != snaps[si]:
            viol("state-mutated-by-query:" + kind, f"{kind} changed its argument state #{si}: {seqsem.show_state(snaps[si])} -> {seqsem.show_state(now)}", history=hist[-30:])
            return
        if a is not None:
            tags = label.get((si, a.name, args), ())
            after_undefined = "undefined" in tags or "conflict" in tags
            if "undefined" in tags:
                res.count("queries_hitting_undefined")
            if "conflict" in tags:
                res.count("queries_hitting_conflict")
    # agreement clauses over the stored first answers
    sampled = False
    for si in range(len(states)):
        appl = []
        for a, args in insts:
            fa = first.get(("app", si, a.name, args))
            fp = first.get(("apply", si, a.name, args))
            res.mon()
            tags = label.get((si, a.name, args), ())
            if "condforall" in tags or "invariant-touch" in tags:
                res.nt((pid, si, a.name, tuple(map(str, args))))
                res.count("pairs_with_effect_evaluation")
            if fa != (fp is not None):
                viol(
                    "is_applicable-vs-apply" + (":undefined" if "undefined" in tags else ":conflict" if "conflict" in tags else ""),
                    f"state #{si} {seqsem.show_state(snaps[si])}, {a.name}{list(args)}: is_applicable={fa} but apply returned {'a state' if fp is not None else 'None'}",
                    state=seqsem.show_state(snaps[si]),
                    step=[a.name, list(args)],
                )
                return
            if fp is not None:
                appl.append(inst_key(a, pexs[(a.name, args)]))
        if len(insts) == len(seqsem.all_instances(pb)):
            got = first.get(("actions", si, None, None))
            res.mon()
            if got is not None and tuple(sorted(appl)) != got:
                viol(
                    "get_applicable_actions-vs-apply",
                    f"state #{si} {seqsem.show_state(snaps[si])}: get_applicable_actions={list(got)} but apply succeeds exactly for {sorted(appl)}",
                    state=seqsem.show_state(snaps[si]),
                )
                return
        g, u = first.get(("goal", si, None, None)), first.get(("unsat", si, None, None))
        res.mon()
        if g != u:
            viol("is_goal-vs-unsatisfied_goals", f"state #{si} {seqsem.show_state(snaps[si])}: is_goal={g}, get_unsatisfied_goals empty={u}", state=seqsem.show_state(snaps[si]))
            return
        if not sampled and appl:
            sampled = True
            res.sample({"problem": wbase.get("recipe", wbase.get("example")), "state": seqsem.show_state(snaps[si]), "applicable": appl, "is_goal": g, "history_prefix": hist[:8]})


def thresholds(m):
    c = m["counters"]
    out = []
    if c.get("repeat_after_undefined", 0) < 5:
        out.append("fewer than 5 repeat queries followed a query that hit an undefined fluent / conflict")
    if c.get("pairs_with_effect_evaluation", 0) < 20:
        out.append("fewer than 20 pairs with conditional/forall effects or invariant-touching effects")
    if c.get("partial_iterations", 0) < 50:
        out.append("fewer than 50 partially consumed get_applicable_actions iterators")
    if c.get("queries_hitting_conflict", 0) < 2:
        out.append("no query hit a conflicting-assignment case")
    if c.get("tier:thorough") and c.get("examples_explored", 0) < 20:
        out.append(f"fewer than 20 example problems explored ({c.get('examples_explored', 0)})")
    return out

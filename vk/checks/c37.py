"""C37 — the multi-agent conditional-effects / disjunctive-conditions removers preserve each agent's action semantics.

Monitor: every `MAConditionalEffectsRemover.compile` / `MADisjunctiveConditionsRemover.compile` result (and its
`map_back_action_instance`) observed on generated multi-agent problems is judged by the per-agent reference action semantics
vk/ref/masem.py over all states (exhaustive up to 2^8, else sampled)."""
from itertools import product

from vk import env as _env  # noqa: F401
from vk.core import rng_for, simple_plan, h
from vk.gen.maproblem import gen_ma_problem, instantiate
from vk.ref import masem
from vk.ref.evalx import Unsupported, UNDEF
from vk.ref.masem import OKAY, INAPP, DONTCARE

PROPERTY = "C37"
LEVEL = "exploration"
TECHNIQUE = "runtime monitoring: compiler results judged by per-agent reference action semantics over all (bounded) states"
LEVEL_TEXT = (
    "Every result of the two multi-agent removers observed on generated multi-agent problems is compared, agent by agent, "
    "ground instance by ground instance and state by state, with the original problem under an independent reference "
    "semantics: applicability equivalence through map_back, successor equality on the original fluents, exactly-one "
    "applicable variant for conditional-effect removal, goal equivalence. Held on the executions observed only."
)
LEVEL_NOTE = (
    "Trusted: CPython, read-only accessors of the model classes, vk/ref/evalx.py + vk/ref/masem.py (oracle), the recipe "
    "instantiation. Not judged (counted): original steps that fire no effect at all (compilers drop effect-less variants, "
    "H6), assignment+increase on one ground fluent, problems the compiler rejects with a documented exception."
)
RULE = (
    "cases = generated multi-agent problem recipes (2-3 agents, shared pool of private/public agent fluents, environment "
    "fluents, Boolean / bounded-int / object fluents, conditional, forall and increase/decrease effects, disjunctive / negative "
    "/ quantified conditions, Dot references to other agents' fluents, Dot goals, actions shared by several agents, same-named "
    "actions of different agents with different bodies and with equal bodies) x both compilers. All total states over the "
    "ground fluents are enumerated when there are at most 2^8, else a seeded sample of that size plus the initial state. One "
    "evaluation = one judged (compiler, agent, ground instance, state) tuple or one judged (compiler, state) goal comparison. "
    "distinct_nontrivial = distinct (problem, compiler, agent, instance) for which the compiler produced >= 2 variants."
)
ASSUMPTIONS = [
    "vk/ref/masem.py implements DESIGN §3.2 per agent (bare fluent = own or environment fluent, Dot = other agent's fluent)",
    "a compiler-introduced goal fluent counts as holding iff one of the actions that set it (mapped back to no action) is applicable (H11)",
]
SHARD_TIMEOUT = {"quick": 900, "thorough": 5400}
BOUNDS = {"quick": dict(n=160, max_states=256), "thorough": dict(n=12000, max_states=256)}


def plan(tier, seed):
    b = BOUNDS[tier]
    return simple_plan(PROPERTY, tier, seed, b["n"], b["n"])


def run_shard(spec, res):
    for key in spec["cases"]:
        try:
            run_case(key, spec["tier"], res)
        except Unsupported:
            res.count("skipped_unsupported_by_oracle")


def replay(witness, res):
    run_case(witness["case_key"], witness.get("tier", "quick"), res, only=witness.get("compiler"))


def compilers():
    from unified_planning.engines.compilers.ma_conditional_effects_remover import MAConditionalEffectsRemover
    from unified_planning.engines.compilers.ma_disjunctive_conditions_remover import MADisjunctiveConditionsRemover
    from unified_planning.engines import CompilationKind

    return [
        ("ma_cerm", MAConditionalEffectsRemover, CompilationKind.CONDITIONAL_EFFECTS_REMOVING),
        ("ma_dcrm", MADisjunctiveConditionsRemover, CompilationKind.DISJUNCTIVE_CONDITIONS_REMOVING),
    ]


def states_of(pb, keys, rng, cap):
    doms = [masem.value_domain(pb, t) for _, t in keys]
    n = 1
    for d in doms:
        n *= len(d)
    names = [k for k, _ in keys]
    if n <= cap:
        return [dict(zip(names, combo)) for combo in product(*doms)], True
    out = [masem.initial_state(pb, keys)]
    out = [s for s in out if len(s) == len(names)]
    for _ in range(cap - len(out)):
        out.append({k: rng.choice(d) for k, d in zip(names, doms)})
    return out, False


def run_case(key, tier, res, only=None):
    from unified_planning.exceptions import UPException

    b = BOUNDS[tier]
    rng = rng_for(key)
    rec, feats = gen_ma_problem(rng)
    env = _env.fresh_env()
    try:
        pb, ctx = instantiate(rec, env)
    except UPException as e:
        res.count("rejected_at_build:" + type(e).__name__)
        return
    keys = masem.ground_keys(pb)
    states, exhaustive = states_of(pb, keys, rng_for(key, "states"), b["max_states"])
    res.count("problems")
    res.count("problems_exhaustive_states" if exhaustive else "problems_sampled_states")
    for ft in feats:
        res.count("feature:" + ft)
    for cname, cls, ckind in compilers():
        if only and cname != only:
            continue
        wbase = {"case_key": key, "tier": tier, "compiler": cname, "recipe": rec}
        try:
            kind = pb.kind
        except _env.INTERNAL_EXC as e:
            res.count("kind_raises")
            return
        if not cls.supports(kind):
            res.count(f"{cname}:unsupported_kind")
            continue
        res.mon()
        jpb = pb
        try:
            result = cls().compile(pb, ckind)
        except _env.INTERNAL_EXC as e:
            res.case()
            envbug = isinstance(e, AssertionError) and "different environment" in str(e)
            res.violation(
                f"{cname}:compile-raises:{type(e).__name__}" + (":non-global-environment" if envbug else ""),
                f"{cname}.compile raised {e!r} on a problem of its supported kind"
                + (" built in a fresh Environment (objects created by the compiler live in the global environment)" if envbug else ""),
                wbase,
            )
            if not envbug:
                continue
            # keep exploring the semantics: re-instantiate the same recipe in the global environment and compile there
            from unified_planning.environment import get_environment

            try:
                jpb, _ = instantiate(rec, get_environment())
                result = cls().compile(jpb, ckind)
            except _env.INTERNAL_EXC as e2:
                res.violation(f"{cname}:compile-raises:{type(e2).__name__}", f"{cname}.compile raised {e2!r} on a problem of its supported kind", wbase)
                continue
            except UPException as e2:
                res.count(f"{cname}:rejected:{type(e2).__name__}")
                continue
            res.count(f"{cname}:recompiled_in_global_environment")
        except UPException as e:
            res.count(f"{cname}:rejected:{type(e).__name__}")
            continue
        res.count(f"{cname}:compiled")
        judge(jpb, result, cname, keys, states, wbase, res, h(rec))


def judge(pb, result, cname, keys, states, wbase, res, pid):
    from unified_planning.plans import ActionInstance
    from unified_planning.exceptions import UPException
    from vk.ref.seqsem import param_exprs

    cp = result.problem
    ckeys = masem.ground_keys(cp)
    orig_names = {k for k, _ in keys}
    new_keys = [(k, t) for k, t in ckeys if k not in orig_names]
    lost = orig_names - {k for k, _ in ckeys}

    def viol(mech, summary, **w):
        res.violation(f"{cname}:{mech}", summary, {**wbase, **w})

    if lost:
        res.case()
        viol("fluent-lost", f"compiled problem lacks original ground fluents {sorted(map(str, lost))[:4]}")
        return
    for k, t in new_keys:
        if not t.is_bool_type():
            res.count(f"{cname}:skipped_non_boolean_new_fluent")
            return
    # ---- map every compiled action back ---------------------------------------------------------------------------
    variants = {}  # (agent name, original action name) -> [compiled action]
    fake = []  # (compiled agent, action) mapping back to no action
    for cag in cp.agents:
        for ca in cag.actions:
            try:
                pex = tuple()
                if ca.parameters:
                    # any well-typed actual parameters will do for the lookup of the original action
                    doms = [masem.value_domain(cp, p.type) for p in ca.parameters]
                    pex = param_exprs(cp, ca, tuple(d[0] for d in doms))
                back = result.map_back_action_instance(ActionInstance(ca, pex, cag))
            except _env.INTERNAL_EXC as e:
                res.case()
                viol(f"map-back-raises:{type(e).__name__}", f"map_back_action_instance raised {e!r} for compiled action {ca.name} of agent {cag.name}")
                return
            except UPException as e:
                res.case()
                viol(f"map-back-rejects:{type(e).__name__}", f"map_back_action_instance rejected compiled action {ca.name} of agent {cag.name}: {e}")
                return
            if back is None:
                fake.append((cag, ca))
            else:
                if back.agent is not None and back.agent.name != cag.name:
                    res.case()
                    viol("map-back-changes-agent", f"compiled action {ca.name} of agent {cag.name} maps back to agent {back.agent.name}")
                    return
                own = [x for x in pb.agent(cag.name).actions if x.name == back.action.name]
                if not own or own[0] != back.action:
                    # action names are unique per agent only: the variant must map back to an action of its *own* agent
                    res.case()
                    viol(
                        "map-back-to-an-action-the-agent-does-not-own",
                        f"compiled action {ca.name} of agent {cag.name} maps back to an action named {back.action.name} that differs from {cag.name}'s own action of that name"
                        if own
                        else f"compiled action {ca.name} of agent {cag.name} maps back to {back.action.name}, which {cag.name} does not have",
                        variant=str(ca),
                        mapped_back=str(back.action),
                    )
                    return
                variants.setdefault((cag.name, back.action.name), []).append(ca)
    # Compiler-introduced agent fluents that actions of *other* agents write through a bare fluent expression (the MA
    # disjunctive-conditions remover resets every agent's fake goal fluent in every ordinary action): not a well-formed
    # reference for that agent; read charitably as the owner's fluent, and counted as an observation.
    new_names = {k[-2] for k, _ in new_keys}
    foreign = {}
    for k, _ in new_keys:
        if len(k) == 3:
            foreign.setdefault(k[1], k[0])
    env_names = {f.name for f in cp.ma_environment.fluents}
    for cag in cp.agents:
        own = {f.name for f in cag.fluents}
        for ca in cag.actions:
            for e in ca.effects:
                if e.fluent.is_fluent_exp():
                    n = e.fluent.fluent().name
                    if n in foreign and n not in own and n not in env_names:
                        res.count(f"observation:{cname}:action-writes-another-agents-new-fluent-without-dot")
    # ---- goals -------------------------------------------------------------------------------------------------------
    fake_goal_fluents = {}
    for g in cp.goals:
        if g.is_fluent_exp() and g.fluent().name in new_names:
            setters = []
            for cag, ca in fake:
                for e in ca.effects:
                    if e.fluent.is_fluent_exp() and e.fluent.fluent().name == g.fluent().name and e.value.is_true():
                        setters.append((cag, ca))
            fake_goal_fluents[g] = setters
    if fake_goal_fluents:
        res.count(f"{cname}:problems_with_fake_goal_fluent")
    goal_judged = 0
    goal_true = set()  # indices of the states in which the original goals hold
    fake_keys = [k for k, _ in new_keys if any(g.fluent().name == k[-2] for g in fake_goal_fluents)]
    for si, s in enumerate(states):
        cs = dict(s)
        for k, t in new_keys:
            cs[k] = False
        og = True
        for g in pb.goals:
            v = masem.holds_goal(pb, s, g)
            if v is UNDEF:
                og = None
                break
            og = og and v
        if og is None:
            res.count("dontcare:goal-undefined")
            continue
        cg = True
        for g in cp.goals:
            if g in fake_goal_fluents:
                v = False
                for cag, ca in fake_goal_fluents[g]:
                    for args in instance_args(cp, ca):
                        r = masem.succ(cp, cs, cag, ca, args, foreign)
                        if r.status == OKAY:
                            v = True
                            break
                        if r.status == DONTCARE:
                            v = None
                            break
                    if v is not False:
                        break
            else:
                v = masem.holds_goal(cp, cs, g)
                if v is UNDEF:
                    v = None
            if v is None:
                cg = None
                break
            cg = cg and v
        if cg is None:
            res.count("dontcare:compiled-goal-undefined")
            continue
        res.case()
        goal_judged += 1
        if og:
            goal_true.add(si)
        if og != cg:
            viol(
                "goals-not-equivalent" + (":fake-goal" if fake_goal_fluents else ""),
                f"state {masem.show(s)}: original goals {'hold' if og else 'do not hold'}, compiled goals {'hold' if cg else 'do not hold'} "
                f"(original {[str(g) for g in pb.goals]}, compiled {[str(g) for g in cp.goals]})",
                state=masem.show(s),
                expected=og,
                observed=cg,
            )
            return
    if goal_judged:
        res.count(f"{cname}:goal_states_judged", goal_judged)
    # ---- actions -----------------------------------------------------------------------------------------------------
    sampled = False
    for ag in pb.agents:
        cag = cp.agent(ag.name)
        for a, args in masem.instances(pb, ag):
            vs = variants.get((ag.name, a.name), [])
            inst = [ag.name, a.name, list(map(str, args))]
            if len(vs) >= 2:
                res.nt((pid, cname, ag.name, a.name, tuple(map(str, args))))
                res.count(f"{cname}:instances_with_2+_variants")
            for si, s in enumerate(states):
                r0 = masem.succ(pb, s, ag, a, args)
                if r0.status == DONTCARE:
                    res.count("dontcare:" + r0.reason)
                    continue
                cs = dict(s)
                for k, t in new_keys:
                    cs[k] = False
                rvs = [(v, masem.succ(cp, cs, cag, v, args, foreign)) for v in vs]
                dc = [rv for _, rv in rvs if rv.status == DONTCARE]
                if dc:
                    res.count("dontcare:variant:" + dc[0].reason)
                    continue
                res.case()
                app = [(v, rv) for v, rv in rvs if rv.status == OKAY]
                if r0.status == INAPP:
                    res.count("orig_inapplicable:" + r0.reason)
                    if app:
                        viol(
                            f"variant-applicable-but-original-inapplicable:{r0.reason}",
                            f"{inst} in {masem.show(s)}: original inapplicable ({r0.reason} {r0.info}), compiled variant {app[0][0].name} applicable",
                            state=masem.show(s),
                            instance=inst,
                            variant=str(app[0][0]),
                            original=str(a),
                        )
                        return
                    continue
                # original applicable
                fired = r0.info["fired"]
                if not app:
                    if fired == 0:
                        res.count("dontcare:original-fires-no-effect-and-has-no-variant")
                        continue
                    if any(rv.reason == "bounds" and split_incdec(a, v) for v, rv in rvs):
                        viol(
                            "conditional-incdec-split-fires-twice",
                            f"{inst} in {masem.show(s)}: original applicable (changes {r0.info['changed']}); the variant whose precondition holds "
                            f"applies a split conditional increase/decrease more than once and leaves the fluent's bounds",
                            state=masem.show(s),
                            instance=inst,
                            original=str(a),
                            variants=[str(v) for v in vs],
                        )
                        return
                    viol(
                        "no-applicable-variant" + (":state-unchanged" if not r0.info["changed"] else ""),
                        f"{inst} in {masem.show(s)}: original applicable (changes {r0.info['changed']}), none of the {len(vs)} variants is",
                        state=masem.show(s),
                        instance=inst,
                        original=str(a),
                        variants=[str(v) for v in vs],
                    )
                    return
                res.count("orig_applicable_with_variant")
                for v, rv in app:
                    got = {k: rv.state[k] for k in s}
                    if got != r0.state:
                        diff = {str(k): (str(r0.state[k]), str(got[k])) for k in s if got[k] != r0.state[k]}
                        kinds = effect_kinds_on(a, diff)
                        mech = "successor-mismatch:" + kinds
                        incdec_names = {
                            (e.fluent.arg(0) if e.fluent.is_dot() else e.fluent).fluent().name for e in a.effects if e.is_increase() or e.is_decrease()
                        }
                        if split_incdec(a, v) and all(k[-2] in incdec_names for k in s if got[k] != r0.state[k]):
                            mech = "conditional-incdec-split-fires-twice"
                        viol(
                            mech,
                            f"{inst} in {masem.show(s)}: variant {v.name} yields a different successor (fluent: (expected, observed)) {diff}",
                            state=masem.show(s),
                            instance=inst,
                            diff=diff,
                            original=str(a),
                            variant=str(v),
                        )
                        return
                if fake_keys and si in goal_true and r0.info["changed"]:
                    # a goal state in which the fake goal fluents were achieved: an ordinary step that falsifies the original
                    # goals must not leave the compiled goals satisfied
                    og2 = all(masem.holds_goal(pb, r0.state, g) is True for g in pb.goals)
                    if not og2:
                        cs2 = dict(cs)
                        for k in fake_keys:
                            cs2[k] = True
                        for v, _ in app:
                            rv2 = masem.succ(cp, cs2, cag, v, args, foreign)
                            res.count(f"{cname}:fake_goal_reset_checked")
                            if rv2.status == OKAY and all(rv2.state[k] for k in fake_keys):
                                viol(
                                    "fake-goal-fluent-not-reset",
                                    f"{inst} in {masem.show(s)} (goals hold, fake goal fluents achieved): variant {v.name} falsifies the original goals but leaves every fake goal fluent true",
                                    state=masem.show(s),
                                    instance=inst,
                                    variant=str(v),
                                )
                                return
                if cname == "ma_cerm" and len(app) != 1:
                    viol(
                        "more-than-one-variant-applicable",
                        f"{inst} in {masem.show(s)}: {len(app)} variants applicable: {[v.name for v, _ in app]}",
                        state=masem.show(s),
                        instance=inst,
                        variants=[str(v) for v, _ in app],
                    )
                    return
                if len(app) > 1:
                    res.count(f"{cname}:several_variants_applicable")
                if not sampled and len(vs) >= 2 and r0.info["changed"]:
                    sampled = True
                    res.sample({"compiler": cname, "instance": inst, "state": masem.show(s), "variants": [v.name for v in vs], "applicable": [v.name for v, _ in app], "verdict": "agree"})


def instance_args(pb, action):
    doms = [masem.value_domain(pb, p.type) for p in action.parameters]
    return [tuple(c) for c in product(*doms)]


def split_incdec(orig, variant):
    """the variant has more increase/decrease effects on some fluent than the original action (an effect was split; counted per
    written fluent, because the compiler also drops effects whose condition simplifies to false)."""

    def n(act):
        out = {}
        for e in act.effects:
            if e.is_increase() or e.is_decrease():
                fe = e.fluent.arg(0) if e.fluent.is_dot() else e.fluent
                out[str(fe)] = out.get(str(fe), 0) + 1
        return out

    no, nv = n(orig), n(variant)
    return any(c > no.get(k, 0) for k, c in nv.items())


def effect_kinds_on(action, diff):
    """Witness-derived signature: kinds of the original effects that write a differing fluent."""
    names = {k.split(",")[-2].strip(" '\"()") if "," in k else k for k in diff}
    kinds = set()
    for e in action.effects:
        fe = e.fluent.arg(0) if e.fluent.is_dot() else e.fluent
        if any(fe.fluent().name in k for k in diff):
            k = "increase" if e.is_increase() else "decrease" if e.is_decrease() else "assign"
            if e.is_conditional():
                k = "conditional-" + k
            kinds.add(k)
    return ",".join(sorted(kinds)) or "none"


def thresholds(m):
    c = m["counters"]
    out = []
    for k, n in (
        ("ma_cerm:compiled", 20),
        ("ma_dcrm:compiled", 20),
        ("ma_cerm:instances_with_2+_variants", 10),
        ("ma_dcrm:instances_with_2+_variants", 10),
        ("ma_dcrm:problems_with_fake_goal_fluent", 5),
        ("ma_dcrm:goal_states_judged", 100),
        ("ma_dcrm:fake_goal_reset_checked", 20),
        ("feature:dot", 10),
        ("feature:conditional-effect", 10),
        ("feature:disjunction", 10),
        ("feature:same-name:different-body:lender-first", 5),
        ("feature:same-name:different-body:lender-second", 5),
        ("feature:same-name:equal-copy", 3),
        ("problems_exhaustive_states", 5),
        ("orig_applicable_with_variant", 200),
    ):
        if c.get(k, 0) < n:
            out.append(f"counter {k} = {c.get(k, 0)} < {n}")
    if len(m["nontrivial"]) < 20:
        out.append("fewer than 20 distinct (problem, compiler, agent, instance) with >= 2 variants")
    rej = sum(v for k, v in c.items() if ":rejected:" in k or k.startswith("rejected_at_build"))
    if rej > c.get("problems", 0):
        out.append("more than half of the compilations were rejected")
    return out

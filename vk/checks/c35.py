"""C35 — the simulated execution environment is faithful to its contingent problem.

Monitor: for generated contingent problems and random seeds, the initial state chosen by SimulatedExecutionEnvironment and
every later state are captured at the boundary of the UPSequentialSimulator the environment calls (vk/mon/simcapture.py) and
judged: hidden part against the oneof/or constraints, non-hidden part against the declared initial values (taken from the
recipe), every apply / observation / is_goal_reached against the reference sequential semantics vk/ref/seqsem.py."""
import random
from itertools import product

from vk import env as _env  # noqa: F401
from vk.core import rng_for, simple_plan, h
from vk.gen.contingent import gen_contingent, instantiate
from vk.mon.simcapture import Capture
from vk.ref import seqsem
from vk.ref.evalx import Unsupported, Interp, ev, UNDEF, const_value
from vk.ref.seqsem import OKAY, INAPP, DONTCARE

PROPERTY = "C35"
LEVEL = "exploration"
TECHNIQUE = "runtime monitoring: captured simulator states of the environment judged by constraint checking, declared initial values and reference sequential semantics"
LEVEL_TEXT = (
    "Every SimulatedExecutionEnvironment built on generated contingent problems under many random seeds is observed at the "
    "boundary of its simulator: the drawn hidden state must satisfy every oneof/or constraint, every non-hidden ground fluent "
    "must carry its declared initial value, every apply must agree with an independent reference successor semantics "
    "(raising iff inapplicable), observations must be the current values of the sensed fluents and is_goal_reached must agree "
    "with the reference goal test. Held on the executions observed only."
)
LEVEL_NOTE = (
    "Trusted: CPython, read-only accessors, the recipe (source of the declared initial values), vk/ref/evalx.py + "
    "vk/ref/seqsem.py. pysmt/z3 are executed as dependencies of the code under test, never used as a judge. Not judged: ground "
    "fluents without any declared initial value, steps the reference classifies don't-care (§3.2), sensing actions with effects "
    "(not generated)."
)
RULE = (
    "cases = generated contingent problem recipes (hidden Boolean fluents under unknown / oneof / or constraints incl. negated "
    "literals and pairs of constraints over exactly the same ground fluents that differ in kind / polarity, per-fluent defaults true/false/numeric/object, per-type defaults, explicit values, Boolean / bounded-int / object "
    "non-hidden fluents, ordinary actions with conditional / forall / increase effects, sensing actions with parameters) x "
    "SEEDS random seeds (random.seed) x one random action sequence of length <= 6 per seed. One evaluation = one judged "
    "initial state, apply, observation or goal query. distinct_nontrivial = distinct (problem, seed) pairs in which some "
    "non-hidden ground fluent takes its value from a per-fluent default that differs from what the per-type default (or the "
    "fallback False) would give."
)
ASSUMPTIONS = [
    "the recipe states the declared initial values: explicit value > per-fluent default > per-type default",
    "vk/ref/seqsem.py implements DESIGN §3.2; a sensing action leaves the state unchanged and requires its preconditions",
    "the states recorded by the pass-through wrappers on UPSequentialSimulator.get_initial_state/apply are the states the environment uses",
]
SHARD_TIMEOUT = {"quick": 900, "thorough": 5400}
BOUNDS = {"quick": dict(n=120, seeds=8, steps=6), "thorough": dict(n=6000, seeds=20, steps=6)}


def plan(tier, seed):
    b = BOUNDS[tier]
    return simple_plan(PROPERTY, tier, seed, b["n"], b["n"])


def run_shard(spec, res):
    for key in spec["cases"]:
        try:
            run_case(key, spec["tier"], res)
        except Unsupported:
            res.count("skipped_unsupported_by_oracle")


def replay(witness, res):
    run_case(witness["case_key"], witness.get("tier", "quick"), res, only_seed=witness.get("seed_index"))


# ---- recipe-level ground truth -----------------------------------------------------------------------------------------
def lit_key(l):
    """(negated?, (fluent name, args)) of a literal recipe."""
    neg = l[0] == "not"
    fe = l[1] if neg else l
    return neg, (fe[1], tuple(a[1] for a in fe[2:]))


def rvalue(v):
    return v[1] if v[0] in ("b", "o") else int(v[1])


def declared_values(rec):
    """{(name,args): (value, source)} from the recipe; hidden ground fluents excluded; source in explicit|fluent-default|type-default."""
    objs = {}
    for o, t in rec["objects"]:
        objs.setdefault(t[1], []).append(o)
    tdef = {str(t): v for t, v in rec.get("type_defaults", [])}
    expl = {}
    for fe, v in rec["init"]:
        expl[(fe[1], tuple(a[1] for a in fe[2:]))] = rvalue(v)
    hidden = hidden_keys(rec)
    out, undeclared = {}, []
    for f in rec["fluents"]:
        doms = [objs.get(pt[1], []) for _, pt in f["sig"]]
        for args in product(*doms):
            k = (f["name"], tuple(args))
            if k in hidden:
                continue
            if k in expl:
                out[k] = (expl[k], "explicit")
            elif f["default"] is not None:
                out[k] = (rvalue(f["default"]), "fluent-default")
            elif str(f["type"]) in tdef:
                out[k] = (rvalue(tdef[str(f["type"])]), "type-default")
            else:
                undeclared.append(k)
    return out, undeclared, tdef


def hidden_keys(rec):
    hs = set()
    for c in rec["constraints"]:
        if c[0] == "unknown":
            hs.add(lit_key(c[1])[1])
        else:
            for l in c[1]:
                hs.add(lit_key(l)[1])
    return hs


def constraint_ok(c, s):
    """Does total assignment s (key -> bool) satisfy constraint recipe c?"""
    if c[0] == "unknown":
        return True
    vals = []
    for l in c[1]:
        neg, k = lit_key(l)
        vals.append((not s[k]) if neg else bool(s[k]))
    return sum(vals) == 1 if c[0] == "oneof" else any(vals)


def count_models(rec, cap=4096, constraints=None):
    hk = sorted(hidden_keys(rec))
    if 2 ** len(hk) > cap:
        return None
    cs = rec["constraints"] if constraints is None else constraints
    n = 0
    for combo in product([False, True], repeat=len(hk)):
        s = dict(zip(hk, combo))
        if all(constraint_ok(c, s) for c in cs):
            n += 1
    return n


def same_fluent_pairs(rec, nmodels):
    """Coverage class: pairs of distinct oneof/or constraints over exactly the same ground fluents (they differ in kind and/or
    polarity). Returns (number of such pairs, number of pairs in which NEITHER constraint is implied by the remaining
    constraints, i.e. dropping either one admits hidden states the problem excludes)."""
    cs = [c for c in rec["constraints"] if c[0] != "unknown"]
    sig = [(c[0], tuple(sorted(lit_key(l) for l in c[1]))) for c in cs]
    flu = [frozenset(k for _, k in sg[1]) for sg in sig]
    pairs = needed = 0
    for i in range(len(cs)):
        for j in range(i + 1, len(cs)):
            if flu[i] != flu[j] or sig[i] == sig[j]:
                continue
            pairs += 1
            if nmodels:
                wo = [count_models(rec, constraints=[c for c in rec["constraints"] if c is not cs[x]]) for x in (i, j)]
                if all(w is not None and w > nmodels for w in wo):
                    needed += 1
    return pairs, needed


# ---- the experiment ----------------------------------------------------------------------------------------------------
def run_case(key, tier, res, only_seed=None):
    from unified_planning.exceptions import UPException

    b = BOUNDS[tier]
    rng = rng_for(key)
    rec, feats = gen_contingent(rng)
    env = _env.fresh_env()
    try:
        pb, ctx = instantiate(rec, env)
    except UPException as e:
        res.count("rejected_at_build:" + type(e).__name__)
        return
    res.count("problems")
    for ft in feats:
        res.count("feature:" + ft)
    declared, undeclared, tdef = declared_values(rec)
    nmodels = count_models(rec)
    npairs, nneeded = same_fluent_pairs(rec, nmodels)
    if npairs:
        res.count("problems_with_two_constraints_over_the_same_fluents")
    if nmodels == 0:
        # outside the property: no hidden state can satisfy all the constraints (counted, not judged)
        res.count("problems_with_unsatisfiable_constraints")
        if npairs:
            res.count("problems_with_unsatisfiable_constraints:same-fluent-pair")
        return
    if nneeded:
        res.count("problems_with_same_fluent_constraint_pair_each_needed")
    if nmodels is not None and nmodels >= 2:
        res.count("problems_with_2+_models")
    gfl = seqsem.ground_fluents(pb)
    insts = seqsem.all_instances(pb)
    drawn = set()
    pid = h(rec)
    reported = set()
    hs = None
    for si in range(b["seeds"]):
        if only_seed is not None and si != only_seed:
            continue
        judged0 = res.counters.get("hidden_states_judged", 0)
        hs = one_run(pb, rec, key, tier, si, b, declared, undeclared, tdef, gfl, insts, res, pid, reported)
        if nneeded and res.counters.get("hidden_states_judged", 0) > judged0:
            res.count("hidden_states_judged:same-fluent-constraint-pair-each-needed")
        if hs is None:
            break  # a violation / rejection that does not depend on the seed: do not repeat it for every seed
        drawn.add(hs)
    if nmodels is not None and nmodels >= 2 and len(drawn) >= 1 and hs is not None:
        res.count("problems_with_2+_models_all_seeds_run")
        if len(drawn) >= 2:
            res.count("problems_with_2+_distinct_hidden_states_drawn")
    if drawn:
        res.count("distinct_hidden_states_drawn", len(drawn))


def one_run(pb, rec, key, tier, si, b, declared, undeclared, tdef, gfl, insts, res, pid, reported):
    """Returns the frozen hidden assignment drawn, or None when the run was cut short by a seed-independent problem."""
    from unified_planning.exceptions import UPException, UPUsageError
    from unified_planning.model.contingent import SimulatedExecutionEnvironment, SensingAction
    from unified_planning.plans import ActionInstance

    wbase = {"case_key": key, "tier": tier, "seed_index": si, "recipe": rec}

    def viol(mech, summary, **w):
        if mech in reported:  # one witness per mechanism and problem is enough (the seeds repeat it)
            res.count("violations_repeated_for_another_seed")
            return
        reported.add(mech)
        res.violation(mech, summary, {**wbase, **w})

    random.seed(f"{key}:{si}")
    srng = rng_for(key, "steps", si)
    hk = hidden_keys(rec)
    with Capture() as cap:
        res.mon()
        try:
            envx = SimulatedExecutionEnvironment(pb)
        except _env.INTERNAL_EXC as e:
            res.case()
            neg_only = negated_only_literals(rec)
            nonbool_no_tdef = [f for f in rec["fluents"] if f["type"] != "bool" and str(f["type"]) not in tdef]
            if isinstance(e, KeyError) and neg_only:
                viol(
                    "constructor-raises:KeyError:negated-literal-without-positive-occurrence",
                    f"SimulatedExecutionEnvironment(problem) raised {e!r}; ground fluents {sorted(neg_only)} occur only negated in the oneof/or constraints",
                )
            elif isinstance(e, TypeError) and any(f["default"] is not None for f in nonbool_no_tdef):
                viol(
                    "per-fluent-default-ignored:constructor-raises",
                    f"SimulatedExecutionEnvironment(problem) raised {e!r}; non-Boolean fluents {[f['name'] for f in nonbool_no_tdef if f['default'] is not None]} "
                    "have a per-fluent default but no per-type default",
                )
            elif isinstance(e, TypeError) and nonbool_no_tdef and undeclared:
                res.count("dontcare:constructor-raises-on-undeclared-non-boolean-initial-value")
            else:
                viol(f"constructor-raises:{type(e).__name__}", f"SimulatedExecutionEnvironment(problem) raised {e!r}")
            return None
        except UPException as e:
            res.count("rejected_by_constructor:" + type(e).__name__)
            return None
        init_events = cap.take("get_initial_state")
        if len(init_events) != 1 or "result" not in init_events[0]:
            res.count("initial_state_not_captured")
            return None
        st = seqsem.read_state(pb, init_events[0]["result"], gfl)
        res.case()
        # ---- hidden part ---------------------------------------------------------------------------------------------
        for k in hk:
            if not isinstance(st.get(k), bool):
                viol("hidden-fluent-not-boolean", f"hidden ground fluent {k} has value {st.get(k, 'UNDEF')!r} in the chosen initial state", state=seqsem.show_state(st))
                return None
        for c in rec["constraints"]:
            if not constraint_ok(c, st):
                viol(
                    f"hidden-state-violates:{c[0]}",
                    f"chosen hidden state {seqsem.show_state({k: st[k] for k in hk})} violates constraint {c}",
                    state=seqsem.show_state(st),
                    constraint=c,
                )
                return None
        res.count("hidden_states_judged")
        # ---- non-hidden part -----------------------------------------------------------------------------------------
        nontrivial = False
        mismatch = False
        for k, (v, src) in sorted(declared.items(), key=str):
            f = next(x for x in rec["fluents"] if x["name"] == k[0])
            fallback = tdef.get(str(f["type"]))
            fallback = rvalue(fallback) if fallback is not None else False
            if src == "fluent-default" and v != fallback:
                nontrivial = True
            got = st.get(k, UNDEF)
            res.count("initial_values_judged:" + src)
            if got is UNDEF or got != v or type(got) is not type(v):
                kind = "bool" if f["type"] == "bool" else f["type"][0]
                viol(
                    "per-fluent-default-ignored:initial-value" if src == "fluent-default" else f"initial-value-mismatch:{src}",
                    f"non-hidden ground {kind} fluent {k} should start with its {src} {v!r}"
                    + ("" if str(f["type"]) in tdef else " (its type has no per-type default)")
                    + f", the environment starts with {got!r}",
                    fluent=list(k),
                    expected=v,
                    observed=str(got),
                    state=seqsem.show_state(st),
                )
                if got is UNDEF or type(got) is not type(v):
                    return None  # ill-typed state: nothing further can be judged
                mismatch = True
        if nontrivial:
            res.nt((pid, si))
            res.count("runs_with_per_fluent_default_differing_from_type_default")
        for k in undeclared:
            res.count("dontcare:undeclared-initial-value")
        ftypes = {f["name"]: f["type"] for f in rec["fluents"]}
        if any(isinstance(st.get(k), bool) and ftypes[k[0]] != "bool" for k in undeclared):
            res.count("dontcare:undeclared-non-boolean-fluent-starts-as-False")
            return frozenset((k, st[k]) for k in hk)
        # ---- action sequence (judged relative to the state the environment really holds) ------------------------------
        if mismatch:
            res.count("runs_continued_from_a_wrong_initial_state")
        tracked = dict(st)
        if not goal_check(envx, pb, tracked, res, viol):
            return None
        for step in range(b["steps"]):
            if not insts:
                break
            refs = [(a, args, seqsem.succ(pb, tracked, a, args)) for a, args in insts]
            appl = [x for x in refs if x[2].status == OKAY]
            a, args, r = srng.choice(appl) if appl and srng.random() < 0.7 else srng.choice(refs)
            sensing = isinstance(a, SensingAction)
            stepd = [a.name, list(args)]
            ai = ActionInstance(a, seqsem.param_exprs(pb, a, args))
            if sensing and r.status == OKAY:
                # observing a fluent that has no value in the current state: "the current value of the sensed fluent" does not
                # exist, the statement does not say what the observation must be (the library raises UPStateMissingFluentError)
                I0 = Interp(pb, tracked, {p.name: v for p, v in zip(a.parameters, args)})
                if any(tracked.get((of.fluent().name, tuple(ev(x, I0, "strict") for x in of.args)), UNDEF) is UNDEF for of in a.observed_fluents):
                    res.count("dontcare:sensing-a-fluent-without-value")
                    continue
            res.mon()
            raised = None
            obs = None
            try:
                obs = envx.apply(ai)
            except UPUsageError as e:
                raised = e
            except Exception as e:
                res.case()
                viol(f"apply-raises:{type(e).__name__}", f"apply({stepd}) raised {e!r} in {seqsem.show_state(tracked)} (reference: {r.status}/{r.reason})", step=stepd)
                return None
            ev_apply = cap.take("apply")
            res.case()
            if ev_apply and ev_apply[-1]["args"]:
                used = seqsem.read_state(pb, ev_apply[-1]["args"][0], gfl)
                if used != tracked:
                    diff = {str(k): (str(tracked.get(k, "UNDEF")), str(used.get(k, "UNDEF"))) for k in set(used) | set(tracked) if used.get(k, UNDEF) != tracked.get(k, UNDEF)}
                    viol(
                        "action-applied-to-a-state-that-is-not-the-current-one",
                        f"apply({stepd}): the environment handed its simulator a state that differs from the current state (fluent: (current, used)) {diff}",
                        step=stepd,
                        diff=diff,
                    )
                    return None
            if r.status == DONTCARE:
                res.count("dontcare:" + str(r.reason))
                if raised is None and ev_apply and ev_apply[-1].get("result") is not None:
                    tracked = seqsem.read_state(pb, ev_apply[-1]["result"], gfl)
                continue
            if r.status == INAPP:
                res.count("ref_inapplicable:" + r.reason)
                if raised is None:
                    viol(
                        f"inapplicable-action-accepted:{r.reason}",
                        f"apply({stepd}) in {seqsem.show_state(tracked)} returned {obs!r}; the reference says inapplicable ({r.reason})",
                        step=stepd,
                        state=seqsem.show_state(tracked),
                    )
                    return None
                continue
            # reference: applicable
            res.count("ref_applicable:" + ("sensing" if sensing else "ordinary"))
            if raised is not None:
                viol(
                    "applicable-action-refused" + (":sensing" if sensing else ""),
                    f"apply({stepd}) in {seqsem.show_state(tracked)} raised {raised!r}; the reference says applicable",
                    step=stepd,
                    state=seqsem.show_state(tracked),
                )
                return None
            if not ev_apply or ev_apply[-1].get("result") is None:
                res.count("state_not_captured")
                return frozenset((k, st[k]) for k in hk)
            got = seqsem.read_state(pb, ev_apply[-1]["result"], gfl)
            if got != r.state:
                diff = {str(k): (str(r.state.get(k, "UNDEF")), str(got.get(k, "UNDEF"))) for k in set(got) | set(r.state) if got.get(k, UNDEF) != r.state.get(k, UNDEF)}
                viol(
                    "successor-mismatch" + (":sensing-action-changes-state" if sensing else ""),
                    f"apply({stepd}) in {seqsem.show_state(tracked)}: successor differs (fluent: (expected, observed)) {diff}",
                    step=stepd,
                    diff=diff,
                )
                return None
            tracked = r.state
            # observations
            exp_obs = {}
            if sensing:
                I = Interp(pb, tracked, {p.name: v for p, v in zip(a.parameters, args)})
                for of in a.observed_fluents:
                    oargs = tuple(ev(x, I, "strict") for x in of.args)
                    k = (of.fluent().name, oargs)
                    exp_obs[k] = tracked.get(k, UNDEF)
            got_obs = {}
            bad = None
            for fe, val in (obs or {}).items():
                try:
                    got_obs[(fe.fluent().name, tuple(const_value(x) for x in fe.args))] = const_value(val)
                except Exception:
                    bad = (fe, val)
            res.count("observations_judged" if sensing else "empty_observations_judged")
            if bad is not None or got_obs != exp_obs:
                viol(
                    "observation-mismatch" + (":sensing" if sensing else ":ordinary-action"),
                    f"apply({stepd}) in {seqsem.show_state(tracked)}: observations {show_obs(got_obs) if bad is None else bad} expected {show_obs(exp_obs)}",
                    step=stepd,
                    expected=show_obs(exp_obs),
                    observed=show_obs(got_obs),
                )
                return None
            if not goal_check(envx, pb, tracked, res, viol):
                return None
        if si == 0:
            res.sample({"problem": rec, "seed_index": si, "initial_state": seqsem.show_state(st), "verdict": "agree"})
    return frozenset((k, st[k]) for k in hk)


def show_obs(d):
    return {f"{k[0]}({','.join(map(str, k[1]))})": (v if isinstance(v, (bool, int, str)) else str(v)) for k, v in sorted(d.items(), key=str)}


def goal_check(envx, pb, tracked, res, viol):
    gs = seqsem.goal_status(pb, tracked)
    res.mon()
    try:
        lg = envx.is_goal_reached()
    except Exception as e:
        res.case()
        viol(f"is_goal_reached-raises:{type(e).__name__}", f"is_goal_reached raised {e!r} in {seqsem.show_state(tracked)}")
        return False
    res.case()
    if gs is None:
        res.count("dontcare_goal")
        return True
    res.count("goal_queries_judged")
    if bool(lg) != gs:
        viol("is_goal_reached-mismatch", f"is_goal_reached()={lg}, reference={gs} in {seqsem.show_state(tracked)}", expected=gs, observed=bool(lg))
        return False
    return True


def negated_only_literals(rec):
    """ground fluents that occur only negated in oneof/or constraints and in no unknown constraint."""
    pos, neg = set(), set()
    for c in rec["constraints"]:
        if c[0] == "unknown":
            pos.add(lit_key(c[1])[1])
        else:
            for l in c[1]:
                n, k = lit_key(l)
                (neg if n else pos).add(k)
    return neg - pos


def thresholds(m):
    c = m["counters"]
    out = []
    for k, n in (
        ("hidden_states_judged", 100),
        ("initial_values_judged:explicit", 50),
        ("initial_values_judged:fluent-default", 50),
        ("initial_values_judged:type-default", 50),
        ("problems_with_2+_models", 20),
        ("problems_with_2+_distinct_hidden_states_drawn", 10),
        # two constraints over exactly the same ground fluents (different kind / polarity), neither implied by the rest
        ("problems_with_same_fluent_constraint_pair_each_needed", 10),
        ("hidden_states_judged:same-fluent-constraint-pair-each-needed", 60),
    ):
        if c.get(k, 0) < n:
            out.append(f"counter {k} = {c.get(k, 0)} < {n}")
    if c.get("problems_with_2+_distinct_hidden_states_drawn", 0) * 2 < c.get("problems_with_2+_models_all_seeds_run", 0):
        out.append("fewer than half of the multi-model problems showed two distinct hidden states over the seeds")
    for k, n in (
        ("ref_applicable:ordinary", 50),
        ("ref_applicable:sensing", 30),
        ("ref_inapplicable:precondition-false", 20),
        ("observations_judged", 30),
        ("goal_queries_judged", 100),
    ):
        if c.get(k, 0) < n:
            out.append(f"counter {k} = {c.get(k, 0)} < {n}")
    if len(m["nontrivial"]) < 10:
        out.append("fewer than 10 (problem, seed) runs with a per-fluent default differing from the type default")
    return out

"""C21 - the two PDDL readers (UP reader / AI-planning reader) produce behaviourally equivalent problems.

Differential monitor: the same (domain text, problem text) is given to PDDLReader(force_up_pddl_reader=True) and
PDDLReader(force_ai_planning_reader=True); whenever both return a problem the two problems are explored in lock-step by the
reference semantics (vk.ref.bisim over vk.ref.seqsem, names matched case-insensitively) and their metrics are compared."""
import glob
import os

from vk import env as _env  # noqa: F401
from vk.core import rng_for, simple_plan, h
from vk.gen import iofrag, pddltext
from vk.gen.problem import gen_problem
from vk.mon import io_rt
from vk.ref import bisim, seqsem
from vk.ref.evalx import Unsupported

PROPERTY = "C21"
LEVEL = "exploration"
TECHNIQUE = "runtime monitoring: differential execution of the two PDDL readers on generated and shipped PDDL texts, bounded bisimulation of the two results with a reference semantics, metric comparison"
LEVEL_TEXT = (
    "Every text pair accepted by both readers yields two problems that are compared behaviourally (objects per type, initial "
    "state, applicability and successors of every ground instance on the state pairs reached within the bounds, goal status, "
    "metric values). Held on the texts generated / shipped and the executions observed; no claim beyond them."
)
LEVEL_NOTE = (
    "Trusted: CPython, fractions, read-only accessors of the model classes, vk/ref/evalx.py + seqsem.py + bisim.py, and the "
    "text printer vk/gen/pddltext.py (it only has to produce legal PDDL; neither reader is compared against it). The reference "
    "semantics only drives the product; the verdict is the disagreement of the two readers."
)
RULE = (
    "cases = PDDL texts printed by vk/gen/pddltext.py (independent of the UP writer) from vk.gen.problem recipes restricted to "
    "the requirement set of check_ai_pddl_requirements: constants section, untyped parameters, several object groups per type, "
    "nested/unary and/or, imply, comparisons in either operand order, = between objects, (when c (and ..)), (forall (when)), "
    "typed :functions, unary minus, upper-case spellings, comments, :action-costs, decimal literals without exact binary "
    "representation (0.1, 0.3, 0.35: a third of the texts, values compared exactly as Fractions), cost metrics whose declared "
    "costs are all 1 while other actions are free (30% of the cost metrics), quantifier variables named from a small pool "
    "(?v, ?x, ..) by nesting depth, and (40% of the texts) several planted quantified preconditions / effect conditions / forall "
    "effects over different types of one hierarchy (a type and sibling subtypes of it) that bind the same variable name and read "
    "one predicate whose initial extension differs between the types; plus every (domain, problem) pair under "
    "unified_planning/test/pddl. One evaluation = one judged comparison (initial state, goal status, a ground instance in a state "
    "pair, a metric value). distinct_nontrivial = distinct texts accepted by both readers that use >= 1 form the UP writer never "
    "emits and on which the product judged >= 1 applicable, state-changing instance."
)
ASSUMPTIONS = [
    "vk/ref/seqsem.py + vk/ref/bisim.py implement DESIGN 3.2 / 3.5 faithfully; accessors of the model classes do not lie",
    "texts rejected by either reader (mostly limitations of the third-party `pddl` parser) are outside the statement and only counted",
]
SHARD_TIMEOUT = {"quick": 900, "thorough": 5400}
BOUNDS = {
    "quick": dict(n=110, shards=5, depth=2, max_states=8, max_inst=10, walks=2, walk_len=6, file_dirs=("counters", "safe_road", "visit_precedence")),
    "thorough": dict(n=6000, shards=16, depth=3, max_states=40, max_inst=24, walks=3, walk_len=8),
}
PDDL_DIR = os.path.join(_env.REPO, "unified_planning", "test", "pddl")

WRITER_NEVER = {
    "constants-section",
    "untyped-parameter",
    "multi-group-object-list",
    "nested-and",
    "unary-and-or",
    "mirrored-comparison",
    "when-and",
    "typed-functions",
    "unary-minus",
    "upper-case",
    "comment",
    "problem-requirements",
    "decimal-spelling",
    "not-in-init",
    "empty-and-precondition",
}


def plan(tier, seed):
    b = BOUNDS[tier]
    return simple_plan(PROPERTY, tier, seed, b["n"], b["n"], shards_quick=b["shards"], shards_thorough=BOUNDS["thorough"]["shards"])


def run_shard(spec, res):
    for key in spec["cases"]:
        run_case(key, spec["tier"], res)
    if spec["shard"] == 0:
        run_files(spec["tier"], res)


def replay(witness, res):
    if witness.get("file"):
        run_files(witness.get("tier", "quick"), res, only=witness["file"])
    else:
        run_case(witness["case_key"], witness.get("tier", "quick"), res)


TEXT_PROFILE = dict(
    object_fluents=False,
    bounded=False,
    invariants=0.0,
    interpreted_functions=0.0,
    int_params=0.0,
    undefined_init=0.04,
    traj=0.0,
    bool_fluent_assign=False,
)


P_PLANT_QUANTIFIED = 0.4


def gen_text(rng):
    prof = dict(TEXT_PROFILE)
    y = rng.random()
    prof["metric"] = "costs" if y < 0.3 else ("length" if y < 0.36 else ("minfinal" if y < 0.44 else ("maxfinal" if y < 0.5 else None)))
    rec, feats = gen_problem(rng, prof)
    rec = iofrag.closed_world_booleans(rec)
    rec = iofrag.finite_decimals(rec)
    rec = iofrag.nonconstant_goals(rng, rec)
    if rng.random() < 0.35:
        # all numeric fluents real, constants such as 0.1, 0.3, 0.35 (finite decimal expansion, not representable in binary)
        rec = iofrag.decimalize(rng, rec, p_bounds=0.0, finite=True)
        if rng.random() < 0.7:
            rec = iofrag.plant_decimal_counter(rng, rec)
    if rng.random() < 0.5:
        rec = iofrag.plant_nested_numeric(rng, rec, minus=True)
    # negative literals are not readable by the third-party parser: initial values are made non-negative
    rec["init"] = [[fe, (["i", abs(int(v[1]))] if v[0] == "i" else (["r", str(abs(__import__("fractions").Fraction(v[1])))] if v[0] == "r" else v))] for fe, v in rec["init"]]
    for f in rec["fluents"]:
        d = f.get("default")
        if d is not None and d[0] == "i":
            f["default"] = ["i", abs(int(d[1]))]
        elif d is not None and d[0] == "r":
            f["default"] = ["r", str(abs(__import__("fractions").Fraction(d[1])))]
    planted = 0
    if rng.random() < P_PLANT_QUANTIFIED:
        # several quantified conditions / forall effects per domain over different types of one hierarchy (sibling subtypes,
        # supertype / subtype), all binding the same variable name
        rec, planted = pddltext.plant_quantified_conditions(rng, rec)
    untyped = rng.random() < 0.06
    clean = rng.random() < 0.85
    if clean:
        rec = iofrag.avoid_parser_traps(rec)
    if rng.random() < 0.85:
        # a goal with or / imply / quantifiers is never accepted by the third-party parser (outside the common fragment)
        rec = iofrag.simple_goals(rec)
    rec = iofrag.complete_action_costs(rec)
    m = rec.get("metric")
    if m and m["kind"] == "costs" and rng.random() < 0.3:
        # the border between the two cost metrics: every declared cost is the constant 1, the other actions are free
        # (plan length = every action costs 1; action costs with default 0 = only the declared ones do)
        m["costs"] = {a: ["i", 1] for a in m["costs"]}
        m["default"] = ["i", 0]
        if len(m["costs"]) == len(rec["actions"]) and len(m["costs"]) > 1 and rng.random() < 0.7:
            del m["costs"][sorted(m["costs"])[rng.randrange(len(m["costs"]))]]
    d, p, names, forms = pddltext.print_pddl(rng, rec, untyped, allow_empty_precondition=not clean)
    if m and m["kind"] == "costs" and m["costs"] and all(c == ["i", 1] for c in m["costs"].values()) and len(m["costs"]) < len(rec["actions"]):
        forms.add("unit-costs-with-free-actions")
    return rec, d, p, forms


def run_case(key, tier, res):
    b = BOUNDS[tier]
    res.count("tier:" + tier)
    rng = rng_for(key)
    try:
        rec, dom, prob, forms = gen_text(rng)
    except ValueError:
        res.count("skipped_by_printer")
        return
    compare(dom, prob, forms, {"case_key": key, "tier": tier, "recipe": rec}, b, res)


def compare(dom, prob, forms, wbase, b, res):
    def viol(mech, summary, **w):
        res.violation(mech, summary, {**wbase, "domain": dom, "problem": prob, "forms": sorted(forms), **w})

    tags = io_rt.pddl_text_tags(dom, prob)
    # one mechanism string per root cause: constructs the third-party `pddl` package mis-parses (its AST already lacks the
    # repeated operand / has Or() for the empty precondition) key the string, however the disagreement shows
    third_party = ("third-party-misparse[" + io_rt.primary_tag(tags) + "]") if tags else None
    outs = {}
    for which in ("up", "ai"):
        res.mon()
        reader, out = io_rt.read_pddl(which, dom, prob, _env.fresh_env(), False)
        res.case()
        outs[which] = out
        if out.ok:
            res.count(f"accepted:{which}")
        else:
            ex = out.exc
            if which == "ai" and not io_rt.passes_through(ex, "interop/from_pddl.py"):
                res.count("rejected:ai:third-party-parser:" + type(ex).__name__)
            elif isinstance(ex, io_rt.READER_REJECTIONS):
                res.count(f"rejected:{which}:{type(ex).__name__}")
            else:
                # an internal-class exception of one reader on a text: not a *disagreement of two results* (C21's statement
                # is about texts both accept); recorded per class so that it is visible in the evidence
                res.count(f"raised:{which}:{io_rt.exc_class(ex)}")
    if not (outs["up"].ok and outs["ai"].ok):
        res.count("not_accepted_by_both")
        return
    res.count("accepted_by_both")
    for f in forms:
        res.count("form:" + f)
    A, B = outs["up"].value, outs["ai"].value
    try:
        st, corr = bisim.bisimulate(A, B, bisim.NameMap(), depth=b["depth"], max_states=b["max_states"], max_inst=b["max_inst"], walks=b.get("walks", 0), walk_len=b.get("walk_len", 0))
    except bisim.Mismatch as m:
        res.mon()
        res.case()
        diff = m.details.get("diff") or {}
        if any(v[2] == "num" and io_rt.inexact_binary(v[1]) for v in diff.values()):
            mech = "inexact-decimal-constant"  # the AI reader turns the decimal literal 0.4 into Fraction(float)
        elif third_party and not m.mechanism.startswith("initial-state"):
            mech = third_party
        else:
            mech = m.mechanism
        viol(mech, f"UP reader vs AI reader: {m.summary}", text_tags=tags, **m.details)
        return
    except Unsupported:
        res.count("skipped_unsupported_by_oracle")
        return
    res.mon(st.judged)
    res.case(st.judged)
    for k, v in st.counters.items():
        res.count(k, v)
    res.count("bisimulated")
    try:
        n = bisim.compare_metrics(corr, st.reached, b["max_inst"])
        res.mon(n)
        res.case(n)
        if n:
            res.count("metrics_compared")
            res.count("metric_evaluations", n)
            if "unit-costs-with-free-actions" in forms:
                res.count("metrics_compared:unit-costs-with-free-actions")
    except bisim.Mismatch as m:
        res.mon()
        res.case()
        viol(third_party or m.mechanism, f"UP reader vs AI reader: {m.summary}", text_tags=tags, **m.details)
        return
    except Unsupported:
        res.count("skipped_unsupported_by_oracle")
    if st.nontrivial:
        res.count("bisimulated_with_changes")
        if st.counters.get("state-pairs-with-non-dyadic-decimal-values"):
            res.count("class:non-dyadic-decimal-values-in-states")
        if forms & WRITER_NEVER:
            res.nt(h([dom, prob]))
        for f in forms:
            res.count("judged-form:" + f)
        res.sample({"domain": dom, "problem": prob, "forms": sorted(forms), "judged": st.judged, "state_pairs": st.pairs, "verdict": "readers agree within bounds"})


def pddl_pairs():
    """(domain file, problem file) pairs of the repository's PDDL corpus, by content."""
    out = []
    for d in sorted(os.listdir(PDDL_DIR)):
        dp = os.path.join(PDDL_DIR, d)
        if not os.path.isdir(dp):
            continue
        doms, probs = [], []
        for f in sorted(glob.glob(dp + "/**/*.pddl", recursive=True)):
            with open(f, encoding="utf-8-sig") as fh:
                txt = fh.read().lower()
            (doms if "(domain " in txt.split("(:")[0] and "(problem " not in txt.split("(:")[0] else probs).append(f)
        for dom in doms:
            for pr in probs:
                out.append((dom, pr))
    return out


def run_files(tier, res, only=None):
    b = dict(BOUNDS[tier], depth=2, max_states=6 if tier == "quick" else 12, max_inst=20)
    for dom, pr in pddl_pairs():
        rel = os.path.relpath(dom, PDDL_DIR) + "+" + os.path.relpath(pr, PDDL_DIR)
        if only and rel != only:
            continue
        if not only and b.get("file_dirs") and rel.split(os.sep)[0] not in b["file_dirs"]:
            continue  # quick tier: the small pairs only (the UP reader needs 1-3 CPU-seconds for each of the larger ones)
        with open(dom, encoding="utf-8-sig") as fh:
            dt = fh.read()
        with open(pr, encoding="utf-8-sig") as fh:
            pt = fh.read()
        res.count("files_tried")
        # size cap: the product enumerates ground fluents / instances
        r, o = io_rt.read_pddl("up", dt, pt, _env.fresh_env(), False)
        if o.ok:
            try:
                if len(seqsem.ground_fluents(o.value)) > 400:
                    res.count("files_skipped_too_large")
                    continue
            except Unsupported:
                res.count("files_skipped_unsupported")
                continue
        before = res.counters.get("accepted_by_both", 0)
        compare(dt, pt, {"file"}, {"file": rel, "tier": tier}, b, res)
        if res.counters.get("accepted_by_both", 0) > before:
            res.count("files_accepted_by_both")


REQUIRED = {
    "judged-form:constants-section": 10,
    "judged-form:multi-group-object-list": 1,
    "judged-form:nested-and": 4,
    "judged-form:mirrored-comparison": 3,
    "judged-form:object-equality": 6,
    "judged-form:when-and": 4,
    "judged-form:forall-when": 2,
    "judged-form:action-costs": 3,
    "metrics_compared:unit-costs-with-free-actions": 1,  # every declared cost is 1, some action is free: action costs, not plan length
    "judged-form:unary-minus": 6,
    "judged-form:unary-and-or": 1,
    "judged-form:shared-variable-name:conditions": 6,  # one variable name bound with different types by two quantified conditions
    "judged-form:shared-variable-name:effects": 4,  # ... by a forall effect and another binder
    "class:non-dyadic-decimal-values-in-states": 4,  # texts with literals such as 0.1 / 0.35 whose values reached judged states
    "walk-steps-beyond-depth": 20,  # lock-step walk steps past the breadth-first depth (accumulated effects)
    "feature:conditional": 30,
    "feature:forall": 10,
    "metrics_compared": 10,
    "files_accepted_by_both": 2,
}
REQUIRED_THOROUGH = {k: v * 20 for k, v in REQUIRED.items() if not k.startswith("files")}
REQUIRED_THOROUGH.update({"judged-form:imply": 20, "files_accepted_by_both": 2})


def thresholds(m):
    c = m["counters"]
    thorough = bool(c.get("tier:thorough"))
    out = []
    for k, need in (REQUIRED_THOROUGH if thorough else REQUIRED).items():
        if c.get(k, 0) < need:
            out.append(f"fewer than {need} observations of class {k} ({c.get(k, 0)})")
    if len(m["nontrivial"]) < (12 if not thorough else 400):
        out.append(f"too few distinct non-trivial texts ({len(m['nontrivial'])})")
    return out

"""C20 — the protobuf round trip is lossless.

Every object (problem of any class, plan, validation result, compiler result) is written with the real ProtobufWriter,
serialised to bytes, parsed back and read with the real ProtobufReader; the deciding oracle is the library's own `==`
(and `kind ==` for problems) between the original and the re-read object — that *is* the statement.  A written message
that cannot be read back is a violation as well.  Objects the writer refuses are "rejected" (counted, not judged).

Two readings that literal `==` cannot express are handled explicitly (see LEVEL_NOTE):
* CompilerResult holds a callable; it is compared field-wise with the callable compared *extensionally* on every ground
  instance of every compiled action;
* the reader is given the environment of the original problem; because `ProtobufReader` builds objects/actions in the
  global environment, each case installs its fresh environment as the global one.  A sample of cases is additionally
  read into a *non-global* environment (own mechanism string).

Don't-care classes (counted, never judged; see the counters `dontcare:*`):
* ValidationResult.trace / .calculated_interpreted_functions: the repository's own test of this round trip
  (test_protobuf_io.py::test_validation_result) documents them as "not part of the protobuf representation";
* `metrics == {}` read back as None (proto3 maps have no presence; both mean "no engine metrics");
* a problem whose *stored* trajectory constraint is a constant (`Problem.add_trajectory_constraint` keeps
  `constraint.simplify()`, e.g. `Always(false)` -> `false`): the same public method refuses that shape, the problem cannot
  be rebuilt through the model API at all;
* an action whose effects the public add_*effect API refuses (assembled by a compiler around the checks).
Everything else the message format cannot carry (ValidationResult.reason / inapplicable_action / metric_evaluations, the
class of an empty plan) *is* observable through == and is reported, one mechanism string per root cause.
"""
import re
import traceback
from fractions import Fraction

from vk import env as _env  # noqa: F401
from vk.core import rng_for, chunk, h
from vk.gen import proto_c20 as G

PROPERTY = "C20"
LEVEL = "exploration"
TECHNIQUE = "runtime monitoring: write -> bytes -> read of generated / corpus objects judged by the library's own == and kind =="
LEVEL_TEXT = (
    "Every generated or corpus object accepted by the real ProtobufWriter is serialised, parsed and read back by the real "
    "ProtobufReader and compared with the original using the library's own equality (the statement's own notion); held on "
    "the objects observed, no claim beyond the generated grammar."
)
LEVEL_NOTE = (
    "Trusted: CPython, protobuf runtime, the model classes' __eq__ / kind (they define the property).  CompilerResult is "
    "compared field-wise (problem, engine name, metrics, log messages with None == []) with map_back_action_instance compared "
    "extensionally on all ground instances, since callables have no structural equality.  Writer exceptions mean 'not "
    "accepted' (counted per class, never judged).  Each case runs with a fresh Environment installed as the global one."
)
RULE = (
    "cases = one generated recipe per case key from 6 families (classical/numeric, temporal, HTN, scheduling, directed type "
    "grid = int|real x finite|infinite lower x finite|infinite upper, directed time grid = timepoint kind x interval form x "
    "duration form x delay form, incl. `global_end + k`, k != 0, in durative conditions / effects, TemporalOversubscription "
    "intervals and scheduling base conditions / effects; every HTN case also one cell of the directed hierarchical-plan grid "
    "= flat class x how often / where one ground action re-occurs in the decomposition) plus the bundled example problems; per case the problem, a random sequential / "
    "time-triggered plan / schedule (examples: their reference plans incl. hierarchical), synthetic and validator-produced "
    "ValidationResults and CompilerResults of real compilers are round-tripped.  evaluations = judged round trips (writer "
    "accepted). distinct_nontrivial = distinct judged objects (hash of recipe + object role) containing >= 1 half-bounded "
    "numeric type, non-integer rational constant / delay / time, or an open interval end; for directed hierarchical plans: a "
    "ground action occurring more than once."
)
ASSUMPTIONS = [
    "the library's == and kind are the intended notion of 'equal' (they are the statement)",
    "CompilerResult equality is read extensionally for its callable; None and [] log messages are identified there",
    "a writer exception means 'the writer does not accept the object'",
    "ValidationResult.trace and .calculated_interpreted_functions are outside the protobuf representation (as the repository's own round-trip test states); {} and None metrics are identified",
    "problems whose stored trajectory constraints are constants (not re-addable through Problem.add_trajectory_constraint) are degenerate inputs",
]
SHARD_TIMEOUT = {"quick": 600, "thorough": 3000}
N_CASES = {"quick": 360, "thorough": 25600}
N_SHARDS = {"quick": 5, "thorough": 14}  # (the work of the quick tier is ~10 CPU-s; every extra shard costs ~2.5 CPU-s of imports)


# ---- plan / replay -----------------------------------------------------------------------------------------
def plan(tier, seed):
    n = N_CASES[tier]
    keys = [f"{PROPERTY}:{seed}:{i}" for i in range(n)]
    specs = []
    for si, ch in enumerate(chunk(keys, N_SHARDS[tier])):
        specs.append({"shard": si, "tier": tier, "seed": seed, "cases": ch})
    # the example corpus: both tiers (it contains the only hierarchical plans); spread over 4 extra shards
    names = example_names()
    for j, ch in enumerate(chunk(names, 1 if tier == "quick" else 2)):
        specs.append({"shard": len(specs), "tier": tier, "seed": seed, "cases": [], "examples": ch})
    return specs


def example_names():
    from unified_planning.test.examples import get_example_problems

    return sorted(get_example_problems().keys())


def run_shard(spec, res):
    for key in spec["cases"]:
        run_case(key, spec["tier"], res)
    if spec.get("examples"):
        run_examples(spec["examples"], spec["tier"], res)
    if spec["shard"] == 0:
        run_synthetic_results(spec["tier"], spec["seed"], res)


def replay(witness, res):
    if witness.get("example"):
        run_examples([witness["example"]], witness.get("tier", "quick"), res)
    elif witness.get("synthetic"):
        run_synthetic_results(witness.get("tier", "quick"), witness.get("seed", 0), res)
    else:
        run_case(witness["case_key"], witness.get("tier", "quick"), res)


# ---- environment handling -----------------------------------------------------------------------------------
class as_global:
    """Install `env` as the library's global environment for the duration of one case."""

    def __init__(self, env):
        self.env = env

    def __enter__(self):
        import unified_planning.environment as upenv

        self.old = upenv.GLOBAL_ENVIRONMENT
        upenv.GLOBAL_ENVIRONMENT = self.env
        return self.env

    def __exit__(self, *a):
        import unified_planning.environment as upenv

        upenv.GLOBAL_ENVIRONMENT = self.old
        return False


# ---- mechanism strings --------------------------------------------------------------------------------------
def exc_signature(e):
    """<ExcType>:<innermost frame inside unified_planning/grpc>:<message with literals abstracted>"""
    tb = traceback.extract_tb(e.__traceback__)
    fr = [f for f in tb if "/grpc/proto_" in f.filename]
    where = fr[-1].name if fr else (tb[-1].name if tb else "?")
    msg = str(e).split("\n")[0]
    msg = re.sub(r"<class '(?:[A-Za-z_0-9]+\.)*([A-Za-z_0-9]+)'>", r"<class \1>", msg)
    msg = re.sub(r"'[^']*'", "'..'", msg)
    msg = re.sub(r"`[^`]*`", "`..`", msg)
    msg = re.sub(r"-?[0-9]+(/[0-9]+)?", "N", msg)
    msg = re.sub(r"\s+", " ", msg).strip()
    return f"{type(e).__name__}:{where}:{msg[:70]}"


def api_unreconstructible_action(pb):
    """Name of the first action of pb whose effects the public add_*effect API refuses (same exception family the reader
    hit), else None.  Uses only public constructors on scratch actions."""
    from collections import OrderedDict
    from unified_planning.model import InstantaneousAction, DurativeAction
    from unified_planning.exceptions import UPTypeError, UPConflictingEffectsException

    env = pb.environment
    for a in pb.actions:
        params = OrderedDict((p.name, p.type) for p in a.parameters)
        try:
            if isinstance(a, InstantaneousAction):
                b = InstantaneousAction(a.name, params, env)
                for e in a.effects:
                    f = {"assign": b.add_effect, "inc": b.add_increase_effect, "dec": b.add_decrease_effect}[
                        "assign" if e.is_assignment() else "inc" if e.is_increase() else "dec"
                    ]
                    f(e.fluent, e.value, e.condition, e.forall)
            elif isinstance(a, DurativeAction):
                b = DurativeAction(a.name, params, env)
                for t, effs in a.effects.items():
                    for e in effs:
                        f = {"assign": b.add_effect, "inc": b.add_increase_effect, "dec": b.add_decrease_effect}[
                            "assign" if e.is_assignment() else "inc" if e.is_increase() else "dec"
                        ]
                        f(t, e.fluent, e.value, e.condition, e.forall)
        except (UPTypeError, UPConflictingEffectsException):
            return a.name
    return None


def stored_trajectory_constraint_not_in_api_form(pb):
    """Printed form of the first stored trajectory constraint that `Problem.add_trajectory_constraint` itself would refuse
    (read-only accessors only), else None."""

    def is_tc(x):
        return x.is_sometime() or x.is_sometime_after() or x.is_sometime_before() or x.is_at_most_once() or x.is_always()

    try:
        for tc in pb.trajectory_constraints:
            ok = all(is_tc(a) for a in tc.args) if (tc.is_and() or tc.is_forall()) else is_tc(tc)
            if not ok:
                return "constant" if tc.is_constant() else "other-shape"
    except Exception:
        return None
    return None


def _safe_eq(a, b):
    try:
        return bool(a == b)
    except Exception:
        return False


def locate_problem_diff(p, q):
    """Name of the first component on which the two problems differ (library == on the components) — for the mechanism
    string only; the verdict is the top-level ==."""
    from unified_planning.model.scheduling import SchedulingProblem
    from unified_planning.model.htn import HierarchicalProblem

    if type(p) is not type(q):
        return "class"
    if p.name != q.name:
        return "name"
    comps = [
        ("user_types", lambda x: set(x.user_types)),
        ("fluents", lambda x: list(x.fluents)),
        ("fluents_defaults", lambda x: dict(x.fluents_defaults)),
        ("objects", lambda x: set(x.all_objects)),
        ("initial_values", lambda x: dict(x.initial_values)),  # (the library compares the *total* initial state)
        ("quality_metrics", lambda x: list(x.quality_metrics)),
        ("epsilon", lambda x: x.epsilon),
        ("discrete_time", lambda x: x.discrete_time),
        ("self_overlapping", lambda x: x.self_overlapping),
    ]
    if isinstance(p, SchedulingProblem):
        comps += [
            ("base_variables", lambda x: list(x.base_variables)),
            ("base_conditions", lambda x: list(x.base_conditions)),
            ("base_effects", lambda x: list(x.base_effects)),
            ("base_scoped_constraints", lambda x: list(x.base_scoped_constraints)),
            ("activities", lambda x: list(x.activities)),
        ]
    else:
        comps += [
            ("actions", lambda x: list(x.actions)),
            ("goals", lambda x: list(x.goals)),
            ("timed_goals", lambda x: dict(x.timed_goals)),
            ("timed_effects", lambda x: dict(x.timed_effects)),
            ("trajectory_constraints", lambda x: list(x.trajectory_constraints)),
        ]
    if isinstance(p, HierarchicalProblem):
        comps += [
            ("tasks", lambda x: list(x.tasks)),
            ("methods", lambda x: list(x.methods)),
            ("task_network", lambda x: x.task_network),
        ]
    for name, get in comps:
        try:
            a, b = get(p), get(q)
        except Exception:
            continue
        if not _safe_eq(a, b):
            if name in ("actions", "activities", "methods", "fluents") and len(a) == len(b):
                for x, y in zip(a, b):
                    if not _safe_eq(x, y):
                        return f"{name}:{locate_item_diff(x, y)}"
            # same members in another order?
            try:
                if isinstance(a, list) and len(a) == len(b) and all(any(_safe_eq(x, y) for y in b) for x in a):
                    return f"{name}:order"
            except Exception:
                pass
            return name
    return "unlocated"


def locate_item_diff(x, y):
    for attr in ("name", "type", "signature", "parameters", "duration", "conditions", "preconditions", "effects", "optional", "achieved_task", "subtasks", "constraints", "scoped_constraints"):
        if hasattr(x, attr) and hasattr(y, attr):
            try:
                if not _safe_eq(getattr(x, attr), getattr(y, attr)):
                    if attr == "effects" and _only_unused_forall_variables_differ(getattr(x, attr), getattr(y, attr)):
                        return "effects:unused-forall-variable-dropped"
                    return attr
            except Exception:
                continue
    return "other"


def _only_unused_forall_variables_differ(ex, ey):
    """True iff the two effect lists (or timing->effect-list dicts) differ only in effects whose written form carries forall
    variables that do not occur in fluent/value/condition (an Effect state only the setters can produce; the constructor,
    which the reader uses, drops such variables)."""
    if isinstance(ex, dict) and isinstance(ey, dict):
        if set(ex) != set(ey):
            return False
        return all(_safe_eq(ex[k], ey[k]) or _only_unused_forall_variables_differ(ex[k], ey[k]) for k in ex) and any(not _safe_eq(ex[k], ey[k]) for k in ex)
    ex, ey = list(ex), list(ey)
    if len(ex) != len(ey):
        return False
    found = False
    for a, b in zip(ex, ey):
        if _safe_eq(a, b):
            continue
        if not (a.fluent == b.fluent and a.value == b.value and a.condition == b.condition and a.kind == b.kind):
            return False
        fvo = a.fluent.environment.free_vars_oracle
        free = set(fvo.get_free_variables(a.fluent)) | set(fvo.get_free_variables(a.value)) | set(fvo.get_free_variables(a.condition))
        if set(b.forall) != {v for v in a.forall if v in free}:
            return False
        found = True
    return found


# ---- non-triviality (measured on the recipe / object) ---------------------------------------------------------
def recipe_nontrivial(o):
    """True iff the JSON recipe contains a half-bounded numeric type, a non-integer rational or an open interval end."""
    if isinstance(o, dict):
        return any(recipe_nontrivial(v) for v in o.values())
    if isinstance(o, list):
        if len(o) == 3 and o[0] in ("int", "real") and (o[1] is None) != (o[2] is None):
            return True
        if len(o) == 2 and o[0] == "r" and isinstance(o[1], str) and Fraction(o[1]).denominator != 1:
            return True
        if o and o[0] in ("open", "lopen", "ropen") and len(o) == 3:
            return True
        if len(o) >= 2 and o[0] in ("start", "end", "gstart", "gend") and isinstance(o[1], str):
            try:
                if Fraction(o[1]).denominator != 1:
                    return True
            except ValueError:
                pass
        return any(recipe_nontrivial(v) for v in o)
    return False


def problem_nontrivial(pb):
    """Same notion measured on a corpus problem (no recipe): scan types of fluents/parameters and the printed form."""
    try:
        for f in pb.fluents:
            t = f.type
            if (t.is_int_type() or t.is_real_type()) and ((t.lower_bound is None) != (t.upper_bound is None)):
                return True
        s = str(pb)
        return bool(re.search(r"[0-9]/[0-9]", s)) or "(start" in s or "end)" in s
    except Exception:
        return False


# ---- the round trip -----------------------------------------------------------------------------------------
class RT:
    def __init__(self, res, wbase, feats=()):
        self.res = res
        self.wbase = wbase
        self.feats = list(feats)

    def viol(self, mech, summary, **w):
        self.res.violation(mech, summary, {**self.wbase, **w})

    def write(self, role, obj, *wargs):
        """-> parsed message or None (writer did not accept)."""
        from unified_planning.grpc.proto_writer import ProtobufWriter
        from unified_planning.exceptions import UPException

        res = self.res
        try:
            msg = ProtobufWriter().convert(obj, *wargs)
            data = msg.SerializeToString()
        except (UPException, ValueError) as e:
            res.count("writer_rejected")
            res.count(f"writer_rejected:{role}:{exc_signature(e)}")
            return None
        except _env.INTERNAL_EXC as e:
            # outside the statement ("that the protobuf writer accepts") — recorded, not judged
            res.count("writer_rejected")
            res.count(f"writer_internal_exception:{role}:{exc_signature(e)}")
            return None
        m2 = type(msg)()
        m2.ParseFromString(data)
        return m2

    def read(self, role, msg, *rargs, original_problem=None):
        """-> (ok, object).  A message the writer produced must be readable."""
        from unified_planning.grpc.proto_reader import ProtobufReader
        from unified_planning.exceptions import UPTypeError, UPConflictingEffectsException

        try:
            first = ProtobufReader().convert(msg, *rargs)
            # reading is a query: the same message converted a second time (every third read) must give an equal object
            self._reads = getattr(self, "_reads", 0) + 1
            if self._reads % 3 == 1:
                self.res.count("second_reads_of_one_message")
                try:
                    second = ProtobufReader().convert(msg, *rargs)
                except Exception as e2:  # noqa
                    self.viol(
                        f"second-read-of-one-message-raises:{exc_signature(e2)}",
                        f"{role}: the first conversion of the message succeeded, a second conversion of the SAME message raised {type(e2).__name__}: {str(e2)[:200]} (the reader changed its input)",
                        role=role,
                    )
                    return True, first
                from unified_planning.model import AbstractProblem
                from unified_planning.plans import Plan

                # equality is only meaningful for objects with a structural ==; results (they carry closures) are compared
                # component-wise by the callers
                same = _safe_eq(first, second) if isinstance(first, (AbstractProblem, Plan)) and _safe_eq(first, first) else True
                if not same:
                    self.viol("second-read-of-one-message-differs", f"{role}: two conversions of the same message give different objects", role=role)
            return True, first
        except Exception as e:  # noqa: any exception: the written message cannot be read back
            if isinstance(e, (UPTypeError, UPConflictingEffectsException)) and original_problem is not None:
                # The reader can only rebuild actions through the public, checking Action API.  If the *original*
                # action cannot be rebuilt through that API either (compilers assemble actions around the checks), no
                # reader could succeed: don't-care, confirmed by an independent reconstruction probe.
                bad = api_unreconstructible_action(original_problem)
                if bad is not None:
                    self.res.count(f"dontcare:original-action-not-constructible-through-public-api:{type(e).__name__}")
                    return False, None
            if isinstance(e, AssertionError) and "trajectory constraint" in str(e) and original_problem is not None:
                # Problem.add_trajectory_constraint stores `constraint.simplify()`: `Always(false)`, `Sometime(o == o)`, ... are
                # kept as the *constants* false / true, a shape the same public method refuses.  Such a problem is degenerate
                # (it cannot be rebuilt through the model API by anybody); the statement does not force it: don't-care,
                # confirmed by an independent shape probe of the stored constraints.
                bad = stored_trajectory_constraint_not_in_api_form(original_problem)
                if bad is not None:
                    self.res.count("dontcare:stored-trajectory-constraint-not-in-api-form")
                    self.res.count("dontcare:stored-trajectory-constraint-not-in-api-form:" + bad)
                    return False, None
            self.judged(role, False, None)  # a judgement (with verdict "violated"): the feature classes were exercised
            self.viol(
                f"read-raises:{exc_signature(e)}",
                f"{role}: message written by ProtobufWriter cannot be read back: {type(e).__name__}: {str(e)[:200]}",
                role=role,
                expected="an object equal to the original",
                observed=f"{type(e).__name__}: {str(e)[:300]}",
                traceback=traceback.format_exc()[-1200:],
            )
            return False, None

    def judged(self, role, nontrivial, ntkey):
        res = self.res
        res.case()
        res.mon()
        res.count(f"judged:{role}")
        for f in self.feats:
            res.count("feature:" + f)
        if nontrivial:
            res.nt((ntkey, role))

    # -- problems --
    def problem(self, pb, env, role="problem", nontrivial=False, ntkey=None):
        msg = self.write(role, pb)
        if msg is None:
            return None
        ok, pb2 = self.read(role, msg, env, original_problem=pb)
        if not ok:
            return None
        self.judged(role, nontrivial, ntkey)
        self.res.count("judged_class:" + type(pb).__name__)
        eq = _safe_eq(pb, pb2)
        if not eq:
            comp = locate_problem_diff(pb, pb2)
            self.viol(
                f"not-equal:{type(pb).__name__}:{comp}",
                f"{role}: re-read problem != original (first differing component: {comp})",
                role=role,
                component=comp,
                expected=str(pb)[:1500],
                observed=str(pb2)[:1500],
            )
            return pb2
        try:
            k1, k2 = pb.kind, pb2.kind
        except Exception as e:  # kind computation is another property's business
            self.res.count("kind_raises:" + type(e).__name__)
            return pb2
        if k1 != k2:
            d = sorted(set(k1.features) ^ set(k2.features))
            self.viol(
                "kind-differs:" + ",".join(d),
                f"{role}: re-read problem is == but its kind differs on {d}",
                role=role,
                expected=sorted(k1.features),
                observed=sorted(k2.features),
            )
        return pb2

    # -- plans --
    def plan(self, plan, pb, role, nontrivial=False, ntkey=None):
        msg = self.write(role, plan)
        if msg is None:
            return
        ok, plan2 = self.read(role, msg, pb)
        if not ok:
            return
        self.judged(role, nontrivial, ntkey)
        self.res.count("judged_class:" + type(plan).__name__)
        if not _safe_eq(plan, plan2):
            self.viol(
                f"not-equal:{type(plan).__name__}" + ("" if type(plan) is type(plan2) else f":read-as-{type(plan2).__name__}") + (":empty-plan" if _plan_len(plan) == 0 else ""),
                f"{role}: re-read plan != original",
                role=role,
                expected=str(plan)[:800],
                observed=str(plan2)[:800],
            )

    # -- validation results --
    def validation_result(self, vr, role, ntkey=None):
        msg = self.write(role, vr)
        if msg is None:
            return
        ok, vr2 = self.read(role, msg)
        if not ok:
            return
        self.judged(role, False, ntkey)
        self.res.count("judged_class:ValidationResult")
        if not _safe_eq(vr, vr2):
            import dataclasses

            diff = []
            for f in dataclasses.fields(vr):
                if not _safe_eq(getattr(vr, f.name), getattr(vr2, f.name)):
                    diff.append(f.name)
            # (a) documented as outside the protobuf representation (test_protobuf_io.py::test_validation_result compares
            #     modulo exactly these two): don't-care
            for n in ("trace", "calculated_interpreted_functions"):
                if n in diff:
                    diff.remove(n)
                    self.res.count(f"dontcare:validation-result:{n}-documented-as-not-represented")
            # (b) absent vs empty container: proto3 maps / repeated fields have no presence, `{}` and None both denote
            #     "no engine metrics" and carry no information: don't-care
            if "metrics" in diff and vr.metrics == {} and vr2.metrics is None:
                diff.remove("metrics")
                self.res.count("dontcare:validation-result:metrics-empty-vs-absent")
            if "log_messages" in diff and not vr.log_messages and not vr2.log_messages:
                diff.remove("log_messages")  # (cannot occur today: the writer raises TypeError on log_messages=None)
                self.res.count("dontcare:validation-result:log_messages-empty-vs-absent")
            if not diff:
                return
            wrong = sorted(set(diff) & VR_CARRIED)
            lacking = sorted(set(diff) - VR_CARRIED)
            for n in lacking:
                self.res.count("validation-result-field-lost:" + n)
            if wrong:
                det = ",".join(f"{n}:{_abbr(getattr(vr, n))}->{_abbr(getattr(vr2, n))}" for n in wrong)
                mech = "not-equal:ValidationResult:" + det
            else:
                # one root cause: message ValidationResult has no field for them, the writer drops them silently
                mech = "not-equal:ValidationResult:schema-lacks-reason/inapplicable_action/metric_evaluations"
            self.viol(
                mech,
                f"{role}: re-read ValidationResult != original (differing fields: {diff})",
                role=role,
                differing_fields=diff,
                fields_without_schema_counterpart=lacking,
                expected=repr(dataclasses.replace(vr, trace=None, calculated_interpreted_functions=None))[:600],
                observed=repr(vr2)[:600],
            )

    # -- compiler results --
    def compiler_result(self, cr, lifted, role, ntkey=None):
        from unified_planning.plans import ActionInstance

        msg = self.write(role, cr)
        if msg is None:
            return
        ok, cr2 = self.read(role, msg, lifted, original_problem=cr.problem)
        if not ok:
            return
        self.judged(role, False, ntkey)
        self.res.count("judged_class:CompilerResult")
        if _safe_eq(cr, cr2):
            self.res.count("compiler_result_dataclass_eq_true")
        else:
            self.res.count("compiler_result_dataclass_eq_false(callable)")
        if not _safe_eq(cr.problem, cr2.problem):
            comp = locate_problem_diff(cr.problem, cr2.problem)
            self.viol(f"not-equal:CompilerResult:problem:{comp}", f"{role}: compiled problem differs after round trip ({comp})", role=role, expected=str(cr.problem)[:1000], observed=str(cr2.problem)[:1000])
            return
        for fld in ("engine_name", "metrics"):
            if getattr(cr, fld) != getattr(cr2, fld):
                self.viol(f"not-equal:CompilerResult:{fld}:{_abbr(getattr(cr, fld))}->{_abbr(getattr(cr2, fld))}", f"{role}: {fld} differs", role=role, expected=repr(getattr(cr, fld)), observed=repr(getattr(cr2, fld)))
                return
        if (cr.log_messages or []) != (cr2.log_messages or []):
            self.viol("not-equal:CompilerResult:log_messages", f"{role}: log messages differ", role=role, expected=repr(cr.log_messages), observed=repr(cr2.log_messages))
            return
        if cr.log_messages is None and cr2.log_messages == []:
            self.res.count("observation:compiler_result_log_messages_None_read_as_empty_list")
        # extensional comparison of map_back_action_instance
        n = 0
        for a in cr.problem.actions:
            for args in _all_args(cr.problem, a):
                ai = ActionInstance(a, args)
                try:
                    exp = cr.map_back_action_instance(ai)
                except Exception:
                    self.res.count("map_back_original_raises")
                    continue
                try:
                    a2 = cr2.problem.action(a.name)
                    got = cr2.map_back_action_instance(ActionInstance(a2, args))
                except Exception as e:
                    self.viol(f"not-equal:CompilerResult:map_back-raises:{type(e).__name__}", f"{role}: re-read map_back_action_instance raises {e!r} on {ai}", role=role, instance=str(ai))
                    return
                same = (exp is None and got is None) or (exp is not None and got is not None and exp.action == got.action and tuple(exp.actual_parameters) == tuple(got.actual_parameters))
                n += 1
                if not same:
                    self.viol("not-equal:CompilerResult:map_back", f"{role}: map_back_action_instance({ai}) = {got} after round trip, {exp} before", role=role, instance=str(ai), expected=str(exp), observed=str(got))
                    return
        self.res.count("map_back_instances_compared", n)


VR_CARRIED = {"status", "engine_name", "log_messages", "metrics"}  # the fields message ValidationResult has


def _plan_len(p):
    for attr in ("actions", "timed_actions"):
        try:
            v = getattr(p, attr)
            return len(v() if callable(v) else v)
        except Exception:
            continue
    return -1


def _abbr(v):
    if v is None:
        return "None"
    if v == []:
        return "[]"
    if v == {}:
        return "{}"
    return type(v).__name__


def _all_args(pb, a, cap=64):
    import itertools
    from unified_planning.model.types import domain_size, domain_item

    doms = []
    for p in a.parameters:
        try:
            n = domain_size(pb, p.type)
        except Exception:
            return []
        doms.append([domain_item(pb, p.type, j) for j in range(min(n, 8))])
    return list(itertools.islice(itertools.product(*doms), cap))


# ---- cases --------------------------------------------------------------------------------------------------
def run_case(key, tier, res):
    from unified_planning.exceptions import UPException

    i = int(key.split(":")[2])
    fam = G.FAMILIES[i % len(G.FAMILIES)]
    rng = rng_for(key)
    rec, feats = G.gen_recipe(rng, fam, i // len(G.FAMILIES))
    wbase = {"case_key": key, "tier": tier, "family": fam, "recipe": rec}
    rt = RT(res, wbase, feats)
    e = _env.fresh_env()
    nontriv = recipe_nontrivial(rec)
    pid = h(rec)
    if fam == "htn":  # (independent of the generated recipe: own tiny problem, own environment)
        directed_hierarchical_plan(res, key, tier, i // len(G.FAMILIES))
    with as_global(e):
        try:
            pb = G.build_problem(rec, e)
        except UPException as ex:
            res.count("rejected_at_build")
            res.count("rejected_at_build:" + fam)
            return
        res.count("built:" + fam)
        pb2 = rt.problem(pb, e, role=f"problem:{fam}", nontrivial=nontriv, ntkey=pid)
        res.sample({"family": fam, "features": feats, "problem": str(pb)[:400], "verdict": "equal" if pb2 is not None and _safe_eq(pb, pb2) else "see violations"})
        rt.feats = []
        prng = rng_for(key, "plan")
        try:
            if fam == "sched":
                p = G.gen_schedule(pb, prng)
                rt.plan(p, pb, "plan:schedule", True, (pid, "sched"))
            else:
                p, pfe = G.gen_plan(pb, prng)
                for f in pfe:
                    res.count("feature:" + f)
                rt.plan(p, pb, "plan:" + ("time-triggered" if "plan:time-triggered" in pfe else "sequential"), bool(pfe & {"plan:rational-start", "plan:rational-duration"}), (pid, "plan"))
        except UPException:
            res.count("plan_generation_rejected")
            p = None
        if fam in ("classical", "typegrid", "temporal", "timegrid") and p is not None:
            real_validation_result(rt, pb, p, e, pid)
        if fam in ("classical", "typegrid") and i % 2 == 0:
            real_compiler_results(rt, pb, e, pid, rng_for(key, "compilers"))
    # a sample of cases: the same recipe in an environment that is NOT the global one -- only when the round trip in the
    # global environment could be read (every other failure already has its own mechanism there).
    # (HTN / scheduling model classes themselves create parts in the global environment: not probed)
    if i % 3 == 0 and fam in ("classical", "temporal", "typegrid", "timegrid"):
        if pb2 is None:
            res.count("nonglobal_env_probe_skipped(global read failed)")
            return
        nonglobal_probe(res, wbase, rec, key)


def directed_hierarchical_plan(res, key, tier, idx):
    """Every HTN case additionally round-trips one cell of the directed hierarchical-plan grid (G.hgrid_recipe): a tiny HTN
    problem, a full decomposition of its initial task network and a sequential / time-triggered flat plan in which one
    ground action occurs once, twice or three times (adjacent, under different method instances, at different depths).
    The oracle is the same as for every plan: the re-read HierarchicalPlan == the original (library ==)."""
    rng = rng_for(key, "hgrid")
    rec, feats = G.hgrid_recipe(rng, idx)
    e = _env.fresh_env()
    with as_global(e):
        pb, hp, measured = G.build_hgrid(rec, e)
        res.count("built:hgrid")
        rt = RT(res, {"case_key": key, "tier": tier, "family": "hgrid", "recipe": rec}, [])
        pid = h(rec)
        rt.problem(pb, e, role="problem:hgrid", nontrivial=False, ntkey=pid)
        rt.feats = sorted(set(feats) | set(measured))
        rt.plan(hp, pb, "plan:hierarchical:directed", "hplan:repeated-ground-action" in measured, (pid, "hplan"))


def nonglobal_probe(res, wbase, rec, key):
    """The reader takes an `environment` argument; a problem (and its plan) living in a fresh, non-global Environment must
    come back into that environment.  One root cause is expected (objects / actions / metrics built without the
    environment): mechanism `non-global-environment:read-raises:AssertionError`."""
    from unified_planning.exceptions import UPException
    from unified_planning.grpc.proto_reader import ProtobufReader

    e2 = _env.fresh_env()
    try:
        pb = G.build_problem(rec, e2)
    except UPException:
        return
    res.count("nonglobal_env_probes")
    rt2 = RT(res, dict(wbase, nonglobal_environment=True), [])
    msg = rt2.write("problem-in-non-global-environment", pb)
    if msg is None:
        return
    res.case()
    res.mon()
    try:
        pb2 = ProtobufReader().convert(msg, e2)
    except Exception as ex:
        tb = traceback.extract_tb(ex.__traceback__)
        fr = [f for f in tb if "/grpc/proto_" in f.filename]
        rt2.viol(
            "non-global-environment:read-raises:" + type(ex).__name__,
            f"a problem living in a non-global Environment cannot be read back into that environment: {type(ex).__name__}: {str(ex)[:160]} (at {fr[-1].name if fr else '?'})",
            observed=f"{type(ex).__name__}: {str(ex)[:300]}",
            site=fr[-1].name if fr else "?",
            traceback=traceback.format_exc()[-1000:],
        )
        return
    if not _safe_eq(pb, pb2):
        rt2.viol("non-global-environment:not-equal", "problem read into its own (non-global) environment differs", expected=str(pb)[:800], observed=str(pb2)[:800])
        return
    if pb2.environment is not e2:
        rt2.viol("non-global-environment:wrong-environment", "re-read problem does not live in the environment given to the reader")
        return
    # the plan of the case, against the non-global problem
    try:
        p, _ = G.gen_plan(pb, rng_for(key, "plan"))
    except UPException:
        return
    if _plan_len(p) <= 0:
        return
    pmsg = rt2.write("plan-in-non-global-environment", p)
    if pmsg is None:
        return
    res.case()
    res.mon()
    res.count("nonglobal_env_plan_probes")
    try:
        p2 = ProtobufReader().convert(pmsg, pb)
    except Exception as ex:
        rt2.viol(
            "non-global-environment:plan-read-raises:" + type(ex).__name__,
            f"a plan for a problem living in a non-global Environment cannot be read back: {type(ex).__name__}: {str(ex)[:160]}",
            observed=f"{type(ex).__name__}: {str(ex)[:300]}",
            traceback=traceback.format_exc()[-1000:],
        )
        return
    if not _safe_eq(p, p2):
        rt2.viol("non-global-environment:plan-not-equal", "plan read against its non-global problem differs", expected=str(p)[:600], observed=str(p2)[:600])


def real_validation_result(rt, pb, plan, e, pid):
    from unified_planning.engines.plan_validator import SequentialPlanValidator, TimeTriggeredPlanValidator
    from unified_planning.plans import SequentialPlan

    try:
        if isinstance(plan, SequentialPlan):
            v = SequentialPlanValidator(environment=e)
        else:
            v = TimeTriggeredPlanValidator(environment=e)
        if not v.supports(pb.kind):
            rt.res.count("validator_unsupported_kind")
            return
        vr = v.validate(pb, plan)
    except Exception as ex:  # the validators are other properties' subject
        rt.res.count("validator_raises:" + type(ex).__name__)
        return
    rt.res.count("validator_status:" + vr.status.name)
    rt.validation_result(vr, "validation-result:from-validator", (pid, "vr"))


def real_compiler_results(rt, pb, e, pid, rng):
    from unified_planning.engines import CompilationKind
    from unified_planning.engines.compilers import (
        Grounder,
        ConditionalEffectsRemover,
        DisjunctiveConditionsRemover,
        NegativeConditionsRemover,
        QuantifiersRemover,
    )

    table = [
        ("grounder", Grounder, CompilationKind.GROUNDING),
        ("cerm", ConditionalEffectsRemover, CompilationKind.CONDITIONAL_EFFECTS_REMOVING),
        ("dcrm", DisjunctiveConditionsRemover, CompilationKind.DISJUNCTIVE_CONDITIONS_REMOVING),
        ("ncrm", NegativeConditionsRemover, CompilationKind.NEGATIVE_CONDITIONS_REMOVING),
        ("qrm", QuantifiersRemover, CompilationKind.QUANTIFIERS_REMOVING),
    ]
    picks = [table[0], rng.choice(table[1:])]
    if _ground_size(pb) > 150:  # grounding enumerates parameter domains (a 2**40-wide int parameter never ends)
        rt.res.count("compilers_skipped_large_grounding")
        return
    for name, cls, ck in picks:
        try:
            c = cls()
            if not c.supports(pb.kind):
                rt.res.count("compiler_unsupported_kind:" + name)
                continue
            cr = c.compile(pb, ck)
        except Exception as ex:  # compilers are other properties' subject
            rt.res.count(f"compiler_raises:{name}:{type(ex).__name__}")
            continue
        if len(cr.problem.actions) > 60:
            rt.res.count("compiler_result_too_large")
            continue
        lifted = any(a.parameters for a in cr.problem.actions)
        rt.compiler_result(cr, pb, f"compiler-result:{name}:" + ("lifted" if lifted else "ground"), (pid, name))


def _ground_size(pb):
    tot = 0
    try:
        for a in pb.actions:
            ng = 1
            for prm in a.parameters:
                t = prm.type
                if t.is_user_type():
                    ng *= len(list(pb.objects(t)))
                elif t.is_int_type() and t.lower_bound is not None and t.upper_bound is not None:
                    ng *= t.upper_bound - t.lower_bound + 1
                elif t.is_bool_type():
                    ng *= 2
                else:
                    return 10**9
            tot += ng
    except Exception:
        return 10**9
    return tot


# ---- corpus ---------------------------------------------------------------------------------------------------
def run_examples(names, tier, res):
    from unified_planning.test.examples import get_example_problems
    from unified_planning.environment import get_environment
    from unified_planning.model import Problem
    from unified_planning.model.multi_agent import MultiAgentProblem

    exs = get_example_problems()
    env = get_environment()  # the examples live in the global environment
    for name in names:
        ex = exs[name]
        pb = ex.problem
        wbase = {"example": name, "tier": tier, "case_key": "example:" + name}
        rt = RT(res, wbase, [])
        if isinstance(pb, MultiAgentProblem):
            res.count("examples_multi_agent(no converter)")
            continue
        res.count("examples")
        pb2 = rt.problem(pb, env, role="problem:example", nontrivial=problem_nontrivial(pb), ntkey="ex:" + name)
        for j, p in enumerate(list(ex.valid_plans or [])[:2] + list(getattr(ex, "invalid_plans", None) or [])[:1]):
            role = "plan:example:" + type(p).__name__
            rt.plan(p, pb, role, True, ("ex", name, j))
        if tier == "thorough" and type(pb) is Problem and ex.valid_plans:
            real_validation_result(rt, pb, ex.valid_plans[0], env, "ex:" + name)
        if type(pb) is Problem and not pb.kind.has_continuous_time() and len(pb.actions) <= 12:
            real_compiler_results(rt, pb, env, "ex:" + name, rng_for("C20", "ex", name))


def run_synthetic_results(tier, seed, res):
    """Directly constructed ValidationResults over every status x log-message shape x metrics shape."""
    from unified_planning.engines import ValidationResult, ValidationResultStatus, LogMessage, LogLevel

    wbase = {"synthetic": True, "tier": tier, "seed": seed, "case_key": "synthetic"}
    rt = RT(res, wbase, [])
    logs_shapes = [
        [],
        [LogMessage(LogLevel.INFO, "x")],
        [LogMessage(l, m) for l, m in zip(LogLevel, ["", "a b", "ünïcode ✓", "multi\nline"])],
    ]
    metrics_shapes = [None, {"time": "0.5"}, {"a": "1", "b": ""}]
    for st in ValidationResultStatus:
        for logs in logs_shapes:
            for ms in metrics_shapes:
                for name in ("v", ""):
                    vr = ValidationResult(st, name, list(logs), None, None, None, ms)
                    res.count("synthetic_validation_results")
                    rt.validation_result(vr, "validation-result:synthetic", ("syn", st.name, len(logs), str(ms), name))
    # shapes the statement does not cover unless the writer accepts them: log_messages=None, metrics={}
    for vr in (ValidationResult(ValidationResultStatus.VALID, "v", None), ValidationResult(ValidationResultStatus.VALID, "v", [], metrics={})):
        rt.validation_result(vr, "validation-result:synthetic-defaults", ("syn-default", repr(vr.log_messages), repr(vr.metrics)))


# ---- coverage -------------------------------------------------------------------------------------------------
REQUIRED = {
    "judged:problem:classical": 15,
    "judged:problem:temporal": 15,
    "judged:problem:htn": 10,
    "judged:problem:sched": 10,
    "judged:problem:typegrid": 15,
    "judged:problem:timegrid": 15,
    "judged:problem:example": 60,
    "judged_class:HierarchicalProblem": 10,
    "judged_class:SchedulingProblem": 10,
    "judged_class:SequentialPlan": 20,
    "judged_class:TimeTriggeredPlan": 15,
    "judged_class:HierarchicalPlan": 22,
    "judged_class:Schedule": 8,
    "judged_class:ValidationResult": 30,
    "judged_class:CompilerResult": 10,
    "feature:int:fin,fin": 3,
    "feature:int:-inf,fin": 3,
    "feature:int:fin,inf": 3,
    "feature:int:-inf,inf": 3,
    "feature:real:fin,fin": 3,
    "feature:real:-inf,fin": 3,
    "feature:real:fin,inf": 3,
    "feature:real:-inf,inf": 3,
    "feature:timepoint:start": 3,
    "feature:timepoint:end": 3,
    "feature:timepoint:gstart": 3,
    "feature:timepoint:gend": 3,
    "feature:interval:point": 3,
    "feature:interval:closed": 3,
    "feature:interval:open": 3,
    "feature:interval:lopen": 3,
    "feature:interval:ropen": 3,
    "feature:duration:fixed": 3,
    "feature:duration:closed": 3,
    "feature:duration:open": 3,
    "feature:duration:lopen": 3,
    "feature:duration:ropen": 3,
    "feature:delay:rational": 3,
    "feature:delay:int": 3,
    "feature:timed-effects": 3,
    "feature:timed-goals": 3,
    "feature:plan:rational-start": 3,
    "feature:plan:rational-duration": 3,
    # timings `global_end + k`, k != 0, in every place that is encoded as a proto.Timing and where the model accepts them
    "feature:gend-delay:action-condition": 2,
    "feature:gend-delay:action-effect": 2,
    "feature:gend-delay:tmetric": 3,
    "feature:gend-delay:sched-base-condition": 2,
    "feature:gend-delay:sched-base-effect": 2,
    "feature:gend-delay:negative": 3,
    # hierarchical plans: both flat classes, a ground action executed more than once (ids are per occurrence)
    "judged:plan:hierarchical:directed": 20,
    "feature:hplan:flat-sequential": 8,
    "feature:hplan:flat-time-triggered": 8,
    "feature:hplan:max-occurrences-of-one-ground-action:1": 3,
    "feature:hplan:repeated-ground-action:sequential": 5,
    "feature:hplan:repeated-ground-action:time-triggered": 5,
    "feature:hplan:max-occurrences-of-one-ground-action:3+": 2,
    "feature:hplan:method-depth:2": 5,
}


def thresholds(m):
    c = m["counters"]
    out = []
    for k, n in REQUIRED.items():
        if c.get(k, 0) < n:
            out.append(f"class {k}: {c.get(k, 0)} judged observations < {n}")
    if len(m["nontrivial"]) < 60:
        out.append(f"fewer than 60 distinct non-trivial objects ({len(m['nontrivial'])})")
    built = sum(v for k, v in c.items() if k.startswith("built:"))
    if c.get("rejected_at_build", 0) > built:
        out.append("more than half of the generated recipes were rejected at build")
    if c.get("writer_rejected", 0) > m["evaluations"]:
        out.append("the writer rejected more objects than were judged")
    return out

"""C29 - durative-actions-to-processes plan conversions are mutually inverse.

Directed experiment: generated durative problems inside DurativeActionToProcesses.supported_kind() are compiled by the
real compiler; random time-triggered plans over their ground actions (durations = reference value of the duration
expression for fixed durations, a point of the interval otherwise) go through the real plan_forward_conversion and
plan_back_conversion.  Oracle: back(forward(tau)) == tau as a multiset of (start, action, parameters, duration), and in
forward(tau) every compiled end event lies in (start, start+duration] of a distinct original instance."""
from collections import Counter
from fractions import Fraction

from vk import env as _env  # noqa: F401
from vk.core import rng_for, simple_plan, h
from vk.gen.durative_cm import gen_durative_problem, gen_tt_plan
from vk.recipe import instantiate_problem
from vk.ref import seqsem
from vk.ref.evalx import Interp, Unsupported, UNDEF, const_value, ev

PROPERTY = "C29"
LEVEL = "exploration"
TECHNIQUE = "runtime monitoring: round trip of real plan_forward_conversion / plan_back_conversion judged by multiset equality and end-event placement"
LEVEL_TEXT = (
    "Every generated time-triggered plan is pushed through the compiler's own forward and back plan conversions; the result "
    "is compared with the input as a multiset of timed instances (exact rational arithmetic) and every compiled end event "
    "is located inside its action's duration. Held on the executions observed only."
)
LEVEL_NOTE = (
    "Trusted: CPython fractions, vk/ref/evalx.py (reference value of duration expressions over parameters and static "
    "fluents), accessors of TimeTriggeredPlan / ActionInstance. Start / end roles of compiled actions are recognised through "
    "the public names of the compiled problem's actions and cross-checked by counting."
)
RULE = (
    "cases = generated durative problems (fixed durations: constant, parameter-dependent, static-fluent-dependent; duration "
    "intervals of all four forms; start/end/over-all/intermediate conditions and effects; timed effects; instantaneous actions) "
    "x 4 (quick) / 8 (thorough) random time-triggered plans of 1..5 instances with rational start times; instances of one "
    "ground action never overlap or touch (H10). evaluations = plans round-tripped. distinct_nontrivial = distinct "
    "(problem, plan) with >= 2 durative instances."
)
ASSUMPTIONS = [
    "plans carry the duration the model prescribes (fixed durations) or a duration inside the interval (variable durations)",
    "self-overlapping or touching instances of one ground action are excluded (the compiler's kind has no SELF_OVERLAPPING)",
    "from-end delays are strictly smaller than every admissible duration",
]
SHARD_TIMEOUT = {"quick": 600, "thorough": 3600}
BOUNDS = {"quick": dict(n=480, plans=4), "thorough": dict(n=24000, plans=8)}


def plan(tier, seed):
    b = BOUNDS[tier]
    return simple_plan(PROPERTY, tier, seed, b["n"], b["n"], shards_quick=16, shards_thorough=16)


def run_shard(spec, res):
    for key in spec["cases"]:
        try:
            run_case(key, spec["tier"], res)
        except Unsupported:
            res.count("skipped_unsupported_by_oracle")


def replay(witness, res):
    run_case(witness["case_key"], witness.get("tier", "quick"), res, only_plan=witness.get("tau"))


def _instantiate(rec, e):
    """vk.recipe.instantiate_problem + timed effects (recipe.py calls a Problem.add_effect that does not exist, so the
    timed effects are added here through the public add_timed_effect / add_increase_effect / add_decrease_effect)."""
    from vk.recipe import timing

    r2 = {k: v for k, v in rec.items() if k != "timed_effects"}
    pb, ctx = instantiate_problem(r2, e)
    for t, eff in rec.get("timed_effects", []):
        fl, val = ctx.expr(eff["fluent"]), ctx.expr(eff["value"])
        if eff["kind"] == "assign":
            pb.add_timed_effect(timing(t), fl, val)
        elif eff["kind"] == "inc":
            pb.add_increase_effect(timing(t), fl, val)
        else:
            pb.add_decrease_effect(timing(t), fl, val)
    return pb


def _compile_failure_class(rec):
    """witness-derived signature of the problem shape that makes compile fail"""
    for a in rec["actions"]:
        if "duration" not in a or a["duration"][0] == "fixed":
            continue
        from_end_neg = any(t[0] == "end" and Fraction(t[1]) < 0 for iv, _ in a["conds"] for t in iv[1:]) or any(
            t[0] == "end" and Fraction(t[1]) < 0 for t, _ in a["effects"]
        )
        up_to_end = any(iv[0] != "point" and iv[2][0] == "end" and Fraction(iv[2][1]) == 0 for iv, _ in a["conds"])
        if up_to_end and not from_end_neg:
            return "variable-duration+interval-condition-up-to-end"
    return "other"


def _num(x):
    return None if x is None else Fraction(x)


def _ai_key(ai):
    return (ai.action.name, tuple(str(const_value(p)) for p in ai.actual_parameters))


def run_case(key, tier, res, only_plan=None):
    from unified_planning.engines.compilers.durative_actions_to_processes import DurativeActionToProcesses
    from unified_planning.engines import CompilationKind
    from unified_planning.exceptions import UPException
    from unified_planning.plans import TimeTriggeredPlan, ActionInstance
    from unified_planning.model import DurativeAction

    b = BOUNDS[tier]
    rng = rng_for(key)
    rec, feats = gen_durative_problem(rng)
    e = _env.fresh_env()
    try:
        pb = _instantiate(rec, e)
    except UPException:
        res.count("rejected_at_build")
        return
    if not DurativeActionToProcesses.supports(pb.kind):
        res.count("rejected_unsupported_kind")
        for ft in sorted(pb.kind.features - DurativeActionToProcesses.supported_kind().features):
            res.count("unsupported_feature:" + ft)
        return

    def viol(mech, summary, **w):
        res.violation(mech, summary, {"case_key": key, "tier": tier, "recipe": rec, **w})

    comp = DurativeActionToProcesses()
    try:
        cres = comp.compile(pb, CompilationKind.DURATIVE_ACTIONS_TO_PROCESSES)
    except UPException:
        res.count("rejected_by_compiler")
        return
    except _env.INTERNAL_EXC as ex:
        viol(f"compile-raises:{type(ex).__name__}:{_compile_failure_class(rec)}", f"compile raised {ex!r} inside the supported kind")
        return
    fwd, back = cres.plan_forward_conversion, cres.plan_back_conversion
    if fwd is None or back is None:
        viol("conversion-missing", f"plan_forward_conversion={fwd} plan_back_conversion={back}")
        return
    s0 = seqsem.initial_state(pb)
    compiled_names = {a.name for a in cres.problem.actions}

    def dur_of(arec, args):
        act = pb.action(arec["name"])
        I = Interp(pb, s0, {p.name: v for p, v in zip(act.parameters, args)})
        lo, hi = ev(act.duration.lower, I), ev(act.duration.upper, I)
        if lo is UNDEF or hi is UNDEF:
            return None
        lo, hi = Fraction(lo), Fraction(hi)
        form = arec["duration"][0]
        if form == "fixed":
            return ("fixed", lo)
        return (form, lo, hi)

    pid = h(rec)
    for _ in range(b["plans"]):
        tau = gen_tt_plan(rng, rec, dur_of)
        if only_plan is not None and tau != only_plan:
            continue
        if not tau:
            res.count("empty_plan")
        judge(pb, rec, feats, tau, fwd, back, compiled_names, pid, viol, res)


def judge(pb, rec, feats, tau, fwd, back, compiled_names, pid, viol, res):
    from unified_planning.plans import TimeTriggeredPlan, ActionInstance
    from unified_planning.model import DurativeAction

    items = []
    for st, an, args, d in tau:
        act = pb.action(an)
        items.append((Fraction(st), ActionInstance(act, seqsem.param_exprs(pb, act, tuple(args))), _num(d)))
    ttp = TimeTriggeredPlan(items, pb.environment)
    expected = Counter((t, _ai_key(ai), d) for t, ai, d in items)
    variable = {an for an in (a["name"] for a in rec["actions"] if "duration" in a and a["duration"][0] != "fixed")}
    kinds = set()
    for t, ai, d in items:
        if d is None:
            kinds.add("instantaneous")
        elif ai.action.name in variable:
            kinds.add("variable-duration")
        else:
            kinds.add("fixed-duration")
    cls = "variable-duration" if "variable-duration" in kinds else "fixed-duration"
    res.mon()
    try:
        f = fwd(ttp)
    except _env.INTERNAL_EXC as ex:
        viol(f"forward-raises:{type(ex).__name__}:{cls}", f"plan_forward_conversion raised {ex!r} on {tau}", tau=tau)
        return
    try:
        bk = back(f)
    except _env.INTERNAL_EXC as ex:
        viol(f"back-raises:{type(ex).__name__}:{cls}", f"plan_back_conversion(forward(tau)) raised {ex!r} on {tau}", tau=tau)
        return
    res.case()
    for k in kinds:
        res.count("plans_with:" + k)
    for ft in feats:
        res.count("feature:" + ft)
    n_dur = sum(1 for _, _, d in items if d is not None)
    if n_dur >= 2:
        res.nt((pid, tuple(map(tuple, [(a, b_, tuple(c), d) for a, b_, c, d in tau]))))
    # ---- round trip ---------------------------------------------------------------------------------------
    try:
        observed = Counter((Fraction(t), _ai_key(ai), _num(d)) for t, ai, d in bk.timed_actions)
    except Exception as ex:  # malformed result
        viol("back-result-malformed", f"cannot read back(forward(tau)): {ex!r}", tau=tau)
        return
    if observed != expected:
        miss = sorted((str(k) for k in (expected - observed).elements()))
        extra = sorted((str(k) for k in (observed - expected).elements()))
        bad = {k[1][0] for k in list((expected - observed).elements()) + list((observed - expected).elements())}
        cls = "variable-duration" if bad & variable else ("fixed-duration" if any(d is not None and ai.action.name in bad for _, ai, d in items) else "instantaneous")
        what = "duration" if Counter((t, k) for t, k, _ in expected.elements()) == Counter((t, k) for t, k, _ in observed.elements()) else "instances"
        viol(
            f"roundtrip-differs:{what}:{cls}",
            f"back(forward(tau)) != tau: missing {miss}, unexpected {extra}",
            tau=tau,
            missing=miss,
            unexpected=extra,
        )
        return
    # ---- end events ---------------------------------------------------------------------------------------
    try:
        fitems = [(Fraction(t), ai, d) for t, ai, d in f.timed_actions]
    except Exception as ex:
        viol("forward-result-malformed", f"cannot read forward(tau): {ex!r}", tau=tau)
        return
    for t, ai, d in fitems:
        if ai.action.name not in compiled_names:
            viol("forward-foreign-action", f"forward(tau) uses action {ai.action.name} that is not in the compiled problem", tau=tau)
            return
    starts, ends = [], []
    for t, ai, d in fitems:
        nm = ai.action.name
        (ends if "first_end" in nm else starts).append((t, ai))
    # every original instance has exactly one start event at its start time with its parameters
    exp_starts = Counter((t, tuple(str(const_value(p)) for p in ai.actual_parameters), ai.action.name) for t, ai, _ in items)
    obs_starts = Counter()
    unmatched = []
    for t, ai in starts:
        ps = tuple(str(const_value(p)) for p in ai.actual_parameters)
        cands = [k for k in exp_starts if k[0] == t and k[1] == ps and ai.action.name.startswith(k[2]) and obs_starts[k] < exp_starts[k]]
        if not cands:
            unmatched.append((str(t), ai.action.name, ps))
        else:
            obs_starts[max(cands, key=lambda k: len(k[2]))] += 1
    if unmatched or obs_starts != exp_starts:
        viol(
            f"forward-start-events-differ:{cls}",
            f"start events of forward(tau) do not match tau one-to-one (unmatched {unmatched})",
            tau=tau,
            forward=[(str(t), ai.action.name) for t, ai, _ in fitems],
        )
        return
    used = set()
    per_action = {}
    for t, ai in sorted(ends, key=lambda x: (x[0], x[1].action.name)):
        ps = tuple(str(const_value(p)) for p in ai.actual_parameters)
        res.count("end_events")
        hit = None
        for i, (st, oai, d) in enumerate(items):
            if i in used or d is None:
                continue
            if not ai.action.name.startswith(oai.action.name):
                continue
            if tuple(str(const_value(p)) for p in oai.actual_parameters) != ps:
                continue
            if st < t <= st + d:
                hit = i
                break
        if hit is None:
            viol(
                f"end-event-outside-duration:{cls}",
                f"compiled end event {ai.action.name}{ps} at {t} lies in (start, start+duration] of no unmatched instance of tau={tau}",
                tau=tau,
                forward=[(str(t_), a_.action.name) for t_, a_, _ in fitems],
            )
            return
        used.add(hit)
        per_action.setdefault(items[hit][1].action.name, set()).add(hit)
    for i, (st, oai, d) in enumerate(items):
        if oai.action.name in per_action and i not in used:
            viol(
                f"end-event-missing:{cls}",
                f"instance {i} of {oai.action.name} has no compiled end event although other instances of the action have one",
                tau=tau,
            )
            return
    if n_dur >= 2:
        res.sample({"problem": rec, "tau": tau, "forward": [(str(t), ai.action.name, d) for t, ai, d in fitems], "verdict": "round trip equal"})


def thresholds(m):
    c = m["counters"]
    out = []
    req = [
        ("end_events", 50),
        ("plans_with:fixed-duration", 100),
        ("plans_with:variable-duration", 100),
        ("plans_with:instantaneous", 20),
        ("feature:param-duration", 50),
        ("feature:static-fluent-duration", 50),
        ("feature:constant-duration", 20),
        ("feature:from-end-intermediate-effect", 20),
    ]
    for k, n in req:
        if c.get(k, 0) < n:
            out.append(f"fewer than {n} observations of class {k} ({c.get(k, 0)})")
    if len(m["nontrivial"]) < 50:
        out.append("fewer than 50 distinct plans with >= 2 durative instances")
    rej = c.get("rejected_unsupported_kind", 0) + c.get("rejected_at_build", 0) + c.get("rejected_by_compiler", 0)
    if rej > m["evaluations"]:
        out.append(f"too many rejected cases ({rej})")
    return out

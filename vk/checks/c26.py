"""C26 - time-triggered <-> STN plan conversions are faithful.

Monitor: for every time-triggered plan that the reference temporal semantics (vk.ref.ttsem) judges VALID, the calls
plan.convert_to(STN_PLAN, P), stn.is_consistent(), stn.get_constraints() and stn.convert_to(TIME_TRIGGERED_PLAN, P) are
judged at the API boundary: the STN must be consistent, the original start/end times must satisfy every returned
constraint (plain arithmetic), and the plan converted back must again be VALID under the reference."""
from fractions import Fraction

from vk import env as _env  # noqa: F401
from vk.core import rng_for, simple_plan, h
from vk.gen.temporal import gen_problem_fixed as gen_problem
from vk.gen.temporal import gen_temporal, gen_tt_plan, plan_steps, instantiate
from vk.recipe import instantiate_problem
from vk.ref import seqsem, ttsem
from vk.ref.evalx import Unsupported, fluents_in
from vk.checks.c05 import lib_site

PROPERTY = "C26"
LEVEL = "exploration"
TECHNIQUE = "runtime monitoring: arithmetic check of the STN constraints against the original times + reference temporal semantics (vk.ref.ttsem) on the round-tripped plan"
LEVEL_TEXT = (
    "For every generated time-triggered plan that the reference semantics judges valid, the real conversion to an STN plan and "
    "back is observed: consistency, satisfaction of all returned constraints by the original times, and validity of the "
    "converted-back plan under the reference; held on the executions observed."
)
LEVEL_NOTE = (
    "Trusted: CPython, fractions, read-only accessors, public constructors used by vk.recipe, vk/ref/ttsem.py (+evalx, seqsem). "
    "Constraint (A, L, U, B) is read as L <= t(B) - t(A) <= U, the orientation under which the STN's own duration constraints "
    "(start, d, d, end) are satisfiable (the docstring of STNPlan.get_constraints states the opposite sign). t(GLOBAL_END) is "
    "taken as the latest instant of the plan. Converted-back plans that fall in a don't-care class of ttsem are not judged. "
    "7 cases out of 8 install their fresh Environment as unified_planning.environment.GLOBAL_ENVIRONMENT (the conversion builds "
    "helper actions in the global environment); the 8th keeps a non-global environment."
)
RULE = (
    "cases = (a) generated temporal problems (vk.gen.temporal, incl. timed effects/goals) with reference-guided plans, (b) "
    "generated instantaneous problems with reference-valid sequential plans time-stamped with increasing and partly coinciding "
    "rational times; only plans that vk.ref.ttsem judges VALID are used. evaluations = valid plans whose conversion was "
    "observed. distinct_nontrivial = distinct valid plans with >= 2 steps of which two interfere (one writes a fluent the other "
    "reads or writes; lifted read/write sets) or start/end at a common instant. Problems get (profile amount_fluents) an action "
    "that increases/decreases a fluent by a non-static fluent amount and a writer of that amount; every valid plan with >= 2 steps "
    "is observed a second time for the problem whose goals additionally pin the plan's outcome (final values of the changed "
    "ground fluents), counted as a separate evaluation. Thorough tier, shard 0: additionally every labelled valid plan of the "
    "repository's example problems (time-triggered plans as they are, sequential plans as time-triggered plans with one step per "
    "time unit; 68 plans on the pinned tree) that the reference judges VALID is observed in the same way (counter examples_observed)."
)
ASSUMPTIONS = [
    "validity before and after the round trip is decided by vk/ref/ttsem.py (bounds and invariants included)",
    "constraint orientation L <= t(B) - t(A) <= U; t(GLOBAL_START) = 0; t(GLOBAL_END) = latest instant of the plan",
]
SHARD_TIMEOUT = {"quick": 600, "thorough": 5400}
BOUNDS = {"quick": dict(n=500, tries=6, keep=2), "thorough": dict(n=48000, tries=8, keep=3)}
PROFILE_T = dict(keep_goals=0.15, invariants=0.05, undefined_init=0.03, int_params=0.1, amount_fluents=0.35)
PROFILE_I = dict(invariants=0.15, undefined_init=0.03, interpreted_functions=0.0, max_depth=1, amount_fluents=0.35)


def plan(tier, seed):
    b = BOUNDS[tier]
    return simple_plan(PROPERTY, tier, seed, b["n"], b["n"])


def run_shard(spec, res):
    b = BOUNDS[spec["tier"]]
    for key in spec["cases"]:
        try:
            run_case(key, spec["tier"], b, res)
        except Unsupported:
            res.count("skipped_unsupported_by_oracle")
    if spec["tier"] == "thorough" and spec["shard"] == 0:
        res.count("tier:thorough")
        run_examples(spec["tier"], res)


def replay(witness, res):
    tier = witness.get("tier", "quick")
    if witness.get("example"):
        run_examples(tier, res, only=(witness["example"], witness.get("k")))
        return
    run_case(witness["case_key"], tier, BOUNDS[tier], res)


def run_examples(tier, res, only=None):
    """The labelled valid plans of the repository's example problems (time-triggered ones as they are, sequential ones as
    time-triggered plans with one instantaneous step per time unit): realistic plans next to the generated ones."""
    from unified_planning.model import Problem
    from unified_planning.plans import SequentialPlan, TimeTriggeredPlan
    from unified_planning.test.examples import get_example_problems
    from vk.ref.evalx import const_value

    for name, ex in sorted(get_example_problems().items()):
        if only and name != only[0]:
            continue
        pb = ex.problem
        if type(pb) is not Problem or pb.kind.has_simulated_effects():
            continue
        for k, pl in enumerate(ex.valid_plans):
            if only and only[1] is not None and k != only[1]:
                continue
            try:
                if isinstance(pl, TimeTriggeredPlan):
                    steps = ttsem.steps_of_plan(pl)
                elif isinstance(pl, SequentialPlan):
                    steps = [(Fraction(i), ai.action, tuple(const_value(p) for p in ai.actual_parameters), None) for i, ai in enumerate(pl.actions)]
                else:
                    continue
                if not steps or len(steps) > 40:
                    res.count("examples_skipped_empty_or_long")
                    continue
                v0 = ttsem.validate(pb, steps)
            except Unsupported:
                res.count("examples_skipped_unsupported_by_oracle")
                continue
            except Exception as e:  # the oracle could not digest the corpus problem: not judged
                res.count("examples_skipped_oracle_error:" + type(e).__name__)
                continue
            if v0.status != ttsem.VALID:
                res.count("examples_skipped_not_valid_under_reference")
                continue
            res.count("examples_observed")
            res.count("examples_observed:" + ("temporal" if isinstance(pl, TimeTriggeredPlan) else "sequential-as-time-triggered"))
            try:
                observe(pb, steps, v0, {"example": name, "k": k, "tier": tier}, res, "ex:" + name)
            except Unsupported:
                res.count("examples_skipped_unsupported_by_oracle")


# ---- workload ---------------------------------------------------------------------------------------
def temporal_valid_plans(pb, rec, rng, b, res):
    def accept(partial):
        try:
            w = ttsem.validate(pb, plan_steps(pb, partial))
        except Unsupported:
            return False
        return not [f for f in w.failures if f["code"] != "goal"] and not w.dontcares

    out = []
    for _ in range(b["tries"]):
        pl = gen_tt_plan(rng, rec, n_steps=rng.choice([1, 2, 2, 3, 3, 4]), accept=accept, tries=5)
        steps = plan_steps(pb, pl)
        v = ttsem.validate(pb, steps)
        res.count("candidate_plans")
        if v.status == ttsem.VALID:
            out.append((steps, v))
            if len(out) >= b["keep"]:
                break
    return out


def instantaneous_valid_plans(pb, rng, b, res):
    insts = seqsem.all_instances(pb)
    if not insts:
        return []
    out = []
    for _ in range(b["tries"]):
        s = seqsem.initial_state(pb)
        steps = []
        for _k in range(rng.choice([2, 3, 3, 4])):
            cands = list(insts)
            rng.shuffle(cands)
            for a, args in cands[:12]:
                r = seqsem.succ(pb, s, a, args)
                if r.status == seqsem.OKAY and (r.info.get("changed") or rng.random() < 0.2):
                    steps.append((a, args))
                    s = r.state
                    break
        if len(steps) < 2 or seqsem.goal_status(pb, s) is not True:
            continue
        t = Fraction(rng.choice([0, 1, 1, 2, 3]), rng.choice([1, 2]))
        timed = []
        for a, args in steps:
            timed.append((t, a, args, None))
            if rng.random() > 0.35:
                t = t + Fraction(rng.choice([1, 1, 2, 3]), rng.choice([1, 2, 4]))
        res.count("candidate_plans")
        v = ttsem.validate(pb, timed)
        if v.status == ttsem.VALID:
            out.append((timed, v))
            if len(out) >= b["keep"]:
                break
    return out


def rw_sets(act):
    """Lifted read / write fluent-name sets of an action (conditions, effect conditions, values, target arguments)."""
    reads, writes = set(), set()
    if hasattr(act, "duration"):
        conds = [c for cl in act.conditions.values() for c in cl] + [act.duration.lower, act.duration.upper]
        effs = [e for el in act.effects.values() for e in el]
    else:
        conds = list(act.preconditions)
        effs = list(act.effects)
    for c in conds:
        reads |= {f.name for f in fluents_in(c)}
    for e in effs:
        writes.add(e.fluent.fluent().name)
        reads |= {f.name for f in fluents_in(e.condition)} | {f.name for f in fluents_in(e.value)}
        for a in e.fluent.args:
            reads |= {f.name for f in fluents_in(a)}
    return reads, writes


def nontrivial(steps):
    if len(steps) < 2:
        return False
    inst = []
    rws = []
    for s, a, args, d in steps:
        inst.append({s} if d is None else {s, s + d})
        rws.append(rw_sets(a))
    for i in range(len(steps)):
        for j in range(i + 1, len(steps)):
            if inst[i] & inst[j]:
                return True
            (ri, wi), (rj, wj) = rws[i], rws[j]
            if wi & (rj | wj) or wj & ri:
                return True
    return False


def _instants(step):
    s, a, args, d = step
    out = {s}
    if d is not None:
        out.add(s + d)
        for t in a.effects:
            out.add(ttsem._abs(t, s, d))
        for iv in a.conditions:
            out.update((ttsem._abs(iv.lower, s, d), ttsem._abs(iv.upper, s, d)))
    return out


def open_bound_within_2eps(pb, steps):
    """The problem fixes an epsilon and some other step has an instant strictly inside (b, b + 2*eps) after a left-open
    condition bound b (resp. inside (b - 2*eps, b) before a right-open one).  The conversion represents an open bound by an
    artificial event at b +- eps and then separates that event from interfering events by another eps: such plans respect the
    epsilon separation but get an over-constrained STN (one root cause, whatever the symptom)."""
    eps = pb.epsilon
    if eps is None:
        return False
    inst = [_instants(st) for st in steps]
    for iv in pb.timed_goals:  # open bounds of timed goals are shifted in the same way (mock-up action of the conversion)
        lo, hi = ttsem._gabs(iv.lower), ttsem._gabs(iv.upper)
        for other in inst:
            for t in other:
                if iv.is_left_open() and lo is not None and 0 < t - lo < 2 * eps:
                    return True
                if iv.is_right_open() and hi is not None and 0 < hi - t < 2 * eps:
                    return True
    for i, (s, a, args, d) in enumerate(steps):
        if d is None:
            continue
        for iv in a.conditions:
            lo, hi = ttsem._abs(iv.lower, s, d), ttsem._abs(iv.upper, s, d)
            # the two artificial events lo + eps / hi - eps of an open interval cross when the interval is shorter than the
            # shifts (same root cause, no interfering event needed)
            shift = (eps if iv.is_left_open() else 0) + (eps if iv.is_right_open() else 0)
            if shift and hi - lo < shift:
                return True
            for j, other in enumerate(inst):
                if j == i:
                    continue
                for t in other:
                    if iv.is_left_open() and 0 < t - lo < 2 * eps:
                        return True
                    if iv.is_right_open() and 0 < hi - t < 2 * eps:
                        return True
    return False


def short_open_condition(pb, steps):
    """Some durative step has an open condition interval that is not longer than the epsilon shifts of its open bounds."""
    eps = pb.epsilon
    if eps is None:
        return False
    for s, a, args, d in steps:
        if d is None:
            continue
        for iv in a.conditions:
            lo, hi = ttsem._abs(iv.lower, s, d), ttsem._abs(iv.upper, s, d)
            shift = (eps if iv.is_left_open() else 0) + (eps if iv.is_right_open() else 0)
            if shift and hi - lo <= shift:
                return True
    return False


def pinned_goals(pb, v0):
    """Goals fixing the final value of every ground fluent whose final value differs from its initial one."""
    em = pb.environment.expression_manager
    s0, s1 = seqsem.initial_state(pb), v0.final_state
    if s1 is None:
        return []
    out = []
    for (name, args), v in sorted(s1.items(), key=str):
        if (name, args) in s0 and s0[(name, args)] == v:
            continue
        f = pb.fluent(name)
        fe = seqsem.fexp(pb, f, args)
        if f.type.is_bool_type():
            out.append(fe if v else em.Not(fe))
        elif f.type.is_user_type():
            out.append(em.Equals(fe, em.ObjectExp(pb.object(v))))
        else:
            q = Fraction(v)
            out.append(em.Equals(fe, em.Int(int(q)) if q.denominator == 1 else em.Real(q)))
    return out


def amount_order_sensitive(steps):
    """Some step increases / decreases a fluent by an amount that reads a fluent which a *later starting* other step writes."""
    for i, (s, a, args, d) in enumerate(steps):
        effs = [e for el in a.effects.values() for e in el] if hasattr(a, "duration") else list(a.effects)
        amt = set()
        for e in effs:
            if e.is_increase() or e.is_decrease():
                amt |= {f.name for f in fluents_in(e.value)}
        if not amt:
            continue
        for j, (s2, a2, _, _) in enumerate(steps):
            if j != i and s2 > s and rw_sets(a2)[1] & amt:
                return True
    return False


# ---- the monitor -------------------------------------------------------------------------------------
def observe(pb, steps, v0, wbase, res, pid):
    from unified_planning.exceptions import UPException
    from unified_planning.model.timing import TimepointKind
    from unified_planning.plans import PlanKind

    lplan = ttsem.library_plan(pb, steps)
    plan_json = [[str(s), a.name, list(args), None if d is None else str(d)] for s, a, args, d in steps]
    w = {**wbase, "plan": plan_json}

    def viol(mech, summary, **kw):
        res.violation(mech, summary, {**w, **kw})

    res.mon()
    try:
        stn = lplan.convert_to(PlanKind.STN_PLAN, pb)
    except _env.INTERNAL_EXC as ex:
        res.case()
        if "environment" in str(ex) and wbase.get("non_global_environment"):
            viol("to-stn-raises:non-global-environment", f"convert_to(STN_PLAN) raised {ex!r} (problem and plan live in a non-global Environment) on the valid plan {plan_json}")
        else:
            viol(f"to-stn-raises:{type(ex).__name__}@{lib_site(ex)}", f"convert_to(STN_PLAN) raised {ex!r} on the valid plan {plan_json}")
        return
    except UPException as ex:
        res.count("rejected_by_conversion:" + type(ex).__name__)
        return
    res.case()
    nt = nontrivial(steps)
    if nt:
        res.nt((pid, plan_json))
        res.count("valid_plans_interfering_or_coinciding")
    for ft in v0.features:
        res.count("feature:" + ft)
    # 1. consistency
    try:
        cons = stn.is_consistent()
    except _env.INTERNAL_EXC as ex:
        viol(f"is_consistent-raises:{type(ex).__name__}@{lib_site(ex)}", f"is_consistent raised {ex!r}")
        return
    eps_tag = "epsilon-shift-of-open-bounds-overconstrains-the-stn" if open_bound_within_2eps(pb, steps) else None
    if not cons:
        viol(eps_tag or "stn-inconsistent", f"the STN plan obtained from the valid plan {plan_json} is inconsistent")
        return
    # 2. the original times satisfy every constraint
    tmap = {}
    latest = Fraction(0)
    for (s, a, args, d), (_, ai, _) in zip(steps, lplan.timed_actions):
        tmap[(TimepointKind.START, id(ai))] = s
        latest = max(latest, s)
        if d is not None:
            tmap[(TimepointKind.END, id(ai))] = s + d
            latest = max(latest, s + d)
    for t in v0.happenings:
        latest = max(latest, t)

    def tof(node):
        if node.kind == TimepointKind.GLOBAL_START:
            return Fraction(0)
        if node.kind == TimepointKind.GLOBAL_END:
            return latest
        return tmap.get((node.kind, id(node.action_instance)))

    try:
        constraints = stn.get_constraints()
    except _env.INTERNAL_EXC as ex:
        viol(f"get_constraints-raises:{type(ex).__name__}@{lib_site(ex)}", f"get_constraints raised {ex!r}")
        return
    nodes = set()
    for A, lst in constraints.items():
        for L, U, B in lst:
            nodes.update((A, B))
            ta, tb = tof(A), tof(B)
            if ta is None or tb is None:
                viol("constraint-on-unknown-node", f"constraint ({A}, {L}, {U}, {B}) mentions a node that is not a start/end of a plan step")
                return
            diff = tb - ta
            if (L is not None and diff < L) or (U is not None and diff > U):
                kinds = f"{A.kind.name}->{B.kind.name}"
                viol(
                    eps_tag or "constraint-violated-by-original-times:" + ("upper" if (U is not None and diff > U) else "lower"),
                    f"constraint {L} <= t({B}) - t({A}) <= {U} is violated by the original times ({tb} - {ta} = {diff}) [{kinds}]",
                    constraint=[str(A), str(L), str(U), str(B)],
                )
                return
    res.count("constraints_checked", sum(len(l) for l in constraints.values()))
    # 3. back conversion
    try:
        back = stn.convert_to(PlanKind.TIME_TRIGGERED_PLAN, pb)
    except _env.INTERNAL_EXC as ex:
        viol(f"to-ttp-raises:{type(ex).__name__}@{lib_site(ex)}", f"STNPlan.convert_to(TIME_TRIGGERED_PLAN) raised {ex!r}")
        return
    except UPException as ex:
        res.count("rejected_by_back_conversion:" + type(ex).__name__)
        return
    bsteps = ttsem.steps_of_plan(back)
    back_json = [[str(s), a.name, list(args), None if d is None else str(d)] for s, a, args, d in bsteps]
    orig_ids = sorted(id(ai) for _, ai, _ in lplan.timed_actions)
    back_ids = sorted(id(ai) for _, ai, _ in back.timed_actions)
    if orig_ids != back_ids:
        viol("roundtrip-changes-the-action-instances", f"the converted-back plan {back_json} does not contain exactly the original action instances {plan_json}", back=back_json)
        return
    durs = {id(ai): d for _, ai, d in lplan.timed_actions}
    for _, ai, d in back.timed_actions:
        if (d is None) != (durs[id(ai)] is None) or (d is not None and Fraction(d) != Fraction(durs[id(ai)])):
            viol("roundtrip-changes-a-duration", f"duration of {ai} changed from {durs[id(ai)]} to {d}", back=back_json)
            return
    v1 = ttsem.validate(pb, bsteps)
    if v1.status == ttsem.DONTCARE:
        res.count("back_dontcare:" + v1.dontcares[0])
        return
    if v1.status == ttsem.INVALID:
        codes = sorted({c.split(":")[0] for c in v1.codes()})
        mech = "roundtrip-invalid:" + "+".join(codes)
        if codes == ["condition"] and short_open_condition(pb, steps):
            # an open condition interval shorter than its epsilon shifts is sampled at no event at all: the condition (and the
            # orderings it induces) is missing from the STN - same epsilon representation of open bounds, under-constraining here
            mech = "epsilon-shift-of-open-bounds-loses-a-short-open-condition"
        elif codes == ["duration-bound-undefined"]:
            mech = "roundtrip-invalid:duration"  # same root cause: nothing protects the fluents a duration bound reads
        viol(mech, f"valid plan {plan_json} -> STN -> {back_json}, which the reference judges invalid: {v1.failures}", back=back_json, reference_back=v1.to_json())
        return
    res.count("roundtrip_valid")
    if back_json != plan_json:
        res.count("roundtrip_retimed")
    if nt:
        res.sample({"problem": wbase.get("recipe"), "plan": plan_json, "back": back_json, "constraints": sum(len(l) for l in constraints.values()), "verdict": "faithful"})


def run_case(key, tier, b, res):
    from unified_planning.exceptions import UPException

    import unified_planning.environment as upenv

    rng = rng_for(key)
    idx = int(key.rsplit(":", 1)[1])
    e = _env.fresh_env()
    temporal = idx % 3 != 2
    # TimeTriggeredPlan.convert_to builds its helper actions in the *global* environment. 7 cases out of 8 therefore install
    # the case's fresh environment as unified_planning.environment.GLOBAL_ENVIRONMENT (public module attribute) for the
    # duration of the case; the 8th keeps a non-global environment, which exposes that defect under its own mechanism.
    nonglobal = idx % 8 == 7
    old = upenv.GLOBAL_ENVIRONMENT
    if not nonglobal:
        upenv.GLOBAL_ENVIRONMENT = e
    try:
        _run_case(key, tier, b, res, rng, e, temporal, nonglobal)
    finally:
        upenv.GLOBAL_ENVIRONMENT = old


def _run_case(key, tier, b, res, rng, e, temporal, nonglobal):
    from unified_planning.exceptions import UPException

    if temporal:
        rec, feats = gen_temporal(rng, PROFILE_T)
    else:
        rec, feats = gen_problem(rng, PROFILE_I)
        if rng.random() < 0.7:
            rec["goals"] = []
    try:
        pb, ctx = instantiate(rec, e) if temporal else instantiate_problem(rec, e)
    except UPException:
        res.count("rejected_at_build")
        return
    res.count("problems:" + ("temporal" if temporal else "instantaneous"))
    res.count("environment:" + ("non-global" if nonglobal else "fresh-installed-as-global"))
    plans = temporal_valid_plans(pb, rec, rng, b, res) if temporal else instantaneous_valid_plans(pb, rng, b, res)
    if not plans:
        res.count("no_valid_plan_found")
        return
    pid = h(rec)
    base_goals = list(pb.goals)
    for steps, v0 in plans:
        res.count("valid_plans:" + ("temporal" if temporal else "instantaneous"))
        wbase = {"case_key": key, "tier": tier, "recipe": rec, "non_global_environment": nonglobal}
        nv = res.counters.get("violations_raw", 0)
        observe(pb, steps, v0, wbase, res, pid)
        if res.counters.get("violations_raw", 0) > nv or len(steps) < 2:
            continue
        # the same plan for the problem whose goals additionally pin the outcome of the plan (every ground fluent the plan
        # changed must end with the value the reference computed): any re-timing that changes what the plan achieves is then
        # visible to the statement's own notion of validity
        pins = pinned_goals(pb, v0)
        if not pins:
            continue
        try:
            for g in pins:
                pb.add_goal(g)
            v0p = ttsem.validate(pb, steps)
            if v0p.status != ttsem.VALID:
                res.count("pinned:not-valid-under-reference")
                continue
            res.count("valid_plans:outcome-pinned")
            if amount_order_sensitive(steps):
                res.count("valid_plans:outcome-pinned:increase-by-fluent-then-writer")
            observe(pb, steps, v0p, {**wbase, "pinned_goals": [str(g) for g in pins]}, res, pid + ":pinned")
        finally:
            pb.clear_goals()
            for g in base_goals:
                pb.add_goal(g)


def thresholds(m):
    c = m["counters"]
    out = []
    if c.get("valid_plans_interfering_or_coinciding", 0) < 20:
        out.append(f"fewer than 20 valid plans with interference ({c.get('valid_plans_interfering_or_coinciding', 0)})")
    for k in ("valid_plans:temporal", "valid_plans:instantaneous", "feature:coinciding-sources", "valid_plans:outcome-pinned", "valid_plans:outcome-pinned:increase-by-fluent-then-writer"):
        if c.get(k, 0) < 10:
            out.append(f"fewer than 10 observations of {k} ({c.get(k, 0)})")
    if c.get("feature:timed-effect", 0) + c.get("feature:timed-goal", 0) < 10:
        out.append("fewer than 10 valid plans of problems with timed effects / goals")
    if c.get("tier:thorough") and c.get("examples_observed", 0) < 10:
        out.append(f"fewer than 10 example-corpus plans observed ({c.get('examples_observed', 0)})")
    return out

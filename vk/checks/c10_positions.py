"""C10: the table of (problem class, syntactic position, feature) plants (owner: check C10).

Every entry is (pclass, where, feature); vk/gen/kindplant.py knows how to plant it, vk/ref/kindx.py reports the pair
(feature, "<pclass>:<where>") when it sees it.  The check is INCONCLUSIVE unless every pair of TABLE was observed by the
oracle in at least MIN_OBS judged problems.
pclass: prob (Problem: classical / numeric / temporal), htn, ma, cont, sched.
"""

COND = ["NEGATIVE_CONDITIONS", "DISJUNCTIVE_CONDITIONS", "EQUALITIES", "EXISTENTIAL_CONDITIONS", "UNIVERSAL_CONDITIONS"]
EFF = ["CONDITIONAL_EFFECTS", "FORALL_EFFECTS", "INCREASE_EFFECTS", "DECREASE_EFFECTS"]
ASSIGN = ["FLUENTS_IN_BOOLEAN_ASSIGNMENTS", "FLUENTS_IN_NUMERIC_ASSIGNMENTS", "FLUENTS_IN_OBJECT_ASSIGNMENTS"]
TYPING = ["FLAT_TYPING", "HIERARCHICAL_TYPING"]
APARAM = ["BOOL_ACTION_PARAMETERS", "BOUNDED_INT_ACTION_PARAMETERS", "UNBOUNDED_INT_ACTION_PARAMETERS", "REAL_ACTION_PARAMETERS"]
FPARAM = ["BOOL_FLUENT_PARAMETERS", "BOUNDED_INT_FLUENT_PARAMETERS"]
FTYPE = ["INT_FLUENTS", "REAL_FLUENTS", "OBJECT_FLUENTS", "BOUNDED_TYPES"]
METRICS = ["ACTIONS_COST", "FINAL_VALUE", "MAKESPAN", "PLAN_LENGTH", "OVERSUBSCRIPTION", "TEMPORAL_OVERSUBSCRIPTION"]

COND_POS = {
    "prob": [
        "action-precondition",
        "action-effect-condition",
        "durative-condition",
        "durative-effect-condition",
        "timed-effect-condition",
        "goal",
        "timed-goal",
        "state-invariant",
        "trajectory-constraint",
        "wrapped-state-invariant",
        "oversubscription-goal",
        "temporal-oversubscription-goal",
        "event-precondition",
        "event-effect-condition",
        "process-precondition",
    ],
    "htn": [
        "action-precondition",
        "action-effect-condition",
        "durative-condition",
        "goal",
        "method-precondition",
        "method-constraint",
        "task-network-constraint",
    ],
    "ma": [
        "action-precondition",
        "action-effect-condition",
        "durative-condition",
        "durative-effect-condition",
        "goal",
        "agent-public-goal",
        "agent-private-goal",
    ],
    "cont": ["action-precondition", "action-effect-condition", "sensing-precondition", "goal"],
    "sched": [
        "base-condition",
        "activity-condition",
        "base-constraint",
        "activity-constraint",
        "base-effect-condition",
        "activity-effect-condition",
    ],
}
EFF_POS = {
    "prob": ["action-effect", "durative-effect", "timed-effect", "event-effect"],
    "htn": ["action-effect"],
    "ma": ["action-effect", "durative-effect"],
    "cont": ["action-effect"],
    "sched": ["base-effect", "activity-effect"],
}
# Types that occur only as the type of a forall-effect / quantifier / task-network variable or of a scheduling parameter are
# not listed in problem.user_types; whether they are "in the problem" is left open (don't-care in kindx.utype), so these
# positions are not in the table.
TYPE_POS = {
    "prob": ["fluent-type", "fluent-param", "object", "action-param", "durative-param", "event-param", "process-param"],
    # (task-network variables are not registered among problem.user_types: don't-care, see kindx.utype)
    "htn": ["fluent-type", "object", "action-param", "method-param", "task-param"],
    "ma": ["env-fluent-type", "agent-fluent-type", "agent-fluent-param", "object", "action-param", "durative-param"],
    "cont": ["fluent-type", "object", "action-param", "sensing-param"],
    # (activity parameters / base variables are not registered among problem.user_types: don't-care)
    "sched": ["fluent-type", "fluent-param", "object"],
}
APARAM_POS = {
    "prob": ["action-param", "durative-param", "event-param", "process-param"],
    "htn": ["action-param"],
    "ma": ["action-param", "durative-param"],
    "cont": ["action-param", "sensing-param"],
    "sched": ["activity-param"],
}
FLUENT_POS = {"prob": ["fluent"], "htn": ["fluent"], "ma": ["env-fluent", "agent-fluent"], "cont": ["fluent"], "sched": ["fluent"]}


def build_table():
    t = []
    for pc, poss in COND_POS.items():
        for w in poss:
            for f in COND:
                t.append((pc, w, f))
    for pc, poss in EFF_POS.items():
        for w in poss:
            for f in EFF:
                if pc == "sched" and f == "FORALL_EFFECTS":
                    continue  # the scheduling API has no forall effects
                t.append((pc, w, f))
            for f in ASSIGN:
                t.append((pc, w + "-value", f))
    t.append(("prob", "process-effect", "INCREASE_CONTINUOUS_EFFECTS"))
    t.append(("prob", "process-effect", "DECREASE_CONTINUOUS_EFFECTS"))
    t.append(("prob", "durative-continuous-effect", "INCREASE_CONTINUOUS_EFFECTS"))
    t.append(("prob", "durative-continuous-effect", "DECREASE_CONTINUOUS_EFFECTS"))
    for pc in ("prob", "htn", "ma"):
        t.append((pc, "durative-duration", "FLUENTS_IN_DURATIONS"))
    t.append(("sched", "activity-duration", "FLUENTS_IN_DURATIONS"))
    for pc, poss in TYPE_POS.items():
        for w in poss:
            for f in TYPING:
                t.append((pc, w, f))
    for pc, poss in APARAM_POS.items():
        for w in poss:
            for f in APARAM:
                t.append((pc, w, f))
    for pc, poss in FLUENT_POS.items():
        for w in poss:
            for f in FPARAM:
                t.append((pc, w + "-param", f))
            for f in FTYPE:
                t.append((pc, w + "-type", f))
    t.append(("prob", "timed-effect", "TIMED_EFFECTS"))
    t.append(("prob", "timed-goal", "TIMED_GOALS"))
    t.append(("sched", "base-effect", "TIMED_EFFECTS"))
    t.append(("sched", "base-condition", "TIMED_GOALS"))
    for pc in ("prob", "htn", "cont"):
        t.append((pc, "state-invariant", "STATE_INVARIANTS"))
        t.append((pc, "trajectory-constraint", "TRAJECTORY_CONSTRAINTS"))
    t.append(("prob", "wrapped-state-invariant", "STATE_INVARIANTS"))
    for f in METRICS:
        t.append(("prob", "metric", f))
    t.append(("htn", "metric", "ACTIONS_COST"))
    t.append(("cont", "metric", "ACTIONS_COST"))
    t.append(("sched", "metric", "MAKESPAN"))
    t.append(("prob", "metric-action-cost", "FLUENTS_IN_ACTIONS_COST"))
    t.append(("prob", "metric-action-cost", "INT_NUMBERS_IN_ACTIONS_COST"))
    t.append(("prob", "metric-oversubscription", "INT_NUMBERS_IN_OVERSUBSCRIPTION"))
    for pc in ("prob", "htn", "cont", "sched"):
        for how in ("none-set", "partially-set"):
            t.append((pc, "initial-state-" + how, "UNDEFINED_INITIAL_SYMBOLIC"))
            t.append((pc, "initial-state-" + how, "UNDEFINED_INITIAL_NUMERIC"))
    # de-duplicate, keep order
    seen, out = set(), []
    for x in t:
        if x not in seen:
            seen.add(x)
            out.append(x)
    return out


TABLE = build_table()
MIN_OBS = 2


def pair_of(spec):
    pc, where, feature = spec
    return (feature, f"{pc}:{where}")

"""C30 - the Ks0 conformant-to-classical compilation is sound and complete.

Directed experiment around the real Ks0Compiler: small Boolean conformant problems with explicit sets of possible initial
states (or contingent oneof / or / unknown constraints) are compiled; soundness: a breadth-first search over the compiled
problem (reference semantics) paired with the original executions from every possible initial state finds every compiled
plan up to a bound, each is mapped back with the real plan_back_conversion and executed from every possible initial
state; completeness: a belief-space BFS of the original decides whether a conformant plan exists, the compiled
counterpart is constructed (merge actions to a fix-point before each step), a bounded exhaustive search of the compiled
problem is the fallback and only its completed failure is a violation."""
import re

from vk import env as _env  # noqa: F401
from vk.core import rng_for, simple_plan, h
from vk.gen.conformant_cm import gen_conformant, ground_fluent_keys, kstr
from vk.recipe import instantiate_problem
from vk.ref import seqsem
from vk.ref.bfs_cm import Space, explore
from vk.ref.conformant import belief_space, conformant_bfs, run_conformant, constrained_assignments
from vk.ref.evalx import Unsupported, const_value
from vk.ref.seqsem import OKAY, INAPP, DONTCARE

PROPERTY = "C30"
LEVEL = "exploration"
TECHNIQUE = "runtime monitoring: belief-space brute force of the original vs paired exhaustive search of the compiled problem, real plan_back_conversion"
LEVEL_TEXT = (
    "Every compiled plan found by a bounded exhaustive search is mapped back by the compiler's own plan_back_conversion and "
    "executed from every possible initial state under a reference semantics; existence of a conformant plan is decided by an "
    "independent belief-space BFS and compared with solvability of the compiled problem. Held on the executions observed only."
)
LEVEL_NOTE = (
    "Trusted: CPython, vk/ref/seqsem.py, evalx.py, bfs_cm.py, conformant.py, accessors of the model classes. Possible "
    "initial states of contingent inputs are enumerated by brute force over the hidden atoms. The dominated-state reduction "
    "is covered because the reference always uses the full state set while the compiler uses its reduced basis."
)
RULE = (
    "cases = generated Boolean problems (<= 6 ground fluents, conditional / forall effects, negative / disjunctive / quantified "
    "/ equality conditions, <= 1 effect per ground fluent per ground action; 20% directed corridor shapes; 25% chains of "
    "conditional effects of depth 2-3 with mixed polarities and goals over the end of the chain) x a set of 1..4 "
    "possible initial states (explicit UPStates - for chains two states differing in one early-chain atom, in either listing "
    "order - or ContingentProblem oneof / or / unknown constraints, oneof / or groups over positive and negative literals). evaluations = "
    "compiled plans judged for soundness + completeness verdicts. distinct_nontrivial = distinct (problem, state set) with "
    ">= 2 distinct states where the shortest plan of some single state is not a conformant plan."
)
ASSUMPTIONS = [
    "oracle vk/ref/seqsem.py implements the documented sequential semantics; conformant validity = executable from every "
    "possible initial state and goals reached from each",
    "compiled plans are searched up to a depth / joint-state bound; the completeness fallback search is exhaustive or the case is not judged",
]
SHARD_TIMEOUT = {"quick": 900, "thorough": 5400}
BOUNDS = {
    "quick": dict(n=400, depth=7, joint=2500, beliefs=4000, fallback=15000, plans=40),
    "thorough": dict(n=9000, depth=9, joint=10000, beliefs=20000, fallback=60000, plans=120),
}


def plan(tier, seed):
    b = BOUNDS[tier]
    return simple_plan(PROPERTY, tier, seed, b["n"], b["n"], shards_quick=8, shards_thorough=16)


def run_shard(spec, res):
    for key in spec["cases"]:
        try:
            run_case(key, spec["tier"], res)
        except Unsupported:
            res.count("skipped_unsupported_by_oracle")


def replay(witness, res):
    run_case(witness["case_key"], witness.get("tier", "quick"), res)


def _fexp(pb, k):
    return seqsem.fexp(pb, pb.fluent(k[0]), tuple(k[1]))


def _lit(pb, k, pos):
    e = _fexp(pb, k)
    return e if pos else pb.environment.expression_manager.Not(e)


def build(key):
    """-> dict(rec, feats, unc, pb, states (reference: list of seqsem state dicts), compiler) or None + reason"""
    from unified_planning.exceptions import UPException
    from unified_planning.model import UPState
    from unified_planning.model.contingent import ContingentProblem
    from unified_planning.engines.compilers.ks0_compiler import Ks0Compiler

    rng = rng_for(key)
    rec, feats, unc = gen_conformant(rng)
    keys = ground_fluent_keys(rec)
    if len(keys) > 6 or not keys:
        return None, "skipped_too_many_ground_fluents"
    e = _env.fresh_env()
    em = e.expression_manager
    try:
        if unc["mode"] == "contingent":
            pb, _ = instantiate_problem(rec, e, problem_cls=ContingentProblem)
        else:
            pb, _ = instantiate_problem(rec, e)
    except UPException:
        return None, "rejected_at_build"
    base = seqsem.initial_state(pb)
    if unc["mode"] == "contingent":
        T = lambda k: (k[0], tuple(k[1]))
        for g in unc["oneof"]:
            pb.add_oneof_initial_constraint([_lit(pb, T(k), pos) for k, pos in g])
        for g in unc["or"]:
            pb.add_or_initial_constraint([_lit(pb, T(k), pos) for k, pos in g])
        for k in unc["unknown"]:
            pb.add_unknown_initial_constraint(_fexp(pb, T(k)))
        atoms = []
        for g in unc["oneof"] + unc["or"]:
            for k, _ in g:
                if T(k) not in atoms:
                    atoms.append(T(k))
        for k in unc["unknown"]:
            if T(k) not in atoms:
                atoms.append(T(k))
        assigns = constrained_assignments(atoms, [[(T(k), p) for k, p in g] for g in unc["oneof"]], [[(T(k), p) for k, p in g] for g in unc["or"]])
        states = []
        for a in assigns:
            s = dict(base)
            s.update(a)
            states.append(s)
        comp = Ks0Compiler()
    else:
        name2key = {kstr(k): k for k in keys}
        states = []
        ups = []
        for sd in unc["states"]:
            s = {name2key[n]: v for n, v in sd.items()}
            states.append(s)
            ups.append(UPState({_fexp(pb, k): em.Bool(v) for k, v in s.items()}, pb))
        comp = Ks0Compiler(possible_initial_states=ups)
    return dict(rec=rec, feats=feats, unc=unc, pb=pb, states=states, comp=comp, keys=keys), None


def _disjunctive(e, positive=True):
    """Does e (in negation normal form) contain a disjunction?"""
    from unified_planning.model.operators import OperatorKind as OK

    nt = e.node_type
    if nt == OK.NOT:
        return _disjunctive(e.arg(0), not positive)
    if nt in (OK.AND, OK.FORALL):
        return (not positive) or any(_disjunctive(a, positive) for a in e.args)
    if nt in (OK.OR, OK.EXISTS):
        return positive or any(_disjunctive(a, positive) for a in e.args)
    if nt in (OK.IMPLIES, OK.IFF):
        return True
    return False


def run_case(key, tier, res):
    from unified_planning.engines import CompilationKind
    from unified_planning.exceptions import UPException, UPUsageError
    from unified_planning.plans import ActionInstance, SequentialPlan

    b = BOUNDS[tier]
    built, why = build(key)
    if built is None:
        res.count(why)
        return
    rec, feats, unc, pb, states, comp, keys = (built[k] for k in ("rec", "feats", "unc", "pb", "states", "comp", "keys"))

    def viol(mech, summary, **w):
        res.violation(mech, summary, {"case_key": key, "tier": tier, "recipe": rec, "uncertainty": unc, **w})

    # distinct reference states
    uniq = []
    for s in states:
        if s not in uniq:
            uniq.append(s)
    try:
        cres = comp.compile(pb, CompilationKind.CONFORMANT_TO_CLASSICAL)
    except UPUsageError as ex:
        if unc["mode"] == "contingent" and uniq and "no initial state" in str(ex):
            viol("contingent-enumeration:rejects-satisfiable-constraints", f"{len(uniq)} assignments satisfy the constraints, the compiler found none: {ex}")
        elif unc["mode"] == "contingent" and not uniq:
            res.count("rejected_unsatisfiable_constraints_consistently")
        else:
            res.count("rejected_by_compiler")
            res.count("rejected:" + re.sub(r"`[^`]*`", "_", str(ex))[:60])
        return
    except UPException:
        res.count("rejected_by_compiler")
        return
    except _env.INTERNAL_EXC as ex:
        cls = "fluent-of-other-environment" if "different environment" in str(ex) else "other"
        viol(f"compile-raises:{type(ex).__name__}:{cls}", f"Ks0Compiler.compile raised {ex!r}")
        return
    if not uniq:
        viol("contingent-enumeration:accepts-unsatisfiable-constraints", "no assignment satisfies the constraints but the compiler produced a problem")
        return
    cp = cres.problem
    back = cres.plan_back_conversion
    for ft in feats:
        res.count("feature:" + ft)
    res.count("mode:" + unc["mode"])
    res.count(f"states:{min(len(uniq), 4)}")
    tags = set()
    for f in cp.fluents:
        m = re.search(r"_s(\d+)(?:_\d+)?$", f.name)
        if m:
            tags.add(int(m.group(1)))
    if len(tags) < len(uniq):
        res.count("basis_reduced")
    if len(tags) > len(uniq):
        viol(
            "state-enumeration:more-tags-than-possible-initial-states",
            f"the compiled problem has {len(tags)} state tags but only {len(uniq)} distinct possible initial states satisfy the input",
            tags=sorted(tags),
            possible_initial_states=[seqsem.show_state(s) for s in uniq],
        )
        return
    # ---- reference side -------------------------------------------------------------------------------------
    ospace, oidx = belief_space(pb, uniq)
    if len(ospace.insts) > 12:
        res.count("skipped_too_many_instances")
        return
    ref = conformant_bfs(ospace, oidx, max_beliefs=b["beliefs"])
    if ref.dontcare or ospace.dontcare_transitions or ospace.dontcare_goals:
        res.count("dontcare_case_reference_semantics")
        return
    # non-triviality: shortest plan of a single state that is not conformant
    nontrivial = False
    single_solvable = False
    if len(uniq) >= 2:
        for i0 in oidx:
            ex, hit = explore(ospace, max_states=2000, stop_at=lambda i: ospace.goal(i) is True, start=i0)
            if hit is not None:
                single_solvable = True
                ok, _ = run_conformant(ospace, oidx, ex.path_to(hit))
                if ok is False:
                    nontrivial = True
                    break
    if nontrivial:
        res.nt((h(rec), h(unc)))
    # ---- compiled side ----------------------------------------------------------------------------------------
    try:
        cspace = Space(cp)
    except Unsupported:
        res.count("skipped_compiled_problem_unsupported_by_oracle")
        return
    if len(cspace.insts) > 60:
        res.count("skipped_compiled_too_many_actions")
        return
    mapped = {}

    def map_back(ci):
        """compiled instance index -> original instance index | None (silent) | 'bad'"""
        if ci not in mapped:
            a, args = cspace.insts[ci]
            sp = SequentialPlan([ActionInstance(a, seqsem.param_exprs(cp, a, args))], cp.environment)
            bp = back(sp)
            acts = list(bp.actions)
            if not acts:
                mapped[ci] = None
            elif len(acts) == 1:
                oi = ospace.inst_of(acts[0].action.name, tuple(const_value(p) for p in acts[0].actual_parameters))
                mapped[ci] = "bad" if oi is None else oi
            else:
                mapped[ci] = "bad"
        return mapped[ci]

    try:
        for ci in range(len(cspace.insts)):
            if map_back(ci) == "bad":
                viol("back-conversion:unknown-action", f"compiled action {cspace.insts[ci][0].name} maps back to something that is not one ground action of the original")
                return
    except _env.INTERNAL_EXC as ex:
        viol(f"back-conversion-raises:{type(ex).__name__}", f"plan_back_conversion raised {ex!r} on a one-step plan")
        return
    sound = soundness(b, pb, cp, cspace, ospace, oidx, map_back, back, viol, res)
    if sound == "stop":
        return
    completeness(b, rec, pb, cp, cspace, ospace, oidx, uniq, keys, ref, map_back, viol, res, single_solvable, nontrivial)


def soundness(b, pb, cp, cspace, ospace, oidx, map_back, back, viol, res):
    """Paired BFS over (compiled state, original state per possible initial state | -1 once the mapped-back prefix failed)."""
    from collections import deque
    from unified_planning.plans import ActionInstance, SequentialPlan

    root = (cspace.root, tuple(oidx))
    parent = {root: None}
    depth = {root: 0}
    q = deque([root])
    goal_nodes = []
    capped = False
    while q:
        node = q.popleft()
        ci, os_ = node
        g = cspace.goal(ci)
        if g is None:
            res.count("dontcare_compiled_goal")
            return "stop"
        if g:
            goal_nodes.append(node)
            # a plan ends here; longer plans through a goal state are still explored
        if depth[node] >= b["depth"]:
            continue
        for ai in range(len(cspace.insts)):
            st, cj, _, _ = cspace.step(ci, ai)
            if st == DONTCARE:
                res.count("dontcare_compiled_transition")
                return "stop"
            if st != OKAY:
                continue
            oi = map_back(ai)
            if oi is None:
                nos = os_
            else:
                lst = []
                for s in os_:
                    if s == -1:
                        lst.append(-1)
                        continue
                    st2, sj, _, _ = ospace.step(s, oi)
                    if st2 == DONTCARE:
                        res.count("dontcare_case_reference_semantics")
                        return "stop"
                    lst.append(sj if st2 == OKAY else -1)
                nos = tuple(lst)
            nn = (cj, nos)
            if nn in parent:
                continue
            if len(parent) >= b["joint"]:
                capped = True
                continue
            parent[nn] = (node, ai)
            depth[nn] = depth[node] + 1
            q.append(nn)
    if capped:
        res.count("soundness_search_capped")
    res.count("compiled_goal_nodes", len(goal_nodes))
    # judge: the unsound ones first, then a sample of the others, all through the real plan_back_conversion
    def bad(n):
        return any(s == -1 or ospace.goal(s) is not True for s in n[1])

    order = sorted(goal_nodes, key=lambda n: (not bad(n), depth[n]))[: b["plans"]]
    for node in order:
        seq = []
        n = node
        while parent[n] is not None:
            n, ai = parent[n]
            seq.append(ai)
        seq.reverse()
        cplan = SequentialPlan([ActionInstance(cspace.insts[ai][0], seqsem.param_exprs(cp, *cspace.insts[ai])) for ai in seq], cp.environment)
        res.mon()
        try:
            oplan = back(cplan)
        except _env.INTERNAL_EXC as ex:
            viol(f"back-conversion-raises:{type(ex).__name__}", f"plan_back_conversion raised {ex!r}", compiled_plan=cspace.steps(seq))
            return "stop"
        oseq = []
        for ai_ in oplan.actions:
            oi = ospace.inst_of(ai_.action.name, tuple(const_value(p) for p in ai_.actual_parameters))
            if oi is None:
                viol("back-conversion:unknown-action", f"mapped-back plan contains {ai_} which is not a ground action of the original problem", compiled_plan=cspace.steps(seq))
                return "stop"
            oseq.append(oi)
        ok, detail = run_conformant(ospace, oidx, oseq)
        if ok is None:
            res.count("dontcare_case_reference_semantics")
            continue
        res.case()
        res.count("compiled_plans_judged")
        if any(map_back(ai) is None for ai in seq):
            res.count("compiled_plans_with_merge")
        if not ok:
            s_bad = ospace.states[oidx[detail["state"]]]
            viol(
                "unsound:" + detail.get("kind", "?"),
                f"compiled plan {cspace.steps(seq)} is valid for the compiled problem; mapped back to {ospace.steps(oseq)} it is "
                f"{'inapplicable at step %s' % detail.get('step') if detail.get('kind') == 'inapplicable' else 'not reaching the goals'} "
                f"from possible initial state {seqsem.show_state(s_bad)}",
                compiled_plan=cspace.steps(seq),
                mapped_back=ospace.steps(oseq),
                failing_initial_state=seqsem.show_state(s_bad),
                detail=detail,
            )
            return "stop"
    return "ok"


def completeness(b, rec, pb, cp, cspace, ospace, oidx, uniq, keys, ref, map_back, viol, res, single_solvable, nontrivial):
    res.mon()
    if ref.plan is None:
        if not ref.complete:
            res.count("reference_belief_search_capped")
            return
        res.case()
        res.count("no_conformant_plan")
        if single_solvable:
            res.count("no_conformant_plan_but_single_state_solvable")
        # (solvability of the compiled problem within the depth bound was already judged by the soundness search)
        return
    res.case()
    res.count("conformant_plan_exists")
    res.count(f"conformant_plan_length:{min(len(ref.plan), 4)}")
    silent = [ci for ci in range(len(cspace.insts)) if map_back(ci) is None]
    by_orig = {}
    for ci in range(len(cspace.insts)):
        oi = map_back(ci)
        if oi is not None:
            by_orig.setdefault(oi, []).append(ci)

    def closure(c, trace):
        changed = True
        while changed:
            changed = False
            for ci in silent:
                st, cj, _, _ = cspace.step(c, ci)
                if st == OKAY and cj != c:
                    c = cj
                    trace.append(ci)
                    changed = True
        return c

    furthest = [0]

    def construct(c, pos, trace):
        c = closure(c, trace)
        furthest[0] = max(furthest[0], pos)
        if pos == len(ref.plan):
            return trace if cspace.goal(c) is True else None
        for ci in by_orig.get(ref.plan[pos], []):
            st, cj, _, _ = cspace.step(c, ci)
            if st == OKAY:
                r = construct(cj, pos + 1, trace + [ci])
                if r is not None:
                    return r
        return None

    built = construct(cspace.root, 0, [])
    if built is not None:
        res.count("compiled_counterpart_constructed")
        if nontrivial:
            res.sample({"problem": rec, "possible_initial_states": [seqsem.show_state(s) for s in uniq], "conformant_plan": ospace.steps(ref.plan), "compiled_plan": cspace.steps(built), "verdict": "constructed"})
        return
    # fallback: exhaustive search of the compiled problem
    ex, hit = explore(cspace, max_states=b["fallback"], stop_at=lambda i: cspace.goal(i) is True)
    if hit is not None:
        res.count("compiled_counterpart_found_by_search_only")
        return
    if not ex.complete:
        res.count("completeness_fallback_search_capped")
        return
    # classify from the witness: the step of the conformant plan (or the goal) at which the constructed compiled plan gets
    # stuck, and whether its condition is disjunctive (DNF splitting makes every disjunct a separate action whose literals
    # must be known individually, so a disjunction that holds in every possible state only by cases is never derivable)
    pos = furthest[0]
    if pos < len(ref.plan):
        a, args = ospace.insts[ref.plan[pos]]
        exprs, what = list(a.preconditions), "precondition"
    else:
        exprs, what = list(pb.goals), "goal"
    mech = f"incomplete:disjunctive-{what}-needs-case-reasoning" if any(_disjunctive(e) for e in exprs) else f"incomplete:other:{what}"
    viol(
        mech,
        f"the reference finds the conformant plan {ospace.steps(ref.plan)} for the {len(uniq)} possible initial states, "
        f"but the compiled problem is unsolvable ({len(ex.order)} reachable states enumerated exhaustively)",
        conformant_plan=ospace.steps(ref.plan),
        possible_initial_states=[seqsem.show_state(s) for s in uniq],
    )


def thresholds(m):
    c = m["counters"]
    out = []
    req = [
        ("conformant_plan_exists", 10),
        ("no_conformant_plan_but_single_state_solvable", 10),
        ("compiled_plans_judged", 50),
        ("compiled_plans_with_merge", 10),
        ("basis_reduced", 5),
        ("mode:contingent", 20),
        ("mode:explicit", 50),
        ("feature:oneof", 5),
        ("feature:or", 5),
        ("feature:unknown", 5),
        ("feature:conditional-effect", 20),
        ("feature:forall-effect", 5),
        ("feature:disjunction", 10),
        ("feature:negation", 10),
        ("feature:directed-chain", 40),
        ("feature:chain-depth:2", 15),
        ("feature:chain-depth:3", 8),
        ("feature:first-state-has-early-atom-true", 8),
        ("feature:first-state-has-early-atom-false", 8),
        ("feature:oneof-negative-literal", 8),
        ("feature:or-negative-literal", 5),
    ]
    for k, n in req:
        if c.get(k, 0) < n:
            out.append(f"fewer than {n} observations of class {k} ({c.get(k, 0)})")
    if len(m["nontrivial"]) < 10:
        out.append("fewer than 10 distinct non-trivial (problem, state set) pairs")
    return out

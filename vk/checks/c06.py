"""C06 — compiler soundness: every valid plan of the compiled problem maps back to a valid plan of the original.

Directed monitor: the real compiler (or factory pipeline) is run on a generated problem of its supported kind; the reference
planner vk.ref.search enumerates *all* valid plans of the compiled problem up to a length bound; each is mapped back through
the library's `plan.replace_action_instances(result.map_back_action_instance)` and the result is judged on the original
problem by the reference semantics vk.ref.seqsem + PDDL3 trace semantics vk.ref.traj.

Thorough tier only: the same judge() also runs on the repository's example problems (run_corpus, harness run_corpus /
prepare_example), each shard taking its share of the examples after its generated cases."""
from vk import env as _env  # noqa: F401
from vk.core import h, simple_plan
from vk.mon import compilers_harness as H
from vk.mon import compilers_diag as D
from vk.ref import seqsem
from vk.ref.evalx import Unsupported
from vk.ref.search import plans, validate

PROPERTY = "C06"
LEVEL = "exploration"
TECHNIQUE = "runtime monitoring: exhaustive bounded plan enumeration of every compiled problem, library map-back, reference validation on the original"
LEVEL_TEXT = (
    "For every generated problem and every compiler / factory pipeline that accepts it, all plans of the compiled problem up to "
    "the length bound (found by an exhaustive reference search) are mapped back with the CompilerResult and validated against "
    "the original problem by an independent reference semantics; held on the executions observed, no claim beyond the "
    "generated grammar, the size caps and the length bound."
)
LEVEL_NOTE = (
    "Trusted: CPython, fractions, read-only accessors of the model classes, public constructors used by the recipes, and the "
    "oracles vk/ref/evalx.py, seqsem.py, traj.py, search.py. Validity of compiled plans is judged by the reference semantics "
    "(C01 ties the library's simulator to it). Plans whose judgement on either side falls into a don't-care class of the "
    "reference semantics (undefined reads that the docs leave open, assign+increase on one fluent, ...) are counted, not judged."
)
RULE = (
    "cases = (compiler or factory pipeline, generated problem recipe) with the compiler chosen round-robin over 10 compilers + 6 "
    "pipelines and the problem drawn from that compiler's profile (C01 grammar restricted by the library's own supports(), plus "
    "bias injections for the construct the compiler rewrites; goals re-targeted to a state reachable within the bound, and in "
    "part of the cases to a valuation of the shared fluents that only the *compiled* problem reaches within the bound). "
    "evaluations = compiled plans enumerated (length <= k, k+1 with a compiler-added goal action), mapped back and judged. "
    "distinct_nontrivial = distinct (compiler, problem) pairs with >= 1 judged compiled plan of length >= 2 that uses at least "
    "one action the compiler rewrote (structurally different from the action it maps back to, or a compiler-introduced action). "
    "Thorough tier, corpus part (counters corpus:*): every example problem of unified_planning.test.examples of class Problem "
    "inside the reference semantics (instantaneous actions only, no timed effects/goals, processes, simulated effects; size caps) "
    "x every compiler / pipeline whose supports() accepts its kind, compiled plans enumerated up to max(4, length of the "
    "example's shortest known valid plan) under node / plan / path caps and judged in the same way; witnesses carry 'example'."
)
ASSUMPTIONS = [
    "oracles vk/ref/seqsem.py, traj.py, search.py implement DESIGN §3.2/§3.3 faithfully; accessors of the model classes do not lie",
    "don't-care classes of the reference semantics are excluded on both sides (counted as *_dontcare)",
    "problems are capped in size (ground actions / fluents) and plans in length (k=3 quick, 4 thorough)",
]
SHARD_TIMEOUT = {"quick": 600, "thorough": 5400}
N = {"quick": 1600, "thorough": 51200}


def plan(tier, seed):
    return simple_plan(PROPERTY, tier, seed, N["quick"], N["thorough"], shards_quick=8, shards_thorough=16)


def run_shard(spec, res):
    for key in spec["cases"]:
        run_case(key, spec["tier"], res)
    if spec["tier"] == "thorough":
        # corpus part: this shard's share of the repository's example problems x every compiler / pipeline supporting them
        run_corpus(res, shard=spec["shard"], nshards=H.CORPUS_SHARDS)


def run_corpus(res, shard=0, nshards=1, only=None):
    """Soundness on the example corpus: the compiled example is searched exhaustively up to the length of the example's
    shortest known valid plan (node / plan / path caps, counted when hit); every compiled plan found is mapped back and
    judged on the example by the reference semantics - the very same judge() as for generated problems."""
    H.run_corpus(res, PROPERTY, lambda prep, ex, r: judge(prep, r), shard=shard, nshards=nshards, only=only)


def replay(witness, res):
    # from the final recipe stored in the witness (robust against later changes of the generators); the generated case key is
    # only used when a witness carries no recipe
    tier = witness.get("tier", "quick")
    if witness.get("example"):
        run_corpus(res, only=(witness["example"], witness["compiler"]))
    elif witness.get("recipe") and witness.get("compiler") in H.TARGETS:
        prep = H.prepare_from_recipe(witness["recipe"], witness["compiler"], witness["case_key"], tier, res)
        if prep is not None:
            judge(prep, res)
    else:
        run_case(witness["case_key"], tier, res)


def run_case(key, tier, res):
    prep = H.prepare(key, tier, res, PROPERTY, direct="c06")
    if prep is not None:
        judge(prep, res)


def judge(prep, res):
    key, tier = prep.key, prep.tier
    if prep is None or prep.result is None:
        return
    tn = prep.target.name  # in mechanism strings
    cn = prep.cprefix + tn  # in counters ("corpus:<compiler>" for the example-corpus part)
    b = prep.b
    res.count(cn + ":compiled")
    try:
        lab = H.labels(prep)
        kc = b["k"] + (1 if any(l is None for l in lab) else 0)
        ps = plans(prep.space_c, kc, max_plans=b["max_plans_c"])
    except Unsupported:
        res.count(cn + ":compiled_unsupported_by_oracle")
        return
    if prep.space_c.init_status != "ok":
        res.count(cn + ":compiled_initial_state_" + prep.space_c.init_status)
    if not ps.complete:
        res.count(cn + ":enumeration_truncated")
    if not ps.plans:
        res.count(cn + ":no_compiled_plan")
        return
    res.count(cn + ":with_compiled_plans")
    pid = h(prep.rec)
    nontrivial = False
    sampled = False
    for fp in ps.plans:
        res.mon()
        res.case()
        base = {**H.witness_base(prep), "compiled_plan": fp.names()}
        steps, err = H.map_back_plan(prep, fp)
        if err is not None:
            mech = f"{tn}:map-back-raises:" + err.split()[2].rstrip(":") if err.startswith("map-back raises") else f"{tn}:map-back-not-an-instance-of-an-original-action"
            res.violation(mech, f"{tn}: compiled plan {fp.names()} is valid for the compiled problem, but {err}", {**base, "expected": "a plan of the original problem", "observed": err})
            return
        try:
            verdict, info = validate(prep.pb, steps)
        except Unsupported:
            res.count(cn + ":plans_unsupported_by_oracle")
            continue
        if verdict == "dontcare":
            res.count(cn + ":plans_dontcare")
            res.count("dontcare:" + str(info.get("reason")))
            continue
        res.count(cn + ":plans_judged")
        if len(fp) >= 2 and H.rewritten_on_path(prep, fp, lab):
            nontrivial = True
        if len(steps) != len(fp):
            res.count(cn + ":plans_with_compiler_introduced_steps")
        if verdict == "invalid":
            info.pop("states", None)
            mech, culprit = D.unsound_mechanism(prep, fp)
            res.violation(
                mech,
                f"{tn}: compiled plan {fp.names()} is valid for the compiled problem but maps back to {H.step_names(steps)}, invalid for the original ({info.get('where')} {info.get('index', '')}: {info.get('reason')} {info.get('info', '')})",
                {**base, "culprit_stage": culprit, "goal_choice": prep.goal_tag, "mapped_plan": H.step_names(steps), "expected": "valid", "observed": {k: str(v) for k, v in info.items()}},
            )
            break
        if not sampled and len(fp) >= 2:
            sampled = True
            res.sample({"compiler": tn, "tags": prep.tags, "problem": prep.rec, "compiled_plan": fp.names(), "mapped_plan": H.step_names(steps), "verdict": "valid on the original"})
    if nontrivial:
        res.nt((tn, pid))
        res.count(cn + ":nontrivial_pairs")
    for t in prep.tags:
        res.count(f"tag:{cn}:{t}")


def thresholds(m):
    c = m["counters"]
    out = []
    need = 10
    for tn in H.TARGET_NAMES:
        n = c.get(tn + ":nontrivial_pairs", 0)
        if n < need:
            out.append(f"fewer than {need} non-trivial (compiler, problem) pairs for {tn} ({n})")
        comp = c.get(tn + ":compiled", 0)
        rej = sum(v for k, v in c.items() if k.startswith(tn + ":compile_rejected"))
        if comp + rej and rej > comp:
            out.append(f"more than 50% of the {tn} cases were rejected by the compiler ({rej} of {comp + rej})")
    # corpus part (thorough tier only): a run whose corpus part judged (almost) nothing is inconclusive
    out.extend(H.corpus_thresholds(c, ("plans_judged",)))
    return out


def extra_coverage(m):
    c = m["counters"]
    return {
        "per_compiler": {
            tn: {k[len(tn) + 1 :]: v for k, v in sorted(c.items()) if k.startswith(tn + ":")} for tn in H.TARGET_NAMES
        },
        "dont_care_counts": {k: v for k, v in c.items() if k.startswith("dontcare:")},
        "corpus": H.corpus_coverage(c),
    }

"""C36 — planning states behave like finite maps under any update history.

Part A (directed): random branching trees of UPState.make_child calls over <= 6 ground fluents (with per-fluent defaults,
per-type defaults and fluents without default) under ancestor limits 1, 2, 20, None.  Every state is read back through
get_value for every ground fluent and compared with an index-keyed dict-with-defaults shadow (vk/ref/statemap.py);
==/hash probes compare states reached by different histories.
Part B (universal monitor): the class-level monitor vk/mon/statemon.py stays installed (also during part A) and judges
every get_value/==/hash call the real UPSequentialSimulator makes on its states during random walks over generated
problems."""
from vk import env as _env  # noqa: F401
from vk.core import rng_for, simple_plan, h
from vk.ref import statemap
from vk.ref.statemap import Shadow, MISSING

PROPERTY = "C36"
LEVEL = "exploration"
TECHNIQUE = "runtime monitoring: dict-with-defaults shadow state per UPState (directed make_child trees + class-level universal monitor during simulator walks)"
LEVEL_TEXT = (
    "Every get_value / == / hash answer of real UPState objects observed along generated make_child trees (ancestor limits "
    "1, 2, 20, None) and along simulator random walks is compared with a finite-map-with-defaults shadow model; held on the "
    "executions observed, no claim beyond the generated histories."
)
LEVEL_NOTE = (
    "Trusted: CPython, FNode identity/hash, Problem.fluents_defaults (read-only accessor, cross-checked against the defaults "
    "the driver itself passed), vk/ref/statemap.py. Values are canonical constants (Int for int fluents, Real for real "
    "fluents, hazard H4). The ancestor limit is set by patching UPState.MAX_ANCESTORS (all levels honour it) or by a subclass "
    "(only the root honours it because make_child always builds plain UPState objects; counted, not judged)."
)
RULE = (
    "case = one generated tree: a problem with 2-6 ground fluents (Boolean/int/real/object, arity 0-1; per-fluent default, "
    "per-type default or no default), a root state and 50-120 (quick) / 50-500 (thorough) make_child calls with 0-3 updated "
    "fluents each (biased to reset-to-default and re-set), interleaved with hash/repr perturbations, equality probes against "
    "content-equal states of other histories and freshly built root states. evaluations = judged make_child read-backs + "
    "judged ==/hash probes + monitor-judged calls in simulator walks. distinct_nontrivial = distinct trees (hash of all "
    "operations) whose depth exceeds the ancestor limit and which contain >= 1 update resetting a non-default value to the "
    "fluent's default."
)
ASSUMPTIONS = [
    "oracle vk/ref/statemap.py is a plain dict overlay; FNode equality is identity within one environment",
    "all states compared with == belong to the same problem (same defaults); cross-problem comparisons are not judged",
    "only canonical constants are stored (no Int-vs-Real aliases of one number)",
]
SHARD_TIMEOUT = {"quick": 600, "thorough": 3600}

N_TREES = {"quick": 1600, "thorough": 9600}
N_WALKS = {"quick": 240, "thorough": 1600}
LIMITS = [1, 2, 20, None]


def plan(tier, seed):
    return simple_plan(PROPERTY, tier, seed, N_TREES["quick"] + N_WALKS["quick"], N_TREES["thorough"] + N_WALKS["thorough"])


def _kind_of(key, tier):
    i = int(key.rsplit(":", 1)[1])
    return ("tree", i) if i < N_TREES[tier] else ("walk", i - N_TREES[tier])


def run_shard(spec, res):
    if spec["tier"] == "thorough" and spec.get("shard") == 1:
        # the repository's own test-suite re-run with M-state installed: every UPState call made by the tests is judged
        from vk.mon import suite as _suite

        _suite.feed(res, PROPERTY, _suite.run_suite(("state",)), "state:judged")
    for key in spec["cases"]:
        run_case(key, spec["tier"], res)


def replay(witness, res):
    if witness.get("suite"):
        from vk.mon import suite as _suite

        _suite.replay_suite(res, PROPERTY, ("state",), "state:judged", witness)
        return
    run_case(witness["case_key"], witness.get("tier", "quick"), res)


def run_case(key, tier, res):
    kind, i = _kind_of(key, tier)
    if kind == "tree":
        run_tree(key, tier, i, res)
    else:
        run_walk(key, tier, i, res)


# ---------------------------------------------------------------------------------------------------------------------
class _Sink:
    """Adapter giving the universal monitor a witness context."""

    def __init__(self, res, base):
        self.res, self.base, self.fired = res, base, False

    def mon(self):
        self.res.mon()

    def case(self):
        self.res.case()

    def count(self, k):
        self.res.count(k)

    def violation(self, mech, summary, info):
        self.fired = True
        self.res.violation("monitor:" + mech, summary, {**self.base, "event": info})


def _lname(L):
    return "None" if L is None else str(L)


def build_world(rng, env):
    """Problem with a handful of ground fluents. Returns (problem, ground: [FNode], defaults: [FNode|None], pools: [[FNode]], descr)."""
    from unified_planning.model import Problem, Fluent, Object
    from collections import OrderedDict
    from fractions import Fraction

    em, tm = env.expression_manager, env.type_manager
    T = tm.UserType("T")
    objs = [Object(f"o{i}", T, env) for i in range(rng.choice([2, 2, 3]))]
    type_defaults = {}
    td_descr = {}
    if rng.random() < 0.5:
        type_defaults[tm.BoolType()] = em.Bool(rng.random() < 0.5)
        td_descr["bool"] = str(type_defaults[tm.BoolType()])
    if rng.random() < 0.35:
        type_defaults[tm.IntType()] = em.Int(rng.choice([0, 1]))
        td_descr["int"] = str(type_defaults[tm.IntType()])
    if rng.random() < 0.25:
        type_defaults[T] = em.ObjectExp(objs[0])
        td_descr["T"] = str(type_defaults[T])
    pb = Problem("c36", env, initial_defaults=type_defaults)
    pb.add_objects(objs)
    ground, defaults, pools, descr = [], [], [], []
    target = rng.randint(2, 6)
    fi = 0
    while len(ground) < target:
        tk = rng.choice(["bool", "bool", "int", "real", "obj"])
        if tk == "bool":
            t, pool = tm.BoolType(), [em.Bool(True), em.Bool(False)]
        elif tk == "int":
            t, pool = tm.IntType(), [em.Int(v) for v in (0, 1, 2, 3)]
        elif tk == "real":
            t, pool = tm.RealType(), [em.Real(Fraction(v)) for v in ("0", "1/2", "3/2")]
        else:
            t, pool = T, [em.ObjectExp(o) for o in objs]
        arity = 1 if (rng.random() < 0.35 and target - len(ground) >= len(objs)) else 0
        sig = OrderedDict([("x", T)]) if arity else OrderedDict()
        fl = Fluent(f"f{fi}", t, sig, env)
        fi += 1
        mode = rng.choice(["fluent", "fluent", "type", "none"])
        if mode == "fluent":
            d = rng.choice(pool)
            pb.add_fluent(fl, default_initial_value=d)
        else:
            pb.add_fluent(fl)
            d = type_defaults.get(t) if mode in ("type", "none") else None  # a per-type default always applies
        for args in ([(em.ObjectExp(o),) for o in objs] if arity else [()]):
            ground.append(em.FluentExp(fl, args))
            defaults.append(d)
            pools.append(pool)
            descr.append({"fluent": str(ground[-1]), "type": tk, "default": None if d is None else str(d)})
    return pb, ground, defaults, pools, {"fluents": descr, "type_defaults": td_descr}


def run_tree(key, tier, idx, res):
    from unified_planning.model.state import UPState
    from unified_planning.exceptions import UPStateMissingFluentError
    from vk.mon.statemon import StateMonitor

    rng = rng_for(key)
    env = _env.fresh_env()
    pb, ground, defaults, pools, descr = build_world(rng, env)
    n = len(ground)
    L = LIMITS[idx % 4]
    mode = "subclass" if (idx // 4) % 4 == 3 else "patched"
    n_ops = rng.randint(50, 120 if tier == "quick" else 500)
    ops = []  # human-readable history for the witness
    wbase = {"case_key": key, "tier": tier, "limit": _lname(L), "mode": mode, "world": descr}
    default_of = lambda i: defaults[i]  # noqa: E731
    universe = list(range(n))
    fired = [False]

    def viol(mech, summary, **w):
        fired[0] = True
        res.violation(mech, summary, {**wbase, "ops": ops[-60:], "n_ops_before": len(ops), **w})

    # cross-check the only library accessor the oracle of the monitor relies on
    for gi, g in enumerate(ground):
        lib_d = pb.fluents_defaults.get(g.fluent())
        if lib_d is not defaults[gi]:
            res.count("dontcare_defaults_accessor_disagrees")
            return

    def to_lib(upd):
        return {ground[i]: pools[i][vi] for i, vi in upd.items()}

    def sh_updates(upd):
        return {i: pools[i][vi] for i, vi in upd.items()}

    def rand_updates(parent_sh, k):
        upd = {}
        resets = 0
        for i in rng.sample(universe, min(k, n)):
            d = defaults[i]
            cur = statemap.value(parent_sh, i, default_of)
            if d is not None and rng.random() < 0.4:
                vi = pools[i].index(d)
                if cur is not d:
                    resets += 1
            else:
                vi = rng.randrange(len(pools[i]))
                if d is not None and pools[i][vi] is d and cur is not d:
                    resets += 1
            upd[i] = vi
        return upd, resets

    sink = _Sink(res, wbase)
    monitor = StateMonitor(sink)
    saved_limit = UPState.__dict__["MAX_ANCESTORS"]
    cls = UPState
    if mode == "subclass":
        cls = type("LimitedState", (UPState,), {"MAX_ANCESTORS": L})
    try:
        monitor.install()
        if mode == "patched":
            UPState.MAX_ANCESTORS = L
        # ---- root ------------------------------------------------------------------------------------------------
        upd0, _ = rand_updates(Shadow({}), rng.choice([0, 1, 2, 3, n]))
        ops.append(["root", {str(ground[i]): str(pools[i][v]) for i, v in upd0.items()}])
        try:
            root = cls(to_lib(upd0), pb)
        except Exception as e:
            viol(f"constructor-raises:{type(e).__name__}", f"UPState(values, problem) raised {e!r}")
            return
        nodes = [(root, Shadow(sh_updates(upd0), 0, ("root", tuple(sorted(upd0.items())))))]
        by_content = {}

        def content_key(sh):
            eff = statemap.effective(sh, universe, default_of)
            return tuple(sorted((i, pools[i].index(v)) for i, v in eff.items()))

        def readback(j, why):
            st, sh = nodes[j]
            for i in universe:
                exp = statemap.value(sh, i, default_of)
                res.mon()
                try:
                    got = st.get_value(ground[i])
                except UPStateMissingFluentError:
                    got = MISSING
                except Exception as e:
                    viol(f"get_value-raises:{type(e).__name__}", f"get_value({ground[i]}) on node {j} raised {e!r}", node=j)
                    return False
                if exp is MISSING:
                    res.count("get_value_missing_expected")
                if got is not exp:
                    cls_ = "stale-ancestor-value" if any(got is s.vals.get(i) for _, s in nodes[:j]) else "other"
                    if exp is MISSING:
                        mech = "get_value-returns-for-missing-fluent"
                    elif got is MISSING:
                        mech = "get_value-raises-missing-but-value-expected"
                    else:
                        mech = "get_value-mismatch:" + ("reset-to-default-lost" if exp is defaults[i] else cls_)
                    viol(
                        mech,
                        f"{why}: node {j} (depth {sh.depth}, limit {_lname(L)}/{mode}) get_value({ground[i]}) = {got}, finite-map model says {exp}",
                        node=j,
                        fluent=str(ground[i]),
                        expected=str(exp),
                        observed=str(got),
                    )
                    return False
            return True

        def probe_eq(j, k, why):
            (a, sa), (b, sb) = nodes[j], nodes[k]
            exp = statemap.equal(sa, sb, default_of, universe)
            res.mon()
            res.case()
            try:
                got = a == b
                got_rev = b == a
                ha, hb = hash(a), hash(b)
            except Exception as e:
                viol(f"eq-or-hash-raises:{type(e).__name__}", f"{why}: comparing nodes {j},{k} raised {e!r}", nodes=[j, k])
                return False
            diff_hist = sa.hist != sb.hist
            if exp:
                res.count("eq_probe_equal_contents")
                if j != k and diff_hist:
                    res.count("eq_probe_equal_contents_different_histories")
                    res.count("eq_probe_equal_diffhist:limit=" + _lname(L))
            else:
                res.count("eq_probe_different_contents")
            if bool(got) != exp or bool(got_rev) != exp:
                viol(
                    "eq-mismatch:" + ("equal-contents-compare-unequal" if exp else "different-contents-compare-equal"),
                    f"{why}: nodes {j} and {k}: == gives {got}/{got_rev}, the finite-map model says {exp}",
                    nodes=[j, k],
                    left=str(statemap.effective(sa, universe, default_of)),
                    right=str(statemap.effective(sb, universe, default_of)),
                )
                return False
            if exp and ha != hb:
                viol("hash-differs-for-equal-states", f"{why}: nodes {j} and {k} are equal but hash to {ha} / {hb}", nodes=[j, k])
                return False
            return True

        res.case()
        if not readback(0, "root"):
            return
        by_content.setdefault(content_key(nodes[0][1]), []).append(0)
        total_resets = 0
        max_depth = 0
        tip = 0  # most recently created child (fresh root-like states do not move it)
        for step in range(n_ops):
            x = rng.random()
            if x < 0.6:
                pj = tip
            elif x < 0.8:
                pj = rng.randrange(max(0, len(nodes) - 5), len(nodes))
            else:
                pj = rng.randrange(len(nodes))
            parent, psh = nodes[pj]
            # perturbations that condense / cache inside the parent before it gets a child
            y = rng.random()
            if y < 0.15:
                ops.append(["hash", pj])
                res.count("perturb_hash_before_child")
                try:
                    hash(parent)
                except Exception as e:
                    viol(f"hash-raises:{type(e).__name__}", f"hash(node {pj}) raised {e!r}", node=pj)
                    return
            elif y < 0.2:
                ops.append(["repr", pj])
                repr(parent)
            upd, resets = rand_updates(psh, rng.choice([0, 1, 1, 1, 2, 2, 3]))
            ops.append(["child", pj, {str(ground[i]): str(pools[i][v]) for i, v in upd.items()}])
            arg = to_lib(upd)
            arg_copy = dict(arg)
            try:
                child = parent.make_child(arg)
            except Exception as e:
                viol(f"make_child-raises:{type(e).__name__}", f"make_child on node {pj} raised {e!r}", node=pj)
                return
            if arg != arg_copy:
                viol("make_child-mutates-argument", f"make_child changed its updated_values argument on node {pj}", node=pj)
                return
            csh = psh.child(sh_updates(upd), tuple(sorted(upd.items())))
            nodes.append((child, csh))
            cj = len(nodes) - 1
            tip = cj
            total_resets += resets
            max_depth = max(max_depth, csh.depth)
            if resets:
                res.count("reset_to_default_updates", resets)
            if mode == "subclass" and type(child) is not cls:
                res.count("observation:subclass_child_is_plain_UPState")
            res.case()
            if not readback(cj, "after make_child"):
                return
            if rng.random() < 0.35:
                if not readback(pj, "parent after make_child"):
                    return
            if rng.random() < 0.15:
                if not readback(rng.randrange(len(nodes)), "old node"):
                    return
            ck = content_key(csh)
            same = [j for j in by_content.get(ck, []) if nodes[j][1].hist != csh.hist]
            by_content.setdefault(ck, []).append(cj)
            z = rng.random()
            if same and z < 0.7:
                if not probe_eq(cj, rng.choice(same), "content-equal probe"):
                    return
            elif z < 0.85:
                if not probe_eq(cj, rng.randrange(len(nodes)), "random probe"):
                    return
            if rng.random() < 0.12:
                # a state with the same contents built in one step: explicit values for everything that has a value
                eff = statemap.effective(csh, universe, default_of)
                full = {i: pools[i].index(v) for i, v in eff.items() if rng.random() < 0.8 or v is not defaults[i]}
                ops.append(["fresh-root-like", cj])
                try:
                    fresh = UPState(to_lib(full), pb)
                except Exception as e:
                    viol(f"constructor-raises:{type(e).__name__}", f"UPState(values, problem) raised {e!r}")
                    return
                nodes.append((fresh, Shadow(sh_updates(full), 0, ("root", tuple(sorted(full.items()))))))
                fj = len(nodes) - 1
                by_content.setdefault(content_key(nodes[fj][1]), []).append(fj)
                if not readback(fj, "fresh root") or not probe_eq(cj, fj, "fresh-root probe"):
                    return
            if sink.fired:
                return
        # final sweep: every node still answers like its shadow (condensation of descendants must not disturb ancestors)
        for j in rng.sample(range(len(nodes)), min(12, len(nodes))):
            if not readback(j, "final sweep"):
                return
        lim = 0 if L is None else L
        res.count("trees:limit=" + _lname(L) + ":" + mode)
        if max_depth > lim:
            res.count("trees_deeper_than_limit:limit=" + _lname(L))
        if max_depth > lim and total_resets > 0 and not fired[0] and not sink.fired:
            res.nt(("tree", h(ops)))
            res.count("nontrivial:limit=" + _lname(L))
            if mode == "patched":
                res.count("nontrivial_patched:limit=" + _lname(L))
        if idx < 4:
            res.sample({"limit": _lname(L), "mode": mode, "world": descr, "first_ops": ops[:6], "n_ops": len(ops), "max_depth": max_depth, "resets": total_resets, "verdict": "agree"})
    finally:
        if mode == "patched":
            UPState.MAX_ANCESTORS = saved_limit
        monitor.uninstall()


# ---------------------------------------------------------------------------------------------------------------------
WALK_PROFILE = dict(undefined_init=0.15, invariants=0.1, interpreted_functions=0.0)


def run_walk(key, tier, idx, res):
    """Universal-monitor workload: random walk of the real sequential simulator with M-state installed."""
    from unified_planning.model.state import UPState
    from unified_planning.engines.sequential_simulator import UPSequentialSimulator
    from unified_planning.exceptions import UPException
    from vk.gen.problem import gen_problem
    from vk.recipe import instantiate_problem
    from vk.ref import seqsem
    from vk.ref.evalx import Unsupported
    from vk.mon.statemon import StateMonitor

    rng = rng_for(key)
    rec, feats = gen_problem(rng, WALK_PROFILE)
    env = _env.fresh_env()
    try:
        pb, ctx = instantiate_problem(rec, env)
    except UPException:
        res.count("walk_rejected_at_build")
        return
    if not UPSequentialSimulator.supports(pb.kind):
        res.count("walk_rejected_unsupported_kind")
        return
    try:
        insts = seqsem.all_instances(pb)[:40]
    except Unsupported:
        res.count("walk_skipped_unsupported")
        return
    L = LIMITS[idx % 4]
    wbase = {"case_key": key, "tier": tier, "limit": _lname(L), "recipe": rec}
    sink = _Sink(res, wbase)
    monitor = StateMonitor(sink)
    saved_limit = UPState.__dict__["MAX_ANCESTORS"]
    try:
        monitor.install()
        UPState.MAX_ANCESTORS = L
        try:
            sim = UPSequentialSimulator(pb)
            st = sim.get_initial_state()
        except UPException:
            res.count("walk_rejected_by_simulator")
            return
        except _env.INTERNAL_EXC:
            res.count("walk_simulator_internal_error(not C36)")
            return
        visited = [st]
        steps = 0
        for _ in range(30):
            order = list(insts)
            rng.shuffle(order)
            nxt = None
            for a, args in order[:12]:
                pex = seqsem.param_exprs(pb, a, args)
                try:
                    ns = sim.apply(st, a, pex)
                except UPException:
                    ns = None
                except _env.INTERNAL_EXC:
                    res.count("walk_simulator_internal_error(not C36)")
                    ns = None
                if ns is not None:
                    nxt = ns
                    break
            if nxt is None:
                break
            steps += 1
            # equality / hash probes between states of the walk (judged by the monitor)
            other = rng.choice(visited)
            try:
                _ = nxt == other
                _ = {nxt: 1}.get(other)
            except Exception as e:
                res.violation(f"eq-or-hash-raises:{type(e).__name__}", f"state comparison raised {e!r} during a simulator walk", {**wbase, "step": steps})
                return
            visited.append(nxt)
            st = nxt
            if sink.fired:
                return
        res.count("walk_steps", steps)
        res.count("walks:limit=" + _lname(L))
        if steps > (0 if L is None else L):
            res.count("walks_deeper_than_limit:limit=" + _lname(L))
    finally:
        UPState.MAX_ANCESTORS = saved_limit
        monitor.uninstall()


# ---------------------------------------------------------------------------------------------------------------------
def thresholds(m):
    c = m["counters"]
    out = []
    for L in ("1", "2", "20", "None"):
        if c.get("nontrivial_patched:limit=" + L, 0) < 10:
            out.append(f"fewer than 10 non-trivial trees (deeper than the limit, with a reset-to-default) under ancestor limit {L}")
        if c.get("eq_probe_equal_diffhist:limit=" + L, 0) < 10:
            out.append(f"fewer than 10 equality probes between content-equal states of different histories under limit {L}")
    for k, n in (
        ("eq_probe_equal_contents_different_histories", 50),
        ("eq_probe_different_contents", 50),
        ("get_value_missing_expected", 50),
        ("reset_to_default_updates", 100),
        ("perturb_hash_before_child", 20),
        ("mon:get_value", 200),
        ("mon:make_child", 50),
        ("walk_steps", 50),
    ):
        if c.get(k, 0) < n:
            out.append(f"fewer than {n} observations of {k} ({c.get(k, 0)})")
    if len(m["nontrivial"]) < 40:
        out.append("fewer than 40 distinct non-trivial trees")
    return out

"""C07 — compiler completeness: every valid original plan of length <= k has a compiled counterpart of length <= k
(k+1 when the compiler adds a goal-achieving action) that maps back to it.

Directed monitor: the real compiler (or factory pipeline) is run on a generated problem; vk.ref.search enumerates the valid
plans of the *original*; for each, a guided reference search of the compiled problem (only instances whose library map-back
equals the next original step, or is None) looks for the counterpart.  Equality is modulo original steps that leave the
state unchanged (hazard H6).  A violation is declared only if the guided search failed *and* an exhaustive bounded search
of the compiled problem completed, untainted by don't-care successors, without a counterpart.

Thorough tier only: the same judge() also runs on the repository's example problems with their known valid plans in the
place of the enumerated ones (run_corpus, harness run_corpus / prepare_example / known_plans)."""
from vk import env as _env  # noqa: F401
from vk.core import h, simple_plan
from vk.mon import compilers_harness as H
from vk.mon import compilers_diag as D
from vk.ref import seqsem
from vk.ref.evalx import Unsupported
from vk.ref.search import guided, plans, validate

PROPERTY = "C07"
LEVEL = "exploration"
TECHNIQUE = "runtime monitoring: exhaustive bounded enumeration of original plans, guided + exhaustive reference search for the compiled counterpart through the library's map-back"
LEVEL_TEXT = (
    "For every generated problem and every compiler / factory pipeline that accepts it, all valid plans of the original problem "
    "up to the length bound (exhaustive reference search) are required to have a valid compiled plan within the bound whose "
    "library map-back equals them modulo no-op steps; held on the executions observed, no claim beyond the generated grammar, "
    "the size caps and the length bound."
)
LEVEL_NOTE = (
    "Trusted: CPython, fractions, read-only accessors of the model classes, public constructors used by the recipes, and the "
    "oracles vk/ref/evalx.py, seqsem.py, traj.py, search.py. A missing counterpart is only reported after an exhaustive search "
    "of the compiled problem that hit neither its node cap nor a don't-care successor of the reference semantics."
)
RULE = (
    "cases = (compiler or factory pipeline, generated problem recipe) as in C06 (round-robin over 10 compilers + 6 pipelines, "
    "per-compiler profile inside the library's supports(), bias injections, goals re-targeted to reachable states, and in part "
    "of the cases to a valuation of the shared fluents that only the *original* problem reaches within the bound). "
    "evaluations = valid original plans (length <= k) for which the compiled counterpart was searched. "
    "distinct_nontrivial = distinct (compiler, problem, original plan) with plan length >= 1, judged (found or exhaustively "
    "refuted), where the compiled problem is structurally different from the original (some action rewritten / added / dropped). "
    "Thorough tier, corpus part (counters corpus:*): every example problem of unified_planning.test.examples of class Problem "
    "inside the reference semantics (instantaneous actions only, no timed effects/goals, processes, simulated effects; size caps) "
    "x every compiler / pipeline whose supports() accepts its kind; the original plans are the example's known valid sequential "
    "plans, each first confirmed valid by the reference semantics (others counted and skipped); witnesses carry 'example'."
)
ASSUMPTIONS = [
    "oracles vk/ref/seqsem.py, traj.py, search.py implement DESIGN §3.2/§3.3 faithfully; accessors of the model classes do not lie",
    "plans are compared modulo original steps that leave the state unchanged (H6); cases whose compiled search meets a don't-care successor or the node cap are skipped (counted)",
    "problems are capped in size (ground actions / fluents) and plans in length (k=3 quick, 4 thorough)",
]
SHARD_TIMEOUT = {"quick": 600, "thorough": 5400}
N = {"quick": 1600, "thorough": 51200}


def plan(tier, seed):
    return simple_plan(PROPERTY, tier, seed, N["quick"], N["thorough"], shards_quick=8, shards_thorough=16)


def run_shard(spec, res):
    for key in spec["cases"]:
        run_case(key, spec["tier"], res)
    if spec["tier"] == "thorough":
        # corpus part: this shard's share of the repository's example problems x every compiler / pipeline supporting them
        run_corpus(res, shard=spec["shard"], nshards=H.CORPUS_SHARDS)


def run_corpus(res, shard=0, nshards=1, only=None):
    """Completeness on the example corpus: each known valid sequential plan of an example (a plan of the *original*), once
    confirmed valid by the reference semantics, must have a compiled counterpart - the very same judge() as for generated
    problems, with the known plans in the place of the enumerated ones."""
    H.run_corpus(res, PROPERTY, lambda prep, ex, r: judge(prep, r, given=H.known_plans(prep, ex, r)), shard=shard, nshards=nshards, only=only)


def replay(witness, res):
    # from the final recipe stored in the witness (robust against later changes of the generators); the generated case key is
    # only used when a witness carries no recipe
    tier = witness.get("tier", "quick")
    if witness.get("example"):
        run_corpus(res, only=(witness["example"], witness["compiler"]))
    elif witness.get("recipe") and witness.get("compiler") in H.TARGETS:
        prep = H.prepare_from_recipe(witness["recipe"], witness["compiler"], witness["case_key"], tier, res)
        if prep is not None:
            judge(prep, res)
    else:
        run_case(witness["case_key"], tier, res)


def _strip(steps, noop):
    return [s for s, n in zip(steps, noop) if not n]


def _noops(sids):
    return [sids[i] == sids[i + 1] for i in range(len(sids) - 1)]


def diagnose(prep, pi, skippable, by_label, none_idx):
    """Where does the counterpart break? (mechanism string only)"""
    sp = prep.space_c
    frontier = {sp.s0}

    def close(fr):
        # compiler-introduced (map-back None) steps may be interleaved anywhere
        out, todo = set(fr), list(fr)
        while todo:
            sid = todo.pop()
            for i in none_idx:
                st, nid, _ = sp.step(sid, i)
                if st == "ok" and nid not in out:
                    out.add(nid)
                    todo.append(nid)
        return out

    for j, lab in enumerate(pi):
        frontier = close(frontier)
        cands = by_label.get(lab, [])
        nxt = set()
        reasons = set()
        for sid in frontier:
            for i in cands:
                st, nid, sc = sp.step(sid, i)
                if st == "ok":
                    nxt.add(nid)
                elif sc is not None:
                    reasons.add(str(sc.reason))
        if not nxt:
            if skippable[j]:
                continue
            a = prep.pb.action(lab[0])
            feats = []
            if a.conditional_effects:
                feats.append(f"{len(a.conditional_effects)}-conditional-effects")
            if not cands:
                return f"no-compiled-instance-maps-back-to-step", j, feats
            return "all-variants-inapplicable:" + ",".join(sorted(reasons)), j, feats
        frontier = nxt
    frontier = close(frontier)
    goals = {sp.goal(s) for s in frontier}
    if True not in goals:
        return "goal-unsatisfied-after-counterpart-steps", len(pi), []
    return "trajectory-constraints-or-length-bound", len(pi), []


def run_case(key, tier, res):
    prep = H.prepare(key, tier, res, PROPERTY, direct="c07")
    if prep is not None:
        judge(prep, res)


def judge(prep, res, given=None):
    """given: the original plans to judge (FoundPlans of prep.space_o already confirmed valid by the reference semantics -
    corpus part); None = all valid original plans within the bound (generated part)."""
    key, tier = prep.key, prep.tier
    if prep is None:
        return
    tn = prep.target.name  # in mechanism strings
    cn = prep.cprefix + tn  # in counters ("corpus:<compiler>" for the example-corpus part)
    b = prep.b
    if given is not None:
        po_plans = list(given)
    else:
        try:
            po_plans = plans(prep.space_o, b["k"], max_plans=b["max_plans_o"]).plans
        except Unsupported:
            res.count(cn + ":original_unsupported_by_oracle")
            return
    base = H.witness_base(prep)
    if prep.result is None:
        # documented rejection; a rejection that *claims unsolvability* is a completeness statement
        msg = str(prep.rejected)
        if "NOT SOLVABLE" in msg and po_plans:
            res.mon()
            res.case()
            kind = "always" if "always" in msg else ("sometime-before" if "sometime-before" in msg else "other")
            res.violation(
                f"{tn}:rejects-as-unsolvable-but-original-has-valid-plan:{kind}",
                f"{tn} raised {type(prep.rejected).__name__}({msg!r}) but the original problem has the valid plan {po_plans[0].names()}",
                {**base, "original_plan": po_plans[0].names(), "expected": "a compiled problem with a counterpart plan", "observed": msg},
            )
        return
    res.count(cn + ":compiled")
    if not po_plans:
        res.count(cn + ":no_original_plan")
        return
    res.count(cn + ":with_original_plans")
    try:
        lab = H.labels(prep)
    except Unsupported:
        res.count(cn + ":compiled_unsupported_by_oracle")
        return
    sp_c = prep.space_c
    different = any(l is None or l[0] == "?" or sp_c.instances[i][0] != prep.pb.action(l[0]) for i, l in enumerate(lab)) or len(
        {l for l in lab if l}
    ) != len(prep.space_o.instances)
    pid = h(prep.rec)
    sampled = False
    for fp in po_plans:
        pi = [(a.name, args) for a, args in fp.steps]
        skippable = _noops(fp.sids)
        if tn == "uinr":
            # documented over-approximation of this compiler (class docstring): the tracker of an undefined numeric fluent is
            # required wherever the fluent is *used* by the action, evaluated or not.  Original plans that execute an action
            # mentioning an undefined numeric fluent in a place the semantics does not evaluate are not judged.
            try:
                if any(H.syntactic_undefined_numeric_read(prep.pb, s, a, args) for s, (a, args) in zip(fp.states, fp.steps)):
                    res.count(cn + ":dontcare_unevaluated_use_of_undefined_numeric_fluent")
                    continue
            except Unsupported:
                continue
        res.mon()
        res.case()
        try:
            found, complete, by_label, none_idx, kmax = D.search_counterpart(sp_c, lab, pi, skippable)
        except Unsupported:
            res.count(cn + ":compiled_unsupported_by_oracle")
            return
        if found is not None:
            res.count(cn + ":counterpart_found")
            if len(pi) >= 1 and different:
                res.nt((tn, pid, fp.idx))
                res.count(cn + ":nontrivial_plans")
            if not sampled and len(pi) >= 2 and different:
                sampled = True
                res.sample({"compiler": tn, "tags": prep.tags, "problem": prep.rec, "original_plan": fp.names(), "compiled_counterpart": found.names(), "verdict": "counterpart found"})
            continue
        if not complete:
            res.count(cn + ":skipped_too_large")
            continue
        # exhaustive confirmation (also protects against a map-back that is not a function of the single instance)
        try:
            pc = plans(sp_c, kmax, max_plans=4000)
        except Unsupported:
            res.count(cn + ":compiled_unsupported_by_oracle")
            return
        if not pc.complete:
            res.count(cn + ":skipped_too_large")
            continue
        target = _strip(pi, skippable)
        hit = None
        for cpl in pc.plans:
            steps, err = H.map_back_plan(prep, cpl)
            if err is not None:
                continue
            sig = [(a.name, args) for a, args in steps]
            if sig == pi:
                hit = cpl
                break
            try:
                st, states, _, _ = seqsem.run_plan(prep.pb, steps)
            except Unsupported:
                continue
            if st == seqsem.OKAY:
                fz = [seqsem.freeze(s) for s in states]
                if _strip(sig, [fz[i] == fz[i + 1] for i in range(len(sig))]) == target:
                    hit = cpl
                    break
        if hit is not None:
            res.count(cn + ":counterpart_found_by_exhaustive_search_only")
            continue
        if sp_c.tainted:
            res.count(cn + ":skipped_compiled_search_tainted_by_dontcare")
            for r in sp_c.taint:
                res.count("dontcare:" + r)
            continue
        if len(pi) >= 1 and different:
            res.nt((tn, pid, fp.idx))
            res.count(cn + ":nontrivial_plans")
        stage, j, feats = diagnose(prep, pi, skippable, by_label, none_idx)
        mech, culprit = D.incomplete_mechanism(prep, fp, pi, skippable, stage, j)
        res.violation(
            mech,
            f"{tn}: original plan {fp.names()} is valid, but the compiled problem has no valid plan of length <= {kmax} mapping back to it (exhaustive search: {len(pc.plans)} compiled plans, {sp_c.nodes} nodes; breaks at original step {j}: {stage})",
            {
                **base,
                "original_plan": fp.names(),
                "noop_steps": skippable,
                "culprit_stage": culprit,
                "goal_choice": prep.goal_tag,
                "expected": f"a valid compiled plan of length <= {kmax} mapping back to the original plan",
                "observed": {"compiled_plans_within_bound": [p.names() for p in pc.plans[:10]], "break": [stage, j]},
            },
        )
        return
    for t in prep.tags:
        res.count(f"tag:{cn}:{t}")


def thresholds(m):
    c = m["counters"]
    out = []
    need = 20
    for tn in H.TARGET_NAMES:
        n = c.get(tn + ":nontrivial_plans", 0)
        if n < need:
            out.append(f"fewer than {need} non-trivial original plans judged for {tn} ({n})")
        comp = c.get(tn + ":compiled", 0)
        rej = sum(v for k, v in c.items() if k.startswith(tn + ":compile_rejected"))
        if comp + rej and rej > comp:
            out.append(f"more than 50% of the {tn} cases were rejected by the compiler ({rej} of {comp + rej})")
    # corpus part (thorough tier only): a run whose corpus part judged (almost) nothing is inconclusive
    out.extend(H.corpus_thresholds(c, ("counterpart_found", "counterpart_found_by_exhaustive_search_only")))
    return out


def extra_coverage(m):
    c = m["counters"]
    return {
        "per_compiler": {tn: {k[len(tn) + 1 :]: v for k, v in sorted(c.items()) if k.startswith(tn + ":")} for tn in H.TARGET_NAMES},
        "dont_care_counts": {k: v for k, v in c.items() if k.startswith("dontcare:")},
        "corpus": H.corpus_coverage(c),
    }

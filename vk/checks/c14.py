"""C14 — shared environment walkers are history-independent, even after failures.

Shadow execution: a generated history of walker calls runs on ONE long-lived environment A; every call is re-executed on a
fresh environment B_i built from the same recipe; canonical results (or exception classes) must agree call by call.
A class-level wrapper on DagWalker.walk additionally checks that no walker keeps pending work after a top-level walk
returned or raised (quiescence)."""
from vk import env as _env  # noqa: F401
from vk.canon import canon_value
from vk.core import rng_for, simple_plan
from vk.gen.expr import ExprWorld, instantiate_world
from vk.ref.evalx import Unsupported

PROPERTY = "C14"
LEVEL = "exploration"
TECHNIQUE = "runtime monitoring: shadow execution of every walker call of a long-lived environment in a fresh environment, with natural mid-walk faults; quiescence hook on DagWalker.walk"
LEVEL_TEXT = (
    "Random histories (30-120 calls) of simplify / substitute / type inference / free-variable and fluent extraction / name extraction / quantifier "
    "removal / expression construction are executed on one long-lived environment; 10-25% of the calls fail mid-walk for natural reasons (substitution "
    "or construction dividing by zero, ill-typed equality, an interpreted function that raises, incompatible substitution map). Each call's canonical "
    "result or exception class is compared with the same call on a fresh environment; after every top-level DagWalker.walk (returning or raising) the "
    "walker's work stack must be empty. Held on the histories observed."
)
LEVEL_NOTE = "Trusted: vk/canon.py (canonical form), the recipe instantiation; a fresh Environment() is taken as the history-free reference."
RULE = (
    "cases = call histories over a generated world; evaluations = calls compared; distinct_nontrivial = distinct histories containing >= 1 faulted call "
    "followed by >= 1 successful call on an expression sharing a sub-expression with the faulted one."
)
ASSUMPTIONS = ["injected faults (sys.monitoring LINE failpoints) are raised only inside DagWalker._compute_node_result, where a walker callback can raise in reality", "results are compared through a structural canonical form across environments"]
BOUNDS = {"quick": dict(n=160, lo=30, hi=60), "thorough": dict(n=6000, lo=40, hi=120)}


def plan(tier, seed):
    b = BOUNDS[tier]
    return simple_plan(PROPERTY, tier, seed, b["n"], b["n"])


def run_shard(spec, res):
    if spec["tier"] == "thorough" and spec["shard"] == 1:
        # the repository's own test-suite re-run with the universal monitor installed (DESIGN §4): every internal call is judged
        from vk.mon import suite as _suite

        _suite.feed(res, PROPERTY, _suite.run_suite(("quiescent",)), "M-quiescent:walks")
    q = Quiescence(res)
    q.install()
    try:
        for key in spec["cases"]:
            try:
                run_case(key, spec["tier"], res, q)
            except Unsupported:
                res.count("skipped_unsupported_by_oracle")
    finally:
        q.uninstall()


def replay(witness, res):
    if witness.get("suite"):
        from vk.mon import suite as _suite

        _suite.replay_suite(res, PROPERTY, ("quiescent",), "M-quiescent:walks", witness)
        return
    q = Quiescence(res)
    q.install()
    try:
        run_case(witness["case_key"], witness.get("tier", "quick"), res, q)
    finally:
        q.uninstall()


class Quiescence:
    """Pass-through wrapper on DagWalker.walk: after a top-level walk of a walker instance (return or raise) its stack is empty."""

    def __init__(self, res):
        self.res = res
        self.depth = {}
        self.current_case = None
        self.pending = []

    def install(self):
        from unified_planning.model.walkers.dag import DagWalker

        self.cls = DagWalker
        self.orig = DagWalker.walk
        mon = self

        def walk(w, expression, **kwargs):
            k = id(w)
            mon.depth[k] = mon.depth.get(k, 0) + 1
            raised = False
            try:
                return mon.orig(w, expression, **kwargs)
            except BaseException:
                raised = True
                raise
            finally:
                mon.depth[k] -= 1
                if mon.depth[k] == 0:
                    del mon.depth[k]
                    mon.res.mon()
                    mon.res.count("walks_observed")
                    if raised:
                        mon.res.count("raising_walks_observed")
                    if w.stack:
                        mon.pending.append((type(w).__name__, raised, len(w.stack)))

        DagWalker.walk = walk

    def uninstall(self):
        self.cls.walk = self.orig


def subterm_recipes(e, out=None):
    if out is None:
        out = []
    if isinstance(e, list) and e and isinstance(e[0], str):
        if e[0] not in ("b", "i", "r", "o", "p", "v"):
            out.append(e)
        start = 2 if e[0] in ("f", "if", "exists", "forall") else 1
        for a in e[start:]:
            subterm_recipes(a, out)
    return out


def gen_history(w, rng, n):
    """list of ops: dict(kind, e, m?, fault?)"""
    ops = []
    NZ = ["p", "nz"]
    objs = w.g.objects
    recent_fault_terms = []
    for i in range(n):
        x = rng.random()
        if x < 0.16:
            # faulted call
            fk = rng.choice(["subst-div0", "construct-bad-eq", "simplify-boom", "subst-incompatible", "construct-bad-plus", "construct-div0"])
            inner = w.numeric(rng.choice([1, 2]))
            if fk == "subst-div0":
                e = rng.choice([["le", ["div", inner, NZ], w.numeric(1)], ["plus", ["div", inner, NZ], w.numeric(1)], ["and", w.boolean(1), ["lt", ["div", inner, NZ], ["i", 3]]]])
                ops.append(dict(kind="subst", e=e, m=[[NZ, ["i", 0]]], fault=fk))
                recent_fault_terms.append(e)
            elif fk == "construct-bad-eq":
                e = ["and", w.boolean(1), ["eq", ["i", 5], ["o", rng.choice(objs)[0]]]]
                ops.append(dict(kind="construct", e=e, fault=fk))
                recent_fault_terms.append(e[1])
            elif fk == "simplify-boom":
                e = ["le", ["plus", inner, ["if", "if_boom", ["plus", ["i", 1], ["i", 2]]]], w.numeric(1)]
                ops.append(dict(kind="simplify", e=e, fault=fk))
                recent_fault_terms.append(e)
            elif fk == "subst-incompatible":
                e = w.boolean(2)
                ops.append(dict(kind="subst", e=e, m=[[NZ, ["b", True]]], fault=fk))
                recent_fault_terms.append(e)
            elif fk == "construct-bad-plus":
                e = ["le", ["plus", inner, ["b", True]], ["i", 1]]
                ops.append(dict(kind="construct", e=e, fault=fk))
                recent_fault_terms.append(inner)
            else:
                e = ["le", ["div", inner, ["i", 0]], ["i", 1]]
                ops.append(dict(kind="construct", e=e, fault=fk))
                recent_fault_terms.append(inner)
            continue
        if x < 0.22:
            # constant folding with the same whole-number value reached once through integers and once through rationals
            # (results must not depend on which fold a shared walker saw first)
            n = rng.choice([1, 2, 3, 4, 6])
            a_ = rng.randint(0, n)
            base = w.numeric(1)
            int_fold = rng.choice([["plus", ["i", a_], ["i", n - a_]], ["plus", base, ["i", a_], ["i", n - a_]], ["times", ["i", n], ["i", 1], ["i", 1]], ["minus", ["i", n + 2], ["i", 2]]])
            rat_fold = rng.choice([["plus", ["r", f"{n}/2"], ["r", f"{n}/2"]], ["plus", base, ["r", f"{n}/2"], ["r", f"{n}/2"]], ["times", ["r", f"{n}/3"], ["i", 3]], ["div", ["r", f"{3 * n}/2"], ["r", "3/2"]], ["minus", ["r", f"{2 * n + 1}/2"], ["r", "1/2"]]])
            pair = [dict(kind="simplify", e=int_fold, shared=False, fold="int"), dict(kind="simplify", e=rat_fold, shared=False, fold="rat")]
            rng.shuffle(pair)
            ops.extend(pair)
            if rng.random() < 0.5:
                ops.append(dict(kind="type", e=["plus", base, int_fold], shared=False, fold="int"))
            continue
        # a normal call; often on something sharing sub-terms with a recently faulted expression
        shared = False
        if recent_fault_terms and rng.random() < 0.55:
            base = rng.choice(recent_fault_terms[-4:])
            subs = subterm_recipes(base)
            e = rng.choice(subs) if subs else base
            shared = True
            # expressions that are ill-typed by construction stay ill-typed: fine, both environments must agree
            if rng.random() < 0.4:
                e = ["and", ["le", e, w.numeric(1)], w.boolean(1)] if _is_num(w, e) else ["or", e, w.boolean(1)]
        else:
            e = w.boolean(rng.choice([1, 2, 3])) if rng.random() < 0.6 else w.numeric(rng.choice([1, 2]))
        kind = rng.choice(["simplify", "simplify", "subst", "subst", "type", "fv", "fvo", "names", "qrm", "construct"])
        op = dict(kind=kind, e=e, shared=shared)
        if rng.random() < 0.09:
            # injected fault (sys.monitoring failpoint inside DagWalker._compute_node_result) at the k-th node computation
            op["inject"] = rng.randint(0, 10)
            recent_fault_terms.append(e)
        if kind == "subst":
            subs = [s for s in subterm_recipes(e) if s[0] in ("f",)] or [NZ]
            k = rng.choice(subs + [NZ])
            if k == NZ:
                v = ["i", rng.choice([1, 2, -1])]
            else:
                v = None
            if v is None:
                # value: the key itself wrapped so that types stay compatible
                f = next(fl for fl in w.g.fluents if fl["name"] == k[1])
                if f["type"] == "bool":
                    v = w.boolean(1)
                elif f["type"][0] == "int":
                    v = ["plus", k, ["i", 1]] if f["type"][1] is None and f["type"][2] is None else k
                elif f["type"][0] == "real":
                    v = ["plus", k, ["r", "1/2"]] if f["type"][1] is None else k
                else:
                    v = k
            op["m"] = [[k, v]]
        ops.append(op)
    return ops


def _is_num(w, e):
    return isinstance(e, list) and (e[0] in ("plus", "minus", "times", "div", "i", "r") or (e[0] == "f" and next(fl for fl in w.g.fluents if fl["name"] == e[1])["type"] != "bool" and next(fl for fl in w.g.fluents if fl["name"] == e[1])["type"][0] in ("int", "real")) or (e[0] == "if" and e[1] not in ("if_pos", "if_lt")))


def execute(op, pb, ctx, env):
    """Run one op in the given environment; returns ('ok', canonical) or ('exc', class name)."""
    from unified_planning.model.walkers import ExpressionQuantifiersRemover

    try:
        e = ctx.expr(op["e"])
        k = op["kind"]
        if k == "construct":
            r = e
        elif k == "simplify":
            r = env.simplifier.simplify(e)
        elif k == "subst":
            m = {ctx.expr(a): ctx.expr(b) for a, b in op["m"]}
            r = env.substituter.substitute(e, m)
        elif k == "type":
            r = env.type_checker.get_type(e)
        elif k == "fv":
            r = env.free_vars_extractor.get(e)
        elif k == "fvo":
            r = env.free_vars_oracle.get_free_variables(e)
        elif k == "names":
            r = env.names_extractor.extract_names(e)
        elif k == "qrm":
            r = ExpressionQuantifiersRemover(env).remove_quantifiers(e, pb)
        else:
            raise ValueError(k)
        return ("ok", canon_value(r))
    except Exception as ex:  # compared by class
        return ("exc", type(ex).__name__)


_FP = None


def failpoints():
    global _FP
    if _FP is None:
        from unified_planning.model.walkers.dag import DagWalker
        from vk.mon.failpoints import Failpoints

        _FP = Failpoints([DagWalker._compute_node_result.__code__])
        _FP.install()
    return _FP


def run_case(key, tier, res, q):
    from unified_planning.exceptions import UPException
    from unified_planning.model import Parameter

    b = BOUNDS[tier]
    rng = rng_for(key)
    w = ExprWorld(rng, profile=dict(interpreted_functions=0.1))
    w.params = [p for p in w.params if p[0] != "nz"] + [["nz", ["int", -2, 2]]]
    w.scope = {"params": w.params, "vars": w.vars}
    ops = gen_history(w, rng, rng.randint(b["lo"], b["hi"]))
    envA = _env.fresh_env()
    try:
        pbA, ctxA = instantiate_world(w, envA)
    except UPException:
        res.count("rejected_at_build")
        return
    q.pending.clear()
    faults_seen = 0
    shared_after_fault = 0
    hist = []
    for i, op in enumerate(ops):
        res.case()
        injected = False
        if "inject" in op:
            fp = failpoints()
            fp.arm(op["inject"])
            try:
                a = execute(op, pbA, ctxA, envA)
            finally:
                fp.disarm()
            if a == ("exc", "InjectedFault"):
                injected = True
                res.count("injected_faults")
        else:
            a = execute(op, pbA, ctxA, envA)
        pend_a = list(q.pending)
        q.pending.clear()
        envB = _env.fresh_env()
        pbB, ctxB = instantiate_world(w, envB)
        bres = execute(op, pbB, ctxB, envB)
        q.pending.clear()
        res.mon()
        hist.append([op["kind"], op.get("fault"), a[0] if a[0] == "ok" else a[1]])

        def viol(mech, summary, **kw):
            res.violation(mech, summary, {"case_key": key, "tier": tier, "op_index": i, "op": op, "history": hist[-25:], **kw})

        if pend_a:
            viol(
                f"walker-not-quiescent:{pend_a[0][0]}:{'after-raise' if pend_a[0][1] else 'after-return'}",
                f"after call #{i} ({op['kind']}) walker {pend_a[0][0]} kept {pend_a[0][2]} pending stack entries",
            )
            return
        if op.get("fold"):
            res.count("constant_fold_pair_calls")
        if a[0] == "exc":
            faults_seen += 1
            res.count("faulted_calls")
            res.count("fault:" + str(op.get("fault") or "natural-other") + ":" + a[1])
        elif faults_seen and op.get("shared"):
            shared_after_fault += 1
            res.count("successful_shared_calls_after_fault")
        if injected:
            continue  # the faulted call itself is not compared; every later call is
        if a != bres:
            viol(
                f"history-dependent:{op['kind']}:{'after-fault' if faults_seen else 'no-fault-yet'}:"
                + (f"A-{a[0]}-B-{bres[0]}"),
                f"call #{i} {op['kind']}({op['e']}) on the long-lived environment gave {str(a)[:300]} but on a fresh environment {str(bres)[:300]} (after {faults_seen} faulted calls)",
                long_lived=str(a)[:2000],
                fresh=str(bres)[:2000],
            )
            return
    if faults_seen and shared_after_fault:
        res.nt(key)
    if key.endswith(":0"):
        res.sample({"history": hist[:20], "faulted_calls": faults_seen, "shared_calls_after_fault": shared_after_fault})


def thresholds(m):
    c = m["counters"]
    out = []
    for k, n in (("constant_fold_pair_calls", 100), ("injected_faults", 30), ("faulted_calls", 200), ("successful_shared_calls_after_fault", 200), ("raising_walks_observed", 50), ("walks_observed", 5000)):
        if c.get(k, 0) < n:
            out.append(f"{k} observed {c.get(k, 0)} < {n}")
    for f in ("fault:subst-div0:ZeroDivisionError", "fault:simplify-boom:ValueError", "fault:construct-bad-eq:UPTypeError"):
        if c.get(f, 0) < 5:
            out.append(f"{f} observed {c.get(f, 0)} < 5")
    return out

"""C01 — the sequential simulator computes exactly the documented successor semantics.

Monitor: every get_initial_state / is_applicable / apply / is_goal call made on a real UPSequentialSimulator during a
lock-step BFS is judged at the API boundary against the reference semantics vk.ref.seqsem (pre- and post-states are read
back through UPState.get_value)."""
from collections import deque

from vk import env as _env  # noqa: F401  (wires sys.path to /repo)
from vk.core import rng_for, simple_plan, h
from vk.gen.problem import gen_problem
from vk.recipe import instantiate_problem
from vk.ref import seqsem
from vk.ref.evalx import Unsupported
from vk.ref.seqsem import OKAY, INAPP, DONTCARE
from vk.ref.evalx import ev as _ev, Interp as _Interp, UNDEF as _UNDEF

PROPERTY = "C01"
LEVEL = "exploration"
TECHNIQUE = "runtime monitoring: reference-model (shadow) execution of every simulator call in a lock-step BFS over generated problems"
LEVEL_TEXT = (
    "Every is_applicable/apply/is_goal/get_initial_state answer of the real UPSequentialSimulator observed during a lock-step "
    "breadth-first exploration of generated problems is compared with an independent executable reference semantics; held on "
    "the executions observed, no claim beyond the generated grammar and depth bound."
)
LEVEL_NOTE = (
    "Trusted: CPython, fractions, the read-only accessors of FNode/Problem/Effect/Type, the public constructors used by the "
    "recipe instantiation, and vk/ref/evalx.py + vk/ref/seqsem.py (oracle). Cases the documentation leaves open (strict vs "
    "Kleene reading of undefined values, assignment+increase on one fluent, invariants reading undefined fluents) are not judged."
)
RULE = (
    "cases = generated problem recipes (C01 grammar: hierarchical types, Boolean/int/real/object fluents with parameters, "
    "quantified/disjunctive/negative/equality conditions, conditional/forall assign/increase/decrease effects, interpreted "
    "functions, bounded types, invariants, undefined initial values); per problem a lock-step BFS (depth/state bound) queries every ground action "
    "instance in every reached state. evaluations = judged (state, instance) triples + goal/initial-state judgements. "
    "distinct_nontrivial = distinct (problem, state, instance) triples where the reference says 'applicable and some fluent "
    "changes' or 'inapplicable for a reason other than a false precondition' (conflict, bounds, invariant, undefined read)."
)
ASSUMPTIONS = [
    "oracle vk/ref/seqsem.py implements DESIGN §3.2 faithfully; accessors of the model classes do not lie",
    "don't-care classes (strict/Kleene disagreement, assign+inc on one fluent, invariant reading undefined) are excluded",
]
SHARD_TIMEOUT = {"quick": 900, "thorough": 5400}

PROFILE = dict(interpreted_functions=0.15, undefined_init=0.25, invariants=0.3, coinciding_forall=0.08, int_params=0.12, toggle_pairs=0.3, indirect_invariants=0.15)
BOUNDS = {"quick": dict(n=1000, depth=3, max_states=40, max_inst=40, walk=45), "thorough": dict(n=3000, depth=5, max_states=250, max_inst=60, walk=120)}


def plan(tier, seed):
    b = BOUNDS[tier]
    return simple_plan(PROPERTY, tier, seed, b["n"], b["n"])


def run_shard(spec, res):
    if spec["tier"] == "thorough" and spec["shard"] == 1:
        # the repository's own test-suite re-run with the universal monitor installed (DESIGN §4): every internal call is judged
        from vk.mon import suite as _suite

        _suite.feed(res, PROPERTY, _suite.run_suite(("sim",)), "M-sim:judged")
    b = BOUNDS[spec["tier"]]
    for key in spec["cases"]:
        try:
            run_case(key, b, res)
        except Unsupported as e:
            res.count("skipped_unsupported_by_oracle")
    if spec["tier"] == "thorough" and spec["shard"] == 0:
        run_examples(b, res)


def replay(witness, res):
    if witness.get("suite"):
        from vk.mon import suite as _suite

        _suite.replay_suite(res, PROPERTY, ("sim",), "M-sim:judged", witness)
        return
    b = dict(BOUNDS["thorough"])
    if witness.get("example"):
        run_examples(b, res, only=witness["example"])
    else:
        run_case(witness["case_key"], BOUNDS[witness.get("tier", "quick")], res)


def build(key, profile):
    from unified_planning.exceptions import UPException

    rng = rng_for(key)
    if profile and profile.get("indirect_invariants"):
        # invariants that reach the constrained ground fluent through an object-valued fluent argument (generator of C04)
        from vk.checks.c04 import gen_problem as gen_indirect

        rec, feats = gen_indirect(rng, profile)
    else:
        rec, feats = gen_problem(rng, profile)
    e = _env.fresh_env()
    try:
        pb, ctx = instantiate_problem(rec, e)
    except UPException as ex:
        return rec, feats, None, ex
    return rec, feats, pb, None


def run_case(key, b, res, profile=PROFILE):
    from unified_planning.engines.sequential_simulator import UPSequentialSimulator

    rec, feats, pb, ex = build(key, profile)
    if pb is None:
        res.count("rejected_at_build")
        return
    if not UPSequentialSimulator.supports(pb.kind):
        res.count("rejected_unsupported_kind")
        for ft in sorted(pb.kind.features - UPSequentialSimulator.supported_kind().features):
            res.count("unsupported_feature:" + ft)
        return
    explore(pb, rec, feats, {"case_key": key}, b, res)


def run_examples(b, res, only=None):
    from unified_planning.test.examples import get_example_problems
    from unified_planning.engines.sequential_simulator import UPSequentialSimulator
    from unified_planning.model import Problem

    for name, ex in sorted(get_example_problems().items()):
        if only and name != only:
            continue
        pb = ex.problem
        if type(pb) is not Problem or not UPSequentialSimulator.supports(pb.kind):
            continue
        if pb.kind.has_simulated_effects():
            continue
        try:
            n_inst = len(seqsem.all_instances(pb))
            seqsem.ground_fluents(pb)
        except Unsupported:
            res.count("examples_skipped_unsupported")
            continue
        if n_inst > 400 or len(seqsem.ground_fluents(pb)) > 400:
            res.count("examples_skipped_too_large")
            continue
        res.count("examples_explored")
        try:
            explore(pb, {"example": name}, ["example"], {"example": name}, dict(b, depth=3, max_states=12, max_inst=400), res)
        except Unsupported:
            res.count("examples_skipped_unsupported")


def long_walk(pb, sim, ls, rs, gfl, insts, steps, rng, res, viol):
    """A deep lock-step trajectory (beyond UPState's ancestor-flattening depth): one random reference-applicable instance per step."""
    from vk.gen.plans import toggle_walk, plain_walk

    path = []
    walk = (toggle_walk if rng.random() < 0.6 else plain_walk)(pb, insts, steps, rng, rs)
    for i, (a, args, r) in enumerate(walk):
        step = [a.name, list(args)]
        res.mon()
        res.case()
        try:
            ns = sim.apply(ls, a, seqsem.param_exprs(pb, a, args))
        except Exception as e:
            viol(f"simulator-raises:{type(e).__name__}", f"apply raised {e!r} at step {i} of a long walk", path=path, step=step)
            return
        if ns is None:
            viol("inapplicable-but-reference-applicable:deep", f"step {i} {step} of a long walk: reference applicable, apply returned None", path=path, step=step)
            return
        got = seqsem.read_state(pb, ns, gfl)
        if got != r.state:
            diff = {str(k): (str(r.state.get(k, "UNDEF")), str(got.get(k, "UNDEF"))) for k in set(got) | set(r.state) if got.get(k, seqsem.UNDEF) != r.state.get(k, seqsem.UNDEF)}
            viol("successor-mismatch:deep", f"step {i} {step} of a long walk in {seqsem.show_state(rs)}: successor differs (expected, observed) {diff}", path=path, step=step, diff=diff)
            return
        path.append(step)
        ls, rs = ns, r.state
        res.count("long_walk_steps")
        if i >= 21:
            res.count("long_walk_steps_beyond_20")


def explore(pb, rec, feats, wbase, b, res):
    from unified_planning.engines.sequential_simulator import UPSequentialSimulator
    from unified_planning.exceptions import UPProblemDefinitionError, UPUsageError

    gfl = seqsem.ground_fluents(pb)
    insts = seqsem.all_instances(pb)[: b["max_inst"]]
    pid = h(rec)

    def viol(mech, summary, **w):
        res.violation(mech, summary, {**wbase, "tier": "quick" if b is BOUNDS["quick"] else "thorough", "recipe": rec, **w})

    try:
        sim = UPSequentialSimulator(pb)
    except UPUsageError:
        res.count("rejected_by_simulator")
        return
    except _env.INTERNAL_EXC as e:
        viol(f"constructor-raises:{type(e).__name__}", f"UPSequentialSimulator(problem) raised {e!r}")
        return
    rs0 = seqsem.initial_state(pb)
    # reference judgement of the initial state (bounds + invariants)
    bok, _ = seqsem.bounds_ok(pb, rs0)
    undefined_bounded = any(
        (f.type.is_int_type() or f.type.is_real_type())
        and (f.type.lower_bound is not None or f.type.upper_bound is not None)
        and (f.name, args) not in rs0
        for f, args in gfl
    )
    inv = seqsem.invariants_status(pb, rs0)
    res.mon()
    try:
        ls0 = sim.get_initial_state()
        lib_init_ok = True
    except UPProblemDefinitionError:
        lib_init_ok = False
    except Exception as e:
        viol(f"get_initial_state-raises:{type(e).__name__}", f"get_initial_state raised {e!r}")
        return
    res.case()
    if inv is None or undefined_bounded:
        res.count("dontcare_initial_state")
        if not lib_init_ok:
            return
    else:
        ref_init_ok = bok and inv
        if ref_init_ok != lib_init_ok:
            viol(
                "initial-state-acceptance",
                f"reference says initial state {'satisfies' if ref_init_ok else 'violates'} bounds/invariants, simulator {'accepted' if lib_init_ok else 'rejected'} it",
                expected=ref_init_ok,
                observed=lib_init_ok,
            )
            return
        if not lib_init_ok:
            res.count("initial_state_rejected_consistently")
            res.nt(("init-rejected", pid))
            return
    got0 = seqsem.read_state(pb, ls0, gfl)
    if got0 != rs0:
        viol("initial-state-values", f"initial state differs: expected {seqsem.show_state(rs0)}, got {seqsem.show_state(got0)}", expected=seqsem.show_state(rs0), observed=seqsem.show_state(got0))
        return
    if b.get("walk"):
        long_walk(pb, sim, ls0, rs0, gfl, insts, b["walk"], rng_for(pid, "walk"), res, viol)
    sampled = False
    seen = {seqsem.freeze(rs0)}
    queue = deque([(ls0, rs0, 0, [])])
    nstates = 0
    while queue and nstates < b["max_states"]:
        ls, rs, depth, path = queue.popleft()
        nstates += 1
        res.count("states")
        # goal judgement
        gs = seqsem.goal_status(pb, rs)
        res.mon()
        try:
            lg = sim.is_goal(ls)
        except Exception as e:
            viol(f"is_goal-raises:{type(e).__name__}", f"is_goal raised {e!r} in state {seqsem.show_state(rs)}", path=path)
            return
        res.case()
        if gs is None:
            res.count("dontcare_goal")
        elif bool(lg) != gs:
            und = any(_ev(g, _Interp(pb, rs)) is _UNDEF for g in pb.goals)
            viol(
                "is_goal-mismatch" + (":undefined-goal" if und else ""),
                f"is_goal={lg}, reference={gs} in state {seqsem.show_state(rs)}",
                path=path,
                expected=gs,
                observed=bool(lg),
            )
            return
        for a, args in insts:
            r = seqsem.succ(pb, rs, a, args)
            pex = seqsem.param_exprs(pb, a, args)
            res.mon()
            step = [a.name, list(args)]
            try:
                lib_app = sim.is_applicable(ls, a, pex)
                ns = sim.apply(ls, a, pex)
            except Exception as e:
                viol(
                    f"simulator-raises:{type(e).__name__}",
                    f"is_applicable/apply raised {e!r} for {step} in state {seqsem.show_state(rs)} (reference: {r.status}/{r.reason})",
                    path=path,
                    step=step,
                )
                return
            res.case()
            if r.status == DONTCARE and r.reason == seqsem.COINCIDING:
                # literal reading of the statement: every binding of the forall increase/decrease accumulates
                r2 = seqsem.succ(pb, rs, a, args, strict_forall=True)
                if r2.status != DONTCARE:
                    res.count("coinciding_forall_incdec_judged")
                    exp = r2.state if r2.status == OKAY else None
                    got = seqsem.read_state(pb, ns, gfl) if ns is not None else None
                    if exp != got or bool(lib_app) != (exp is not None):
                        viol(
                            "forall-incdec-multiplicity:" + ("successor-mismatch" if exp is not None and got is not None else "applicability-mismatch"),
                            f"{step} in {seqsem.show_state(rs)}: several bindings of one forall increase/decrease hit one ground fluent; "
                            f"reference (every binding accumulates): {r2.status}/{r2.reason} {seqsem.show_state(exp) if exp else None}; "
                            f"simulator: is_applicable={lib_app} {seqsem.show_state(got) if got else None}",
                            path=path,
                            step=step,
                        )
            if r.status == DONTCARE:
                res.count("dontcare:" + str(r.reason))
                if ns is not None and depth < b["depth"]:
                    nrs = seqsem.read_state(pb, ns, gfl)
                    k = seqsem.freeze(nrs)
                    if k not in seen:
                        seen.add(k)
                        queue.append((ns, nrs, depth + 1, path + [step]))
                continue
            triple = (pid, seqsem.freeze(rs), a.name, tuple(map(str, args)))
            if r.status == INAPP:
                res.count("ref_inapplicable:" + r.reason)
                if r.reason != "precondition-false":
                    res.nt(triple)
                if lib_app or ns is not None:
                    viol(
                        f"applicable-but-reference-inapplicable:{r.reason}",
                        f"{step} in {seqsem.show_state(rs)}: reference inapplicable ({r.reason} {r.info}), simulator is_applicable={lib_app} apply={'state' if ns is not None else None}",
                        path=path,
                        step=step,
                        expected="inapplicable:" + r.reason,
                        observed={"is_applicable": bool(lib_app), "apply_returned_state": ns is not None},
                    )
                    return
                continue
            # OKAY
            for ft in r.info.get("features", ()):
                res.count("feature:" + ft)
            if r.info.get("changed"):
                res.nt(triple)
                res.count("ref_applicable_changed")
            else:
                res.count("ref_applicable_noop")
            if not lib_app or ns is None:
                viol(
                    "inapplicable-but-reference-applicable",
                    f"{step} in {seqsem.show_state(rs)}: reference applicable, simulator is_applicable={lib_app} apply={'state' if ns is not None else None}",
                    path=path,
                    step=step,
                    expected="applicable",
                    observed={"is_applicable": bool(lib_app), "apply_returned_state": ns is not None},
                )
                return
            got = seqsem.read_state(pb, ns, gfl)
            if got != r.state:
                diff = {str(k): (str(r.state.get(k, "UNDEF")), str(got.get(k, "UNDEF"))) for k in set(got) | set(r.state) if got.get(k, seqsem.UNDEF) != r.state.get(k, seqsem.UNDEF)}
                viol(
                    "successor-mismatch:" + ",".join(sorted(r.info.get("features", ()))),
                    f"{step} in {seqsem.show_state(rs)}: successor differs (fluent: (expected, observed)) {diff}",
                    path=path,
                    step=step,
                    diff=diff,
                )
                return
            if not sampled and r.info.get("changed"):
                sampled = True
                res.sample({"problem": rec, "features": feats, "path": path, "step": step, "pre": seqsem.show_state(rs), "post": seqsem.show_state(r.state), "verdict": "agree"})
            if depth < b["depth"]:
                k = seqsem.freeze(r.state)
                if k not in seen:
                    seen.add(k)
                    queue.append((ns, r.state, depth + 1, path + [step]))


REQUIRED = [
    "feature:forall",
    "feature:add-after-delete",
    "feature:accumulated-incdec",
    "feature:conditional",
    "ref_inapplicable:conflicting-assignments",
    "ref_inapplicable:bounds",
    "ref_inapplicable:invariant",
    "ref_inapplicable:precondition-undefined",
]


def thresholds(m):
    c = m["counters"]
    out = []
    for k in REQUIRED:
        if c.get(k, 0) < 2:
            out.append(f"fewer than 2 observations of class {k} ({c.get(k, 0)})")
    if c.get("long_walk_steps_beyond_20", 0) < 50:
        out.append("fewer than 50 lock-step steps deeper than 20 (UPState ancestor flattening never exercised)")
    if len(m["nontrivial"]) < 20:
        out.append("fewer than 20 distinct non-trivial triples")
    return out

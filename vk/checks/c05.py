"""C05 - time-triggered validation matches the reference temporal semantics.

Monitor: every TimeTriggeredPlanValidator.validate(problem, plan) call made on generated temporal problems x generated
time-triggered plans (and on the temporal example corpus) is judged at the API boundary against vk.ref.ttsem."""
import traceback

from vk import env as _env  # noqa: F401
from vk.core import rng_for, simple_plan, h
from vk.gen.temporal import gen_temporal, gen_tt_plan, plan_steps, instantiate
from vk.ref import ttsem
from vk.ref.evalx import Unsupported

PROPERTY = "C05"
LEVEL = "exploration"
TECHNIQUE = "runtime monitoring: reference-model judgement (vk.ref.ttsem) of every TimeTriggeredPlanValidator verdict on generated temporal problems x plans"
LEVEL_TEXT = (
    "Every verdict of the real TimeTriggeredPlanValidator observed on generated small temporal problems and time-triggered "
    "plans (rational times on a 1/2-grid, coinciding happenings, durations on open/closed bounds, intermediate and timed "
    "conditions/effects) is compared with an independent executable reference semantics; held on the executions observed."
)
LEVEL_NOTE = (
    "Trusted: CPython, fractions, read-only accessors of the model classes, public constructors used by vk.recipe, and the "
    "oracle vk/ref/ttsem.py (+evalx, seqsem).  Not judged: the don't-care classes of ttsem (listed in its docstring) and plans "
    "whose only defect is a bounded-type / state-invariant violation (the statement of C05 does not mention them; C04 does)."
)
RULE = (
    "cases = generated temporal problem recipes (C01 grammar made durative: fixed/closed/open/left-/right-open durations with "
    "constant, fluent- and parameter-dependent bounds; start/end/over-all/intermediate conditions; start/end/intermediate "
    "effects; timed effects/goals) x PLANS generated time-triggered plans of 1-4 steps each. evaluations = judged "
    "(problem, plan) pairs (reference verdict definite). distinct_nontrivial = distinct pairs whose reference verdict changes "
    "under at least one counterfactual semantics: interval openness flipped, instant conditions evaluated after the instant's "
    "effects (coinciding happenings), intermediate conditions/effects dropped, timed effects/goals dropped, duration "
    "constraints dropped; counted per class in counters class:*."
)
ASSUMPTIONS = [
    "oracle vk/ref/ttsem.py implements DESIGN §3.4 faithfully; accessors of the model classes do not lie",
    "don't-care classes of ttsem and bounds/invariant-only invalidity are excluded from judgement",
]
SHARD_TIMEOUT = {"quick": 600, "thorough": 5400}
BOUNDS = {"quick": dict(n=600, plans=3), "thorough": dict(n=60000, plans=3)}
PROFILE = dict(int_params=0.15, coinciding_forall=0.12)


def plan(tier, seed):
    b = BOUNDS[tier]
    return simple_plan(PROPERTY, tier, seed, b["n"], b["n"])


def run_shard(spec, res):
    b = BOUNDS[spec["tier"]]
    for key in spec["cases"]:
        run_case(key, spec["tier"], b, res)
    if spec["shard"] == 0:
        run_examples(spec["tier"], res)
        if spec["tier"] == "thorough":
            run_up_test_cases(spec["tier"], res)


def replay(witness, res):
    tier = witness.get("tier", "quick")
    if witness.get("example"):
        run_examples(tier, res, only=witness["example"])
    elif witness.get("up_test_case"):
        run_up_test_cases(tier, res)
    else:
        run_case(witness["case_key"], tier, BOUNDS[tier], res)


def lib_site(exc):
    """innermost unified_planning frame of an exception: 'file.py:function'."""
    site = "?"
    for fr in traceback.extract_tb(exc.__traceback__):
        if "unified_planning" in fr.filename:
            site = fr.filename.rsplit("/", 1)[-1] + ":" + fr.name
    return site


def mech_codes(v):
    """Failure codes of a reference verdict, normalised so that one root cause gives one string: a condition / timed goal
    that fails only in the state holding right after a left-open lower bound at which nothing happens is 'left-open-gap'."""
    out = set()
    for f in v.core_failures():
        c = f["code"]
        out.add("left-open-gap" if c.endswith(":post-lo:gap") else c)
    return "+".join(sorted(out))


def call_validator(pb, lplan):
    """-> ("VALID"|"INVALID", result) | ("rejected", exc) | ("raises", exc)"""
    from unified_planning.engines.plan_validator import TimeTriggeredPlanValidator
    from unified_planning.exceptions import UPException

    try:
        r = TimeTriggeredPlanValidator(environment=pb.environment).validate(pb, lplan)
    except _env.INTERNAL_EXC as e:
        return "raises", e
    except UPException as e:
        return "rejected", e
    return r.status.name, r


def judge_pair(pb, steps, wbase, res, pid=None, label=None):
    """Judge one (problem, plan) pair. Returns the reference verdict (or None)."""
    try:
        v = ttsem.validate(pb, steps)
    except Unsupported:
        res.count("skipped_unsupported_by_oracle")
        return None
    lplan = ttsem.library_plan(pb, steps)
    lib, robj = call_validator(pb, lplan)
    plan_json = [[str(s), a.name, list(args), None if d is None else str(d)] for s, a, args, d in steps]

    def viol(mech, summary, **w):
        res.violation(mech, summary, {**wbase, "plan": plan_json, "reference": v.to_json(), "library": lib, **w})

    if lib == "raises":
        res.mon()
        res.case()
        viol(f"raises:{type(robj).__name__}@{lib_site(robj)}", f"TimeTriggeredPlanValidator.validate raised {robj!r} (reference: {v})")
        return v
    if lib == "rejected":
        res.count("rejected_by_validator")
        return v
    core = ttsem.core_status(v)
    if label is not None and v.status != ttsem.DONTCARE and (v.status == ttsem.VALID) != label:
        res.count("corpus_label_disagreement")
        res.count("corpus_label_disagreement:" + str(wbase.get("example")))
    if core == ttsem.DONTCARE:
        if v.failures:
            res.count("dontcare:only-" + "+".join(v.codes()))
            if lib == "VALID":
                res.count("observed:library-accepts-" + "+".join(v.codes()))
        else:
            res.count("dontcare:" + v.dontcares[0])
        return v
    res.mon()
    res.case()
    for ft in v.features:
        res.count("feature:" + ft)
    res.count("ref_" + core)
    for c in v.codes(core=True):
        res.count("ref_invalid:" + c.split(":")[0])
    classes = ttsem.hinges(pb, steps, v)
    for c in classes:
        res.count("class:" + c)
    if classes and pid is not None:
        res.nt((pid, plan_json))
    if core == ttsem.VALID and lib != "VALID":
        why = "same-value-twice" if "same-value-twice" in v.features else str(getattr(robj.reason, "name", robj.reason))
        viol("rejects-valid:" + why, f"reference: valid; library: {lib} ({getattr(robj.reason, 'name', None)}, {[str(m.message) for m in (robj.log_messages or [])]})")
    elif core == ttsem.INVALID and lib == "VALID":
        viol("accepts-invalid:" + mech_codes(v), f"reference: invalid {v.core_failures()}; library: VALID")
    else:
        res.count("agree")
        if classes:
            res.sample({"plan": plan_json, "problem": wbase.get("recipe", wbase.get("example")), "reference": v.status, "reasons": v.codes(), "hinges_on": sorted(classes), "library": lib})
    return v


def pin_final_state(pb, final):
    from fractions import Fraction
    from vk.ref import seqsem

    pb2 = pb.clone()
    pb2.clear_goals()
    em = pb.environment.expression_manager
    for f, args in seqsem.ground_fluents(pb):
        if (f.name, args) not in final:
            continue
        fe = seqsem.fexp(pb, f, args)
        val = final[(f.name, args)]
        if f.type.is_bool_type():
            pb2.add_goal(fe if val else em.Not(fe))
        elif f.type.is_user_type():
            pb2.add_goal(em.Equals(fe, em.ObjectExp(pb.object(val))))
        else:
            pb2.add_goal(em.Equals(fe, em.Real(Fraction(val)) if Fraction(val).denominator != 1 else em.Int(int(val))))
    return pb2


def run_case(key, tier, b, res):
    from unified_planning.engines.plan_validator import TimeTriggeredPlanValidator
    from unified_planning.exceptions import UPException

    rng = rng_for(key)
    rec, feats = gen_temporal(rng, PROFILE)
    e = _env.fresh_env()
    try:
        pb, ctx = instantiate(rec, e)
    except UPException:
        res.count("rejected_at_build")
        return
    if not TimeTriggeredPlanValidator.supports(pb.kind):
        res.count("rejected_unsupported_kind")
        for ft in sorted(pb.kind.features - TimeTriggeredPlanValidator.supported_kind().features):
            res.count("unsupported_feature:" + ft)
        return
    res.count("problems")
    for ft in feats:
        res.count("gen:" + ft)
    pid = h(rec)
    wbase = {"case_key": key, "tier": tier, "recipe": rec}
    def accept(partial):
        # workload shaping only (the verdicts are judged independently below): keep prefixes without a definite failure
        try:
            w = ttsem.validate(pb, plan_steps(pb, partial))
        except Unsupported:
            return False
        return not [f for f in w.core_failures() if f["code"] != "goal"]

    for j in range(b["plans"]):
        mode = rng.random()
        if mode < 0.3:
            pl = gen_tt_plan(rng, rec)
            res.count("plans:unguided")
        else:
            pl = gen_tt_plan(rng, rec, accept=accept, guided_last=mode < 0.65)
            res.count("plans:guided" if mode < 0.65 else "plans:guided-prefix")
        try:
            steps = plan_steps(pb, pl)
            v = judge_pair(pb, steps, {**wbase, "plan_index": j}, res, pid=pid)
            # observation goals: when the plan is executable by the reference (nothing fails but, possibly, the goal), a copy of
            # the problem whose goal pins every defined ground fluent to the reference final state must be VALID: a difference
            # in the *values* the validator computes (accumulated increases, add-after-delete, ...) becomes a status difference
            if v is not None and v.final_state is not None and not v.dontcares and all(f["code"] == "goal" for f in v.failures) and steps:
                pb2 = pin_final_state(pb, v.final_state)
                steps2 = [(st, pb2.action(a.name), args, d) for st, a, args, d in steps]
                res.count("observation_goal_validations")
                judge_pair(pb2, steps2, {**wbase, "plan_index": j, "observation_goal": True}, res, pid=pid + ":obs")
        except Unsupported:
            res.count("skipped_unsupported_by_oracle")


def run_examples(tier, res, only=None):
    """Temporal problems of the example corpus with their labelled valid / invalid time-triggered plans."""
    from unified_planning.engines.plan_validator import TimeTriggeredPlanValidator
    from unified_planning.model import Problem
    from unified_planning.plans import TimeTriggeredPlan
    from unified_planning.test.examples import get_example_problems

    for name, ex in sorted(get_example_problems().items()):
        if only and name != only:
            continue
        pb = ex.problem
        if type(pb) is not Problem or not TimeTriggeredPlanValidator.supports(pb.kind):
            continue
        if pb.kind.has_simulated_effects():
            continue
        for label, plans in ((True, ex.valid_plans), (False, ex.invalid_plans)):
            for k, pl in enumerate(plans):
                if not isinstance(pl, TimeTriggeredPlan):
                    continue
                try:
                    steps = ttsem.steps_of_plan(pl)
                    v = judge_pair(pb, steps, {"example": name, "tier": tier, "label": label, "k": k}, res, pid="ex:" + name, label=label)
                    if v is not None:
                        res.count("examples_judged")
                except Unsupported:
                    res.count("examples_skipped_unsupported")


def run_up_test_cases(tier, res):
    """Labelled time-triggered plans of the up_test_cases built-ins (needs /repo/up_test_cases itself on sys.path)."""
    import os
    import sys

    from unified_planning.engines.plan_validator import TimeTriggeredPlanValidator
    from unified_planning.model import Problem
    from unified_planning.plans import TimeTriggeredPlan

    root = os.path.join(_env.REPO, "up_test_cases")
    if not os.path.isdir(root):
        res.count("up_test_cases_unavailable")
        return
    if root not in sys.path:
        sys.path.insert(0, root)
    try:
        import builtin as _builtin  # noqa

        tcs = _builtin.get_test_cases()
    except Exception:
        res.count("up_test_cases_unavailable")
        return
    for name, tc in sorted(tcs.items()):
        pb = tc.problem
        if type(pb) is not Problem or not TimeTriggeredPlanValidator.supports(pb.kind) or pb.kind.has_simulated_effects():
            continue
        for label, plans in ((True, tc.valid_plans), (False, tc.invalid_plans)):
            for k, pl in enumerate(plans):
                if not isinstance(pl, TimeTriggeredPlan):
                    continue
                try:
                    if len(seqsem_ground(pb)) > 600:
                        res.count("up_test_cases_skipped_too_large")
                        continue
                    v = judge_pair(pb, ttsem.steps_of_plan(pl), {"up_test_case": name, "tier": tier, "label": label, "k": k}, res, pid="tc:" + name, label=label)
                    if v is not None:
                        res.count("up_test_cases_judged")
                except Unsupported:
                    res.count("up_test_cases_skipped_unsupported")


def seqsem_ground(pb):
    from vk.ref import seqsem

    return seqsem.ground_fluents(pb)


REQUIRED = ["class:openness", "class:coinciding", "class:intermediate", "class:timed", "class:duration"]


def thresholds(m):
    c = m["counters"]
    out = []
    for k in REQUIRED:
        if c.get(k, 0) < 5:
            out.append(f"fewer than 5 pairs whose verdict hinges on {k} ({c.get(k, 0)})")
    if c.get("corpus_label_disagreement", 0):
        out.append("the reference disagrees with a labelled corpus plan (oracle defect to be resolved first)")
    tot = c.get("problems", 0) + c.get("rejected_at_build", 0) + c.get("rejected_unsupported_kind", 0)
    if tot and (c.get("rejected_at_build", 0) + c.get("rejected_unsupported_kind", 0)) * 2 > tot:
        out.append("more than 50% of the generated problems were rejected")
    if c.get("ref_valid", 0) < 20 or c.get("ref_invalid", 0) < 20:
        out.append("fewer than 20 reference-valid or reference-invalid pairs")
    return out

"""C15 — expression type inference is sound (interval contains every value) and equality well-formedness is symmetric."""
from fractions import Fraction
from itertools import product

from vk import env as _env  # noqa: F401
from vk.core import rng_for, simple_plan
from vk.gen.interp import interpretations
from vk.recipe import instantiate_problem
from vk.ref import seqsem
from vk.ref.evalx import ev, UNDEF, fluents_in, Unsupported

PROPERTY = "C15"
LEVEL = "exploration"
TECHNIQUE = "runtime monitoring: inferred types judged by exact evaluation at corner / extreme / random points of the leaves' declared types; mirrored constructions in fresh environments"
LEVEL_TEXT = (
    "For generated numeric expressions over bounded / half-bounded / unbounded int and real fluents, parameters and constants of any magnitude the "
    "inferred type of the expression and of every sub-expression is compared with exact rational evaluation at corner, extreme and random points "
    "of the leaves' declared types (lower <= value <= upper, integer-typed => integer value); Boolean and user-typed expressions must get exactly "
    "their type; every ordered pair of a pool of 27 operand kinds (timepoints included) (incl. a type hierarchy three levels deep with two branches) is used to build Equals(l,r) and Equals(r,l), each in its own fresh environment, "
    "which must both be accepted or both rejected. Replaces the SMT query of the quantifier text by sampling: weaker on infinite domains. In the thorough tier the "
    "repository's own test-suite is re-run with a pass-through wrapper on TypeChecker.get_type: arithmetic results are judged by exact evaluation under 16 random "
    "first-order interpretations, every Equals verdict is compared with the verdict for the mirrored operand types."
)
LEVEL_NOTE = (
    "Trusted: vk/ref/evalx.py, vk/gen/interp.py (corner/extreme points), read-only accessors of Type (lower_bound, upper_bound, is_int_type...). "
    "Suite monitor (vk/mon/universal.install_types): trusted are also pytest/xdist and the monkey-patched wrapper; each distinct (type checker, expression) is "
    "judged once; only roots + - * / are evaluated (leaf types are declarations); division by a non-constant, quantifiers, timing / agent-dot / "
    "interpreted-function nodes are counted as don't-care / unjudged; leaves take a corner of their declared interval with probability 0.6; the mirrored "
    "Equals verdict is obtained from TypeChecker.walk_equals with the operand types swapped (no node is built, nothing the test owns is touched)."
)
RULE = (
    "cases = numeric expression recipes (<= ~10 nodes) over a fixed pool of 12 numeric fluents with all bound forms + all ordered operand pairs for the "
    "symmetry part; evaluations = expressions judged + operand pairs judged; distinct_nontrivial = distinct expressions with at least one finite inferred bound. "
    "Thorough tier only: one run of unified_planning/test under M-types; one evaluation = one arithmetic expression judged (suite:M-types:judged; Equals verdicts are "
    "counted as suite:M-types:equalities); witnesses carry the test id (\"suite\": true) and are replayed by re-running that test file under the monitor; "
    "inconclusive if the suite ran and fewer than 200 arithmetic expressions or fewer than 300 equalities were judged."
)
ASSUMPTIONS = ["division only by non-zero constants", "soundness is sampled at corner/extreme points, not proved"]
BOUNDS = {"quick": dict(n=640, per=8, cap=40), "thorough": dict(n=48000, per=12, cap=96)}

WORLD = {
    "name": "c15",
    "types": [["T0", None], ["T1", "T0"], ["T2", None], ["T11", "T1"], ["T111", "T11"], ["S1", "T0"], ["S11", "S1"]],
    "objects": [["a0", ["user", "T0"]], ["a1", ["user", "T1"]], ["a2", ["user", "T2"]], ["a11", ["user", "T11"]], ["a111", ["user", "T111"]], ["s1", ["user", "S1"]], ["s11", ["user", "S11"]]],
    "fluents": [
        {"name": "ib", "type": ["int", 0, 3], "sig": [], "default": ["i", 1]},
        {"name": "ineg", "type": ["int", -3, -1], "sig": [], "default": ["i", -1]},
        {"name": "imix", "type": ["int", -2, 2], "sig": [], "default": ["i", 0]},
        {"name": "ilo", "type": ["int", 1, None], "sig": [], "default": ["i", 1]},
        {"name": "ihi", "type": ["int", None, -1], "sig": [], "default": ["i", -1]},
        {"name": "iu", "type": ["int", None, None], "sig": [], "default": ["i", 0]},
        {"name": "rb", "type": ["real", "1/3", "7/2"], "sig": [], "default": ["r", "1/2"]},
        {"name": "rneg", "type": ["real", "-5/2", "-1/3"], "sig": [], "default": ["r", "-1/2"]},
        {"name": "rmix", "type": ["real", "-1/2", "3/4"], "sig": [], "default": ["r", "0"]},
        {"name": "rlo", "type": ["real", "0", None], "sig": [], "default": ["r", "0"]},
        {"name": "rhi", "type": ["real", None, "2"], "sig": [], "default": ["r", "0"]},
        {"name": "ru", "type": ["real", None, None], "sig": [], "default": ["r", "0"]},
        {"name": "bf", "type": "bool", "sig": [], "default": ["b", False]},
        {"name": "of0", "type": ["user", "T0"], "sig": [], "default": ["o", "a0"]},
        {"name": "of1", "type": ["user", "T1"], "sig": [], "default": ["o", "a1"]},
        {"name": "of2", "type": ["user", "T2"], "sig": [], "default": ["o", "a2"]},
        {"name": "of111", "type": ["user", "T111"], "sig": [], "default": ["o", "a111"]},
        {"name": "os11", "type": ["user", "S11"], "sig": [], "default": ["o", "s11"]},
    ],
    "actions": [],
    "init": [],
    "goals": [],
}
NUMF = ["ib", "ineg", "imix", "ilo", "ihi", "iu", "rb", "rneg", "rmix", "rlo", "rhi", "ru"]
CONSTS = [["i", 0], ["i", 1], ["i", -1], ["i", 2], ["i", -3], ["i", 7], ["r", "1/3"], ["r", "-2/3"], ["r", "5/2"], ["i", 2**53 + 1], ["r", str(Fraction(10**20 + 1, 3))], ["i", -(10**18)]]
DIVISORS = [["i", 2], ["i", 3], ["i", -2], ["i", -3], ["r", "1/3"], ["r", "-1/2"], ["r", "3/2"], ["i", 7], ["i", -(2**53 + 1)], ["i", 1]]


def plan(tier, seed):
    b = BOUNDS[tier]
    specs = simple_plan(PROPERTY, tier, seed, b["n"], b["n"])
    specs[0]["symmetry"] = True
    return specs


SUITE = (("types",), "M-types:judged")


def run_shard(spec, res):
    if spec["tier"] == "thorough" and spec["shard"] == 1:
        # the repository's own test-suite re-run with the universal monitor M-types installed (DESIGN §4): every type the
        # TypeChecker infers for an arithmetic expression and every Equals it accepts / rejects during the tests is judged
        from vk.mon import suite as _suite

        _suite.feed(res, PROPERTY, _suite.run_suite(SUITE[0]), SUITE[1])
    if spec.get("symmetry"):
        symmetry(res, spec["tier"])
    for key in spec["cases"]:
        try:
            run_case(key, spec["tier"], res)
        except Unsupported:
            res.count("skipped_unsupported_by_oracle")


def replay(witness, res):
    if witness.get("suite"):
        from vk.mon import suite as _suite

        _suite.replay_suite(res, PROPERTY, SUITE[0], SUITE[1], witness)
        return
    if witness.get("symmetry"):
        symmetry(res, witness.get("tier", "quick"), only=witness["symmetry"])
    else:
        run_case(witness["case_key"], witness.get("tier", "quick"), res, only=witness.get("index"))


def gen_num(rng, depth):
    x = rng.random()
    if depth <= 0 or x < 0.3:
        if rng.random() < 0.7:
            return ["f", rng.choice(NUMF)]
        return rng.choice(CONSTS)
    if x < 0.5:
        return ["plus"] + [gen_num(rng, depth - 1) for _ in range(rng.choice([2, 2, 3]))]
    if x < 0.65:
        return ["minus", gen_num(rng, depth - 1), gen_num(rng, depth - 1)]
    if x < 0.85:
        args = [gen_num(rng, depth - 1) for _ in range(rng.choice([2, 2, 3]))]
        if rng.random() < 0.15:
            args[rng.randrange(len(args))] = ["i", 0]
        return ["times"] + args
    if rng.random() < 0.25:
        # constant / constant
        return ["div", rng.choice(CONSTS), rng.choice(DIVISORS)]
    return ["div", gen_num(rng, depth - 1), rng.choice(DIVISORS)]


def subexprs(e):
    out, st, seen = [], [e], set()
    while st:
        x = st.pop()
        if x in seen:
            continue
        seen.add(x)
        out.append(x)
        st.extend(x.args)
    return out


def run_case(key, tier, res, only=None):
    from unified_planning.exceptions import UPException

    b = BOUNDS[tier]
    rng = rng_for(key)
    e_env = _env.fresh_env()
    pb, ctx = instantiate_problem(WORLD, e_env)
    gfl_all = seqsem.ground_fluents(pb)
    for idx in range(b["per"]):
        er = gen_num(rng, rng.choice([1, 2, 2, 3]))
        if only is not None and idx != only:
            continue
        res.case()

        def viol(mech, summary, **kw):
            res.violation(mech, summary, {"case_key": key, "tier": tier, "index": idx, "expr_recipe": er, **kw})

        try:
            e = ctx.expr(er)
        except UPException as ex:
            res.count("rejected_expression")
            continue
        except Exception as ex:
            viol(f"construction-raises:{type(ex).__name__}", f"constructing {er} raised {ex!r}")
            continue
        used = fluents_in(e)
        gfl = [(f, a) for f, a in gfl_all if f in used]
        interps, exh = interpretations(pb, rng, cap=b["cap"], fluents=gfl)
        vals = {}
        for sub in subexprs(e):
            if sub.is_constant() and not sub.args:
                continue
            try:
                t = sub.type
            except Exception as ex:
                viol(f"type-raises:{type(ex).__name__}", f"type of {sub} raised {ex!r}")
                break
            if not (t.is_int_type() or t.is_real_type()):
                viol("numeric-expression-non-numeric-type", f"type of numeric expression {sub} is {t}")
                break
            lo, hi = t.lower_bound, t.upper_bound
            if lo is not None or hi is not None:
                res.nt(str(sub))
                res.count("with_finite_bound")
            if sub.is_div():
                res.count("div_nodes")
            if sub.is_times():
                res.count("times_nodes")
            bad = None
            for I in interps:
                v = ev(sub, I, "strict")
                if v is UNDEF:
                    continue
                res.mon()
                if lo is not None and v < lo:
                    bad = (I, v, "below lower bound")
                elif hi is not None and v > hi:
                    bad = (I, v, "above upper bound")
                elif t.is_int_type() and Fraction(v).denominator != 1:
                    bad = (I, v, "non-integer value of an int-typed expression")
                if bad:
                    break
            if bad:
                I, v, why = bad
                viol(
                    f"unsound-type:{sub.node_type.name}:{why.split()[0]}",
                    f"{sub} has inferred type {t} but evaluates to {v} ({why}) under { {k[0]: str(x) for k, x in I.fluents.items()} }",
                    sub=str(sub),
                    inferred=str(t),
                    value=str(v),
                )
                break
        else:
            if idx == 0:
                res.sample({"expr": str(e), "type": str(e.type), "points": len(interps)})


# ---- symmetry of equality well-formedness ---------------------------------------------------------------------------
OPERANDS = {
    "bool-const": ["b", True],
    "bool-fluent": ["f", "bf"],
    "int-const": ["i", 5],
    "real-const": ["r", "1/2"],
    "int-fluent": ["f", "ib"],
    "real-fluent": ["f", "rb"],
    "int-unbounded-fluent": ["f", "iu"],
    "obj-T0": ["o", "a0"],
    "obj-T1-sub": ["o", "a1"],
    "obj-T2-unrelated": ["o", "a2"],
    "objfluent-T0": ["f", "of0"],
    "objfluent-T1": ["f", "of1"],
    "objfluent-T2": ["f", "of2"],
    # a hierarchy three levels deep with two branches: operands in different branches at different depths
    "obj-T11-depth2": ["o", "a11"],
    "obj-T111-depth3": ["o", "a111"],
    "obj-S1-branch2": ["o", "s1"],
    "obj-S11-branch2-depth2": ["o", "s11"],
    "objfluent-T111": ["f", "of111"],
    "objfluent-S11": ["f", "os11"],
    "var-S1": ["v", "u", ["user", "S1"]],
    "var-T1": ["v", "x", ["user", "T1"]],
    "var-T2": ["v", "z", ["user", "T2"]],
    "num-expr": ["plus", ["f", "ib"], ["r", "1/3"]],
    "bool-expr": ["not", ["f", "bf"]],
    # timepoints compare with numbers and timepoints only, in either order
    "time-start": ["timing", ["start", "0"]],
    "time-end-delay": ["timing", ["end", "2"]],
    "time-global-start": ["timing", ["gstart", "1/2"]],
}


def build_eq(l, r):
    from unified_planning.exceptions import UPException

    e_env = _env.fresh_env()
    pb, ctx = instantiate_problem(WORLD, e_env)
    try:
        n = ctx.expr(["eq", l, r])
        # a second construction must give the same outcome (no first-time-only rejection)
        n2 = ctx.expr(["eq", l, r])
        return ("accepted", str(n.type), n2 is n)
    except UPException as ex:
        try:
            ctx.expr(["eq", l, r])
            again = "accepted-second-time"
        except UPException:
            again = "rejected-again"
        return ("rejected", type(ex).__name__, again)


def symmetry(res, tier, only=None):
    names = sorted(OPERANDS)
    for a, b in product(names, names):
        if only and [a, b] != only:
            continue
        res.case()
        res.mon()
        try:
            x = build_eq(OPERANDS[a], OPERANDS[b])
            y = build_eq(OPERANDS[b], OPERANDS[a])
        except Exception as ex:
            res.violation(f"equals-construction-raises:{type(ex).__name__}", f"Equals({a},{b}) raised {ex!r}", {"symmetry": [a, b], "tier": tier})
            continue
        res.count("equality_pairs")
        if a != b:
            res.nt(("eq", a, b))
        for side, out in ((f"Equals({a},{b})", x), (f"Equals({b},{a})", y)):
            if out[0] == "rejected" and out[2] != "rejected-again":
                res.violation("equality-outcome-unstable", f"{side} was rejected the first time and accepted the second time", {"symmetry": [a, b], "tier": tier})
            if out[0] == "accepted" and out[1] != "bool":
                res.violation("equality-not-bool", f"{side} has type {out[1]}", {"symmetry": [a, b], "tier": tier})
        if x[0] != y[0]:
            res.violation(
                "equality-asymmetric",
                f"Equals({a},{b}) is {x[0]} but Equals({b},{a}) is {y[0]}",
                {"symmetry": [a, b], "tier": tier, "forward": list(x), "mirrored": list(y)},
            )


def thresholds(m):
    c = m["counters"]
    out = []
    for k, n in (("with_finite_bound", 300), ("div_nodes", 100), ("times_nodes", 100), ("equality_pairs", 500)):
        if c.get(k, 0) < n:
            out.append(f"{k} observed {c.get(k, 0)} < {n}")
    from vk.mon import suite as _suite

    out.extend(_suite.thresholds(c, SUITE[1], 200))
    out.extend(_suite.thresholds(c, "M-types:equalities", 300))
    return out

"""C12 — NNF and DNF conversions are logically equivalent to their input and in normal form."""
from vk import env as _env  # noqa: F401
from vk.core import rng_for, simple_plan
from vk.gen.expr import ExprWorld, instantiate_world
from vk.gen.interp import interpretations
from vk.ref.evalx import ev, UNDEF, fluents_in, free_vars, Unsupported
from vk.ref import seqsem

PROPERTY = "C12"
LEVEL = "exploration"
TECHNIQUE = "runtime monitoring: Nnf/Dnf outputs judged by reference evaluation under all (small-domain) interpretations plus normal-form shape predicates"
LEVEL_TEXT = (
    "Every get_nnf_expression / get_dnf_expression result on generated Boolean expressions (Boolean fluents, object equalities, numeric comparisons, "
    "constant-only atoms, implications and equivalences) is evaluated against its input under all interpretations of the small finite domains (sampled "
    "when larger) by the reference evaluator, and its shape is checked (NNF: no Implies/Iff, Not only above atoms; DNF: disjunction of conjunctions of literals). "
    "In the thorough tier the repository's own test-suite is re-run with pass-through wrappers on Nnf.get_nnf_expression / Dnf.get_dnf_expression: "
    "same shape predicates, truth values compared under 24 random first-order interpretations per call."
)
LEVEL_NOTE = (
    "Trusted: vk/ref/evalx.py. Quantifier-free expressions only, as in the property quantifier (the converters treat quantified sub-formulae as opaque atoms). "
    "Suite monitor (vk/mon/universal.install_dnf): trusted are also pytest/xdist and the monkey-patched wrappers; the inputs there are lifted (fluents applied to "
    "action parameters), so an interpretation gives every parameter / free variable a value of its type (objects occurring in the expression plus two fresh "
    "elements per user type) and every fluent a lazily filled random function table; inputs with quantifiers, timing / agent-dot / trajectory / "
    "interpreted-function nodes or two fluents of one name are counted as unjudged; each distinct (converter, input) is judged once per process."
)
RULE = (
    "cases = Boolean expression recipes (<= ~9 connectives) over a generated world with planted constant-only atoms (1<=2, 3<2, o==o); evaluations = "
    "(expression, converter) pairs; distinct_nontrivial = distinct expressions containing a constant-only atom or an Iff/Implies. Thorough tier only: one run "
    "of unified_planning/test under M-dnf; one evaluation = one distinct converter call judged (suite:M-dnf:judged); witnesses carry the test id (\"suite\": true) "
    "and are replayed by re-running that test file under the monitor; inconclusive if the suite ran and fewer than 150 calls were judged."
)
ASSUMPTIONS = ["arithmetic atoms are interpreted arithmetically (not as independent propositional atoms)"]
BOUNDS = {"quick": dict(n=600, per=6, cap=64), "thorough": dict(n=48000, per=10, cap=128)}


def plan(tier, seed):
    b = BOUNDS[tier]
    return simple_plan(PROPERTY, tier, seed, b["n"], b["n"])


SUITE = (("dnf",), "M-dnf:judged")


def run_shard(spec, res):
    if spec["tier"] == "thorough" and spec["shard"] == 1:
        # the repository's own test-suite re-run with the universal monitor M-dnf installed (DESIGN §4): every Nnf / Dnf result
        # computed by the tests and by the compilers they drive (negative / disjunctive conditions removers) is judged
        from vk.mon import suite as _suite

        _suite.feed(res, PROPERTY, _suite.run_suite(SUITE[0]), SUITE[1])
    for key in spec["cases"]:
        try:
            run_case(key, spec["tier"], res)
        except Unsupported:
            res.count("skipped_unsupported_by_oracle")


def replay(witness, res):
    if witness.get("suite"):
        from vk.mon import suite as _suite

        _suite.replay_suite(res, PROPERTY, SUITE[0], SUITE[1], witness)
        return
    run_case(witness["case_key"], witness.get("tier", "quick"), res, only=witness.get("index"))


CONST_ATOMS = [
    ["le", ["i", 1], ["i", 2]],
    ["lt", ["i", 3], ["i", 2]],
    ["le", ["i", 2], ["i", 3]],
    ["eq", ["i", 2], ["i", 2]],
    ["lt", ["r", "1/2"], ["r", "1/3"]],
    ["b", True],
    ["b", False],
]


def plant(rng, e, p):
    """Replace some leaves / wrap some nodes with constant-only atoms."""
    if not isinstance(e, list):
        return e
    k = e[0]
    if k in ("and", "or"):
        args = [plant(rng, a, p) for a in e[1:]]
        if rng.random() < p:
            args.insert(rng.randrange(len(args) + 1), rng.choice(CONST_ATOMS))
        return [k] + args
    if k == "not":
        return ["not", plant(rng, e[1], p)]
    if k in ("implies", "iff"):
        return [k, plant(rng, e[1], p), plant(rng, e[2], p)]
    if rng.random() < p * 0.3:
        return rng.choice(CONST_ATOMS)
    return e


def has(e, kinds):
    if not isinstance(e, list):
        return False
    if e[0] in kinds:
        return True
    if e[0] in ("and", "or", "not", "implies", "iff"):
        return any(has(a, kinds) for a in e[1:])
    return False


def is_const_atom(e):
    return isinstance(e, list) and e in CONST_ATOMS


def has_const_atom(e):
    if not isinstance(e, list):
        return False
    if is_const_atom(e):
        return True
    if e[0] in ("and", "or", "not", "implies", "iff"):
        return any(has_const_atom(a) for a in e[1:])
    return False


def is_atom(x):
    return not (x.is_and() or x.is_or() or x.is_not() or x.is_implies() or x.is_iff())


def is_literal(x):
    return is_atom(x) or (x.is_not() and is_atom(x.arg(0)))


def nnf_shape(x):
    st = [x]
    while st:
        y = st.pop()
        if y.is_implies() or y.is_iff():
            return f"contains {y.node_type.name}"
        if y.is_not():
            if not is_atom(y.arg(0)):
                return "Not above a non-atom"
            continue
        if y.is_and() or y.is_or():
            st.extend(y.args)
    return None


def dnf_shape(x):
    def conj(c):
        if is_literal(c):
            return True
        return c.is_and() and all(is_literal(l) for l in c.args)

    if conj(x):
        return None
    if x.is_or() and all(conj(c) for c in x.args):
        return None
    return "not a disjunction of conjunctions of literals"


def run_case(key, tier, res, only=None):
    from unified_planning.exceptions import UPException
    from unified_planning.model.walkers import Dnf, Nnf

    b = BOUNDS[tier]
    rng = rng_for(key)
    w = ExprWorld(rng, profile=dict(quantifiers=False, interpreted_functions=0.0))
    e_env = _env.fresh_env()
    try:
        pb, ctx = instantiate_world(w, e_env)
    except UPException:
        res.count("rejected_at_build")
        return
    ptypes = [(n, ctx.type(t)) for n, t in w.params]
    vtypes = [(n, ctx.type(t)) for n, t in w.vars]
    nnf, dnf = Nnf(e_env), Dnf(e_env)
    for idx in range(b["per"]):
        if only is not None and idx != only:
            # keep the rng stream aligned
            er = plant(rng, w.boolean(rng.choice([2, 3, 3])), 0.35)
            continue
        er = plant(rng, w.boolean(rng.choice([2, 3, 3])), 0.35)
        try:
            e = ctx.expr(er)
        except UPException:
            res.count("rejected_expression")
            continue
        nontrivial = has_const_atom(er) or has(er, ("implies", "iff"))
        used = fluents_in(e)
        gfl = [(f, a) for f, a in seqsem.ground_fluents(pb) if f in used]
        fv = free_vars(e)
        interps, exh = interpretations(pb, rng, ptypes, [(n, t) for n, t in vtypes if n in fv], cap=b["cap"], fluents=gfl)
        for name, fn, shape in (("nnf", nnf.get_nnf_expression, nnf_shape), ("dnf", dnf.get_dnf_expression, dnf_shape)):
            res.case()

            def viol(mech, summary, **kw):
                res.violation(mech, summary, {"case_key": key, "tier": tier, "index": idx, "converter": name, "expr": str(e), "expr_recipe": er, "world": w.rec, **kw})

            try:
                out = fn(e)
            except Exception as ex:
                viol(f"{name}-raises:{type(ex).__name__}", f"{name}({e}) raised {ex!r}")
                continue
            if nontrivial:
                res.nt(str(er) + name)
            if has_const_atom(er):
                res.count("with_constant_atom")
            if has(er, ("implies", "iff")):
                res.count("with_implies_iff")
            res.mon()
            sh = shape(out)
            if sh:
                viol(f"{name}-shape", f"{name}({e}) = {out}: {sh}", output=str(out))
                continue
            bad = None
            for I in interps:
                v = ev(e, I, "strict")
                if v is UNDEF:
                    continue
                res.mon()
                vo = ev(out, I, "strict")
                if vo is UNDEF or bool(vo) != bool(v):
                    bad = (I, v, vo)
                    break
            if exh:
                res.count("exhaustive_pairs")
            if bad:
                I, v, vo = bad
                viol(
                    f"{name}-not-equivalent" + (":constant-atom" if has_const_atom(er) else ""),
                    f"{name}({e}) = {out}: input is {v}, output is {vo} under fluents={ {str(k): str(x) for k, x in I.fluents.items()} } params={I.params} vars={I.vars}",
                    output=str(out),
                )
                continue
            if idx == 0 and name == "dnf":
                res.sample({"expr": str(e), "dnf": str(out), "interpretations": len(interps), "exhaustive": exh})


def thresholds(m):
    c = m["counters"]
    out = []
    for k, n in (("with_constant_atom", 100), ("with_implies_iff", 100), ("exhaustive_pairs", 100)):
        if c.get(k, 0) < n:
            out.append(f"{k} observed {c.get(k, 0)} < {n}")
    from vk.mon import suite as _suite

    out.extend(_suite.thresholds(c, SUITE[1], 150))
    return out

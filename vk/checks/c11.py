"""C11 — simplification preserves meaning, introduces no free variable, is idempotent, also for huge constants."""
from vk import env as _env  # noqa: F401
from vk.core import rng_for, simple_plan, h
from vk.gen.expr import ExprWorld, instantiate_world
from vk.gen.interp import interpretations
from vk.ref.evalx import ev, UNDEF, free_vars, fluents_in, Unsupported, const_value, size
from vk.ref import seqsem

PROPERTY = "C11"
LEVEL = "exploration"
TECHNIQUE = "runtime monitoring: every Simplifier.simplify result judged by exact reference evaluation of input and output under enumerated / corner / extreme interpretations"
LEVEL_TEXT = (
    "For generated well-typed expressions (Boolean connectives, quantifiers over hierarchical user types, equalities, comparisons, + - * / with "
    "constants of any magnitude, fluents, parameters, free variables, interpreted functions) the environment-wide simplifier and a problem-bound "
    "simplifier are run and their outputs compared with the inputs by exact (Fraction) evaluation under all interpretations of small finite "
    "domains or corner/extreme/random samples of infinite ones; plus free-variable containment and idempotence. This replaces the SMT check named in "
    "the quantifier text and is weaker on infinite domains. Held on the expressions and interpretations observed."
)
LEVEL_NOTE = "Trusted: vk/ref/evalx.py (oracle), vk/gen/interp.py; static fluents are computed by the harness (never an effect target) and pinned to their initial values."
RULE = (
    "cases = expression recipes from vk/gen/expr.py over a generated world; evaluations = (expression, simplifier mode) pairs judged; per pair up to 48 "
    "interpretations (exhaustive when the product of domains is <= 48). distinct_nontrivial = distinct expressions whose simplified form differs from the input."
)
ASSUMPTIONS = ["interpretations where the input is undefined (division by zero) are skipped", "no empty user types (H15)"]
BOUNDS = {"quick": dict(n=700, per=8, cap=32), "thorough": dict(n=12000, per=12, cap=64)}


def plan(tier, seed):
    b = BOUNDS[tier]
    return simple_plan(PROPERTY, tier, seed, b["n"], b["n"])


def run_shard(spec, res):
    if spec["tier"] == "thorough" and spec["shard"] == 1:
        # the repository's own test-suite re-run with the universal monitor installed (DESIGN §4): every internal call is judged
        from vk.mon import suite as _suite

        _suite.feed(res, PROPERTY, _suite.run_suite(("simplify",)), "M-simplify:calls")
    for key in spec["cases"]:
        try:
            run_case(key, spec["tier"], res)
        except Unsupported:
            res.count("skipped_unsupported_by_oracle")


def replay(witness, res):
    if witness.get("suite"):
        from vk.mon import suite as _suite

        _suite.replay_suite(res, PROPERTY, ("simplify",), "M-simplify:calls", witness)
        return
    run_case(witness["case_key"], witness.get("tier", "quick"), res, only=witness.get("index"))


def same(a, b):
    if a is UNDEF or b is UNDEF:
        return a is b
    if isinstance(a, bool) or isinstance(b, bool):
        return isinstance(a, bool) and isinstance(b, bool) and a == b
    return a == b


def static_pins(pb, rec):
    targets = set()
    for a in rec["actions"]:
        for e in a["effects"]:
            targets.add(e["fluent"][1])
    s0 = seqsem.initial_state(pb)
    pins = {k: v for k, v in s0.items() if k[0] not in targets}
    return pins, {f["name"] for f in rec["fluents"]} - targets


def run_case(key, tier, res, only=None):
    from unified_planning.exceptions import UPException
    from unified_planning.model.walkers import Simplifier

    b = BOUNDS[tier]
    rng = rng_for(key)
    w = ExprWorld(rng)
    e_env = _env.fresh_env()
    try:
        pb, ctx = instantiate_world(w, e_env)
    except UPException:
        res.count("rejected_at_build")
        return
    pins, static_names = static_pins(pb, w.rec)
    psimp = Simplifier(e_env, pb)
    ptypes = [(n, ctx.type(t)) for n, t in w.params]
    vtypes = [(n, ctx.type(t)) for n, t in w.vars]
    recipes = []
    for i in range(b["per"]):
        x = rng.random()
        if x < 0.35:
            recipes.append(("bool", w.boolean(rng.choice([2, 2, 3]))))
        elif x < 0.5:
            recipes.append(("bool-huge", w.boolean(2, huge=0.6)))
        elif x < 0.65:
            recipes.append(("num", w.numeric(rng.choice([2, 3]))))
        elif x < 0.75:
            recipes.append(("num-huge", w.numeric(2, huge=0.7)))
        elif x < 0.87:
            c = w.const_div()
            recipes.append(("const-div", c if rng.random() < 0.5 else [rng.choice(["le", "eq", "lt"]), c, w.numeric(1)]))
        elif x < 0.94:
            recipes.append(("exists-eq", w.exists_eq()))
        else:
            recipes.append(("exists-eq2", w.exists_eq2()))
    for idx, (cls, er) in enumerate(recipes):
        if only is not None and idx != only:
            continue
        try:
            e = ctx.expr(er)
        except UPException:
            res.count("rejected_expression")
            continue
        except ZeroDivisionError:
            res.count("rejected_expression")
            continue
        for mode in ("env", "problem"):
            res.case()

            def viol(mech, summary, **kw):
                res.violation(mech, summary, {"case_key": key, "tier": tier, "index": idx, "class": cls, "mode": mode, "expr": str(e), "expr_recipe": er, "world": w.rec, **kw})

            try:
                s = e.simplify() if mode == "env" else psimp.simplify(e)
            except Exception as ex:
                viol(f"simplify-raises:{type(ex).__name__}:{cls}", f"simplify({e}) [{mode}] raised {ex!r}")
                continue
            res.count("class:" + cls)
            if s is not e:
                res.nt(str(er))
                res.count("changed")
            if mode == "problem" and any(f.name in static_names for f in fluents_in(e)):
                res.count("static-folding-candidate")
            if cls.startswith("exists-eq") and not s.is_exists():
                res.count("exists-eliminated")
            # FV containment
            res.mon()
            fv_e, fv_s = free_vars(e), free_vars(s)
            if not fv_s <= fv_e:
                viol("new-free-variable:" + cls, f"simplify({e}) = {s} has new free variables {sorted(fv_s - fv_e)}", simplified=str(s))
                continue
            # idempotence
            try:
                s2 = s.simplify() if mode == "env" else psimp.simplify(s)
            except Exception as ex:
                viol(f"resimplify-raises:{type(ex).__name__}", f"simplify(simplify({e})) raised {ex!r}", simplified=str(s))
                continue
            if s2 is not s:
                viol("not-idempotent:" + mode + ":" + s.node_type.name + "->" + s2.node_type.name, f"simplify({e}) = {s} but simplifying again gives {s2}", simplified=str(s), again=str(s2))
            # semantic equivalence
            used = fluents_in(e) | fluents_in(s)
            gfl = [(f, a) for f, a in seqsem.ground_fluents(pb) if f in used]
            pin = {k: v for k, v in pins.items() if any(k[0] == f.name for f in used)} if mode == "problem" else {}
            fvars = [(n, t) for n, t in vtypes if n in fv_e]
            interps, exh = interpretations(pb, rng, ptypes, fvars, pinned=pin, cap=b["cap"], fluents=gfl)
            bad = None
            defined = 0
            for I in interps:
                try:
                    v = ev(e, I, "strict")
                except ZeroDivisionError:
                    v = UNDEF
                if v is UNDEF:
                    continue
                defined += 1
                res.mon()
                try:
                    vs = ev(s, I, "strict")
                except ZeroDivisionError:
                    vs = UNDEF
                if not same(v, vs):
                    bad = (I, v, vs)
                    break
            res.count("interpretations_defined", defined)
            if exh:
                res.count("exhaustive_pairs")
            if bad:
                I, v, vs = bad
                big = any(abs(const_value(c)) > 2**53 for c in _consts(e) if not isinstance(const_value(c), (bool, str)))
                viol(
                    f"value-changed:{cls}" + (":huge-constant" if big else "") + (":" + mode),
                    f"simplify({e}) = {s}: value {v} became {vs} under fluents={ {str(k): str(x) for k, x in I.fluents.items()} } params={I.params} vars={I.vars}",
                    simplified=str(s),
                    expected=str(v),
                    observed=str(vs),
                )
                continue
            if idx == 0 and mode == "env":
                res.sample({"expr": str(e), "simplified": str(s), "interpretations": len(interps), "exhaustive": exh, "class": cls})


def _consts(e):
    out, st = [], [e]
    while st:
        x = st.pop()
        if x.is_int_constant() or x.is_real_constant():
            out.append(x)
        st.extend(x.args)
    return out


def thresholds(m):
    c = m["counters"]
    out = []
    for k, n in (("class:exists-eq2", 20), ("class:const-div", 20), ("exists-eliminated", 5), ("static-folding-candidate", 20), ("class:bool-huge", 20), ("changed", 50)):
        if c.get(k, 0) < n:
            out.append(f"class {k} observed {c.get(k, 0)} < {n} times")
    return out

"""C22 — problem cloning yields an equal, independent copy that accepts the same edits.

Twin monitor: a generated problem P (Problem, ContingentProblem, HierarchicalProblem, MultiAgentProblem, SchedulingProblem)
is cloned; right after cloning `clone == P`, `P == clone`, equal hashes and equal kinds are demanded.  Then one history of
model-building operations is applied to both: every operation is first applied to one (random) side while the other
side's canonical form (repr) must stay unchanged, then to the other side; the two outcomes (ok / exception class)
must coincide and the two problems must stay equal."""
from collections import OrderedDict
import json

from vk import env as _env  # noqa: F401
from vk.core import rng_for, simple_plan, h, jdump
from vk.gen.problem import G

PROPERTY = "C22"
LEVEL = "exploration"
TECHNIQUE = "runtime monitoring: original-vs-clone twin executed in lock-step over generated model-building histories (outcome, equality and independence checks after every operation)"
LEVEL_TEXT = (
    "Every clone() call and every subsequent model-building call observed on the original and on its clone is judged: "
    "equality / hash / kind right after cloning, identical acceptance of each operation, equality after each operation, "
    "and no change of the untouched side; in the thorough tier the repository's own test-suite is re-run with a pass-through "
    "monitor on clone() of the problem and action classes (class, ==, hash for every clone; kind and an independence probe on "
    "a second clone for the first clones of every test); held on the generated problems and histories and the observed clones only."
)
LEVEL_NOTE = (
    "Trusted: CPython, the public constructors / add_* / set_* API used to build and edit both sides, repr() as the "
    "canonical form for the independence check, the library's own == / hash / kind for the equality demands (the "
    "property is stated in terms of them). Differences the library's == does not look at (e.g. epsilon, per-fluent "
    "defaults without effect on the initial state) are recorded as observations, not judged. Suite monitor "
    "(vk/mon/universal.install_clone): trusted are also pytest/xdist and the monkey-patched clone wrappers; only outermost "
    "clone() calls are judged (the action clones made inside Problem.clone are covered by the problem's ==); the independence "
    "probe never edits an object the test owns: it takes a SECOND clone, edits that one through the public API (add fluent / "
    "goal / timed goal / timed effect / invariant / action / object / metric, set initial value, add precondition / effect to the "
    "clone's actions, rename) and demands unchanged repr() of the original and of the clone handed to the test; at most 600 "
    "clones per test are judged and 4 problems + 4 actions per test probed; == that raises even on `P == P` is don't-care."
)
RULE = (
    "case = one generated problem of one of 5 classes (classical/numeric C01-grammar recipe extended with timed effects incl. "
    "increase/decrease, timed goals, trajectory constraints, metrics, a durative action, epsilon; plus sensing action / "
    "hidden-fluent constraints, tasks / methods / initial task network, agents / environment fluents, activities / "
    "resources) and a history of 10-40 operations: add fluent / object / action / goal / timed effect (assign, increase, "
    "decrease) / timed goal / trajectory constraint / metric, set initial value, add effect to an existing action, incl. "
    "operations that must be rejected (name clashes, conflicting effects). evaluations = operations judged + clone "
    "judgements. distinct_nontrivial = distinct (class, problem, history) with >= 1 operation rejected on at least one side "
    "or touching state created before the clone. Thorough tier only: one run of unified_planning/test under M-clone; one "
    "evaluation = one outermost clone() judged (suite:M-clone:judged); witnesses carry the test id (\"suite\": true) and are "
    "replayed by re-running that test file under the monitor; inconclusive if the suite ran and fewer than 1500 clones were "
    "judged or fewer than 300 independence probes were made."
)
ASSUMPTIONS = [
    "equality, hash and kind are the library's own notions (the statement is phrased in them)",
    "repr(problem) is a faithful canonical form for detecting that the untouched side changed",
    "an operation's outcome is 'ok' or the class of the exception it raised; messages are not compared",
]
SHARD_TIMEOUT = {"quick": 900, "thorough": 7200}
N = {"quick": 320, "thorough": 6000}
CLASSES = ["Problem", "ContingentProblem", "HierarchicalProblem", "MultiAgentProblem", "SchedulingProblem"]
TIMINGS = [["gstart", "2"], ["gstart", "5"], ["gstart", "7/2"]]
PROFILE = dict(undefined_init=0.1, invariants=0.2, traj=0.3, interpreted_functions=0.0, max_actions=2, div=False)


def plan(tier, seed):
    return simple_plan(PROPERTY, tier, seed, N["quick"], N["thorough"], shards_quick=16)


SUITE = (("clone",), "M-clone:judged")


def run_shard(spec, res):
    if spec["tier"] == "thorough" and spec["shard"] == 1:
        # the repository's own test-suite re-run with the universal monitor M-clone installed (DESIGN §4): every clone() of a
        # problem / action made by the tests and by the compilers they drive is judged
        from vk.mon import suite as _suite

        _suite.feed(res, PROPERTY, _suite.run_suite(SUITE[0]), SUITE[1])
    for key in spec["cases"]:
        run_case(key, spec["tier"], res)


def replay(witness, res):
    if witness.get("suite"):
        from vk.mon import suite as _suite

        _suite.replay_suite(res, PROPERTY, SUITE[0], SUITE[1], witness)
        return
    run_case(witness["case_key"], witness.get("tier", "quick"), res)


# =====================================================================================================================
# generation of the pre-clone problem
# =====================================================================================================================
def ground_exps(g, rec, pred=lambda f: True):
    out = []
    for f in rec["fluents"]:
        if pred(f):
            for args in g.ground_args(f):
                out.append((f, ["f", f["name"]] + [["o", a] for a in args]))
    return out


def gen_base(rng):
    """C01-grammar recipe + temporal extension. Returns (recipe, G)."""
    g = G(rng, dict(PROFILE, metric=rng.choice([None, None, "costs", "length", "minfinal", "oversub"])))
    rec = g.gen()
    gf = ground_exps(g, rec)
    rec["timed_effects"] = []
    used = {}
    for _ in range(rng.choice([0, 1, 2, 3])):
        f, fe = rng.choice(gf)
        t = rng.choice(TIMINGS[:2])
        numeric = f["type"] != "bool" and f["type"][0] in ("int", "real")
        kind = rng.choice(["assign", "inc", "dec"]) if numeric else "assign"
        k = (jdump(t), jdump(fe))
        prev = used.get(k)
        if prev is not None and (prev == "assign" or kind == "assign"):
            continue
        v = g.const_for(f["type"]) if kind == "assign" else ["i", rng.choice([1, 2])]
        if v is None:
            continue
        used[k] = kind
        rec["timed_effects"].append([t, {"kind": kind, "fluent": fe, "value": v, "cond": None, "forall": []}])
    rec["timed_goals"] = []
    for _ in range(rng.choice([0, 0, 1, 2])):
        rec["timed_goals"].append([rng.choice([["point", TIMINGS[0]], ["closed", TIMINGS[0], TIMINGS[1]], ["lopen", TIMINGS[0], TIMINGS[1]]]), g.boolean(1, {})])
    if rng.random() < 0.4:
        f, fe = rng.choice(gf)
        v = g.const_for(f["type"])
        effs = [[["start"], {"kind": "assign", "fluent": fe, "value": v, "cond": None, "forall": []}]] if v is not None else []
        nf = [x for x in gf if x[0]["type"] != "bool" and x[0]["type"][0] in ("int", "real")]
        if nf and rng.random() < 0.6:
            f2, fe2 = rng.choice(nf)
            effs.append([["end"], {"kind": rng.choice(["inc", "dec"]), "fluent": fe2, "value": ["i", 1], "cond": None, "forall": []}])
        rec["actions"].append({"name": "dur0", "params": [], "duration": ["fixed", ["i", 3]], "conds": [[["point", ["start"]], g.boolean(1, {})]], "effects": effs})
    if rng.random() < 0.3:
        rec["epsilon"] = rng.choice(["1/10", "1/2"])
    return rec, g


def pre_clone_index(rec):
    """(timing, fluent) -> kinds of the timed effects present before cloning; action -> fluents with effects."""
    te = {}
    for t, e in rec.get("timed_effects", []):
        te.setdefault((jdump(t), jdump(e["fluent"])), set()).add("assign" if e["kind"] == "assign" else "incdec")
    return te


class Built:
    """A pre-clone problem with what the operation generator needs to know about it."""

    def __init__(self, cls, pb, ctx, rec, g, extra=None):
        self.cls, self.pb, self.ctx, self.rec, self.g = cls, pb, ctx, rec, g
        self.extra = extra or {}


def build_problem_family(cls, rng, env):
    from unified_planning.model import Problem
    from unified_planning.model.contingent import ContingentProblem, SensingAction
    from unified_planning.model.htn import HierarchicalProblem, Method, Subtask
    from vk.recipe import instantiate_problem

    rec, g = gen_base(rng)
    pcls = {"Problem": Problem, "ContingentProblem": ContingentProblem, "HierarchicalProblem": HierarchicalProblem}[cls]
    pb, ctx = instantiate_problem(rec, env, problem_cls=pcls)
    extra = {}
    bools = [fe for f, fe in ground_exps(g, rec, lambda f: f["type"] == "bool")]
    if cls == "ContingentProblem":
        if len(bools) >= 2 and rng.random() < 0.8:
            sel = rng.sample(bools, 2)
            (pb.add_oneof_initial_constraint if rng.random() < 0.5 else pb.add_or_initial_constraint)([ctx.expr(e) for e in sel])
            extra["hidden"] = sel
        sa = SensingAction("sense0", OrderedDict(), env)
        sa.add_precondition(ctx.expr(g.boolean(1, {})))
        sa.add_observed_fluent(ctx.expr(rng.choice(bools)))
        pb.add_action(sa)
        extra["sensing"] = "sense0"
    if cls == "HierarchicalProblem":
        task = pb.add_task("tk0")
        for mi in range(rng.choice([1, 2])):
            m = Method(f"m{mi}", OrderedDict(), env)
            m.set_task(task)
            if rng.random() < 0.5:
                m.add_precondition(ctx.expr(g.boolean(1, {})))
            for a in rng.sample(rec["actions"], min(len(rec["actions"]), rng.choice([1, 2]))):
                args = []
                for pn, pt in a["params"]:
                    args.append(ctx.expr(["o", rng.choice(g.objs_of(pt[1]))]) if pt[0] == "user" else 0)
                m.add_subtask(Subtask(pb.action(a["name"]), *args, _env=env))
            pb.add_method(m)
        pb.task_network.add_subtask(Subtask(task, _env=env))
        if rng.random() < 0.5:
            pb.task_network.add_subtask(Subtask(task, _env=env))
    return Built(cls, pb, ctx, rec, g, extra)


def build_ma(rng, env):
    from unified_planning.model import Fluent, Object, InstantaneousAction
    from unified_planning.model.multi_agent import MultiAgentProblem, Agent
    from vk.recipe import Ctx

    ctx = Ctx(env)
    tm, em = env.type_manager, env.expression_manager
    T = ctx.types["T0"] = tm.UserType("T0")
    idf = {}
    if rng.random() < 0.8:
        idf[tm.BoolType()] = em.Bool(rng.random() < 0.5)
    if rng.random() < 0.8:
        idf[tm.IntType()] = em.Int(rng.choice([0, 2]))
    pb = MultiAgentProblem("ma", env, initial_defaults=idf)
    for o in ("o0", "o1"):
        ctx.objects[o] = Object(o, T, env)
        pb.add_object(ctx.objects[o])
    # recipe mirror so that vk.gen.problem.G can generate expressions over the environment fluents
    rec = {"types": [["T0", None]], "objects": [["o0", ["user", "T0"]], ["o1", ["user", "T0"]]], "fluents": [], "actions": []}

    def mk(name, t, sig=()):
        fl = Fluent(name, ctx.type(t), OrderedDict((n, ctx.type(pt)) for n, pt in sig), env)
        ctx.fluents[name] = fl
        return fl

    envf = [("e0", "bool", []), ("e1", "bool", [["x", ["user", "T0"]]]), ("en", ["int", None, None], [])]
    for name, t, sig in envf:
        fl = mk(name, t, sig)
        pb.ma_environment.add_fluent(fl, default_initial_value=(False if t == "bool" else 0))
        rec["fluents"].append({"name": name, "type": t, "sig": sig, "default": None})
    pf = mk("pf", "bool")
    pr = mk("pr", ["int", None, None])
    agents = []
    for ai in range(2):
        ag = Agent(f"ag{ai}", pb)
        ag.add_public_fluent(pf, default_initial_value=False)
        ag.add_private_fluent(pr, default_initial_value=0)
        act = InstantaneousAction(f"act{ai}", OrderedDict([("y", T)]), env)
        ctx.params = {"y": act.parameter("y")}
        act.add_precondition(ctx.expr(["f", "e1", ["p", "y"]]))
        act.add_effect(ctx.expr(["f", "pf"]), True)
        k = rng.choice(["assign", "inc", "none"])
        if k == "assign":
            act.add_effect(ctx.expr(["f", "pr"]), rng.choice([1, 2]))
        elif k == "inc":
            act.add_increase_effect(ctx.expr(["f", "pr"]), 1)
        if rng.random() < 0.5:
            act.add_effect(ctx.expr(["f", "e0"]), True)
        ctx.params = {}
        ag.add_action(act)
        pb.add_agent(ag)
        agents.append(ag)
    for o in ("o0", "o1"):
        if rng.random() < 0.7:
            pb.set_initial_value(ctx.expr(["f", "e1", ["o", o]]), rng.random() < 0.5)
    if rng.random() < 0.7:
        pb.set_initial_value(ctx.expr(["f", "en"]), 3)
    if rng.random() < 0.6:
        pb.set_initial_value(em.Dot(agents[0], pf), True)
    if rng.random() < 0.6:
        pb.set_initial_value(em.Dot(agents[1], pr), 1)
    pb.add_goal(em.Dot(agents[0], pf))
    if rng.random() < 0.5:
        pb.add_goal(ctx.expr(["f", "e0"]))
    g = G(rng, dict(PROFILE))
    g.types, g.objects, g.fluents = rec["types"], rec["objects"], rec["fluents"]
    return Built("MultiAgentProblem", pb, ctx, rec, g, {"agents": ["ag0", "ag1"], "idf": {str(k): str(v) for k, v in idf.items()}})


def build_sched(rng, env):
    from unified_planning.model import Fluent, Object
    from unified_planning.model.scheduling import SchedulingProblem
    from unified_planning.model.metrics import MinimizeMakespan
    from vk.recipe import Ctx, timing

    ctx = Ctx(env)
    tm, em = env.type_manager, env.expression_manager
    pb = SchedulingProblem("sched", env)
    T = ctx.types["T0"] = tm.UserType("T0")
    for o in ("o0", "o1"):
        ctx.objects[o] = Object(o, T, env)
        pb.add_object(ctx.objects[o])
    rec = {"types": [["T0", None]], "objects": [["o0", ["user", "T0"]], ["o1", ["user", "T0"]]], "fluents": [], "actions": [], "timed_effects": []}
    for name, cap in (("r0", 3), ("r1", 2)):
        ctx.fluents[name] = pb.add_resource(name, cap)
        rec["fluents"].append({"name": name, "type": ["int", 0, cap], "sig": [], "default": ["i", cap]})
    for name, t, d in (("sb", "bool", False), ("sn", ["int", None, None], 0)):
        fl = Fluent(name, ctx.type(t), OrderedDict(), env)
        ctx.fluents[name] = fl
        pb.add_fluent(fl, default_initial_value=d)
        rec["fluents"].append({"name": name, "type": t, "sig": [], "default": ["b", d] if t == "bool" else ["i", d]})
    acts = []
    for i in range(rng.choice([1, 2])):
        a = pb.add_activity(f"a{i}", duration=rng.choice([1, 2, 3]), optional=False)
        if rng.random() < 0.8:
            a.uses(ctx.fluents[rng.choice(["r0", "r1"])], 1)
        if rng.random() < 0.5:
            a.add_effect(a.end, ctx.fluents["sb"], True)
        if rng.random() < 0.5:
            a.add_increase_effect(a.end, ctx.fluents["sn"], 1)
        acts.append(a.name)
    used = {}
    for _ in range(rng.choice([0, 1, 2, 3])):
        fname = rng.choice(["sb", "sn", "r0"])
        t = rng.choice(TIMINGS[:2])
        kind = "assign" if fname == "sb" else rng.choice(["assign", "inc", "dec"])
        k = (jdump(t), fname)
        if k in used and (used[k] == "assign" or kind == "assign"):
            continue
        used[k] = kind
        v = True if fname == "sb" else rng.choice([1, 2])
        m = {"assign": pb.add_effect, "inc": pb.add_increase_effect, "dec": pb.add_decrease_effect}[kind]
        m(timing(t), ctx.fluents[fname], v)
        rec["timed_effects"].append([t, {"kind": kind, "fluent": ["f", fname], "value": ["b", True] if fname == "sb" else ["i", v]}])
    if rng.random() < 0.6:
        pb.add_constraint(em.LE(pb.get_activity(acts[0]).end, 10))
    if rng.random() < 0.5:
        pb.add_quality_metric(MinimizeMakespan())
    if rng.random() < 0.5:
        pb.set_initial_value(ctx.fluents["sn"], 4)
    g = G(rng, dict(PROFILE))
    g.types, g.objects, g.fluents = rec["types"], rec["objects"], rec["fluents"]
    return Built("SchedulingProblem", pb, ctx, rec, g, {"activities": acts})


# =====================================================================================================================
# operations
# =====================================================================================================================
def gen_ops(b, rng, n):
    """Operation recipes (JSON). Names of things created by earlier operations may be reused by later ones."""
    g, rec, cls = b.g, b.rec, b.cls
    ops = []
    new_fluents = []  # (name, type)
    new_objects = []
    new_actions = []
    pre_te = pre_clone_index(rec)
    act_names = [a["name"] for a in rec.get("actions", [])]
    fl_names = [f["name"] for f in rec["fluents"]]

    def every_name():
        """names of every kind of element of the problem (fluents, actions, objects, types, tasks, methods, agents, agent / environment
        fluents, activities): an edit that re-uses a name of ANOTHER kind must be judged alike by the original and the clone"""
        pb, out = b.pb, set()
        for attr in ("fluents", "actions", "all_objects", "user_types", "tasks", "methods", "agents", "activities"):
            try:
                out |= {x.name for x in getattr(pb, attr)}
            except Exception:
                pass
        try:
            out |= {f.name for f in pb.ma_environment.fluents}
            for ag in pb.agents:
                out |= {f.name for f in ag.fluents} | {a.name for a in ag.actions}
        except Exception:
            pass
        return sorted(out)

    cross = every_name()

    def ground(numeric=None):
        cands = ground_exps(g, rec, (lambda f: True) if numeric is None else (lambda f: (f["type"] != "bool" and f["type"][0] in ("int", "real")) == numeric))
        cands = [(f["type"], fe) for f, fe in cands] + [(t, ["f", nm]) for nm, t in new_fluents if numeric is None or (t != "bool" and t[0] in ("int", "real")) == numeric]
        return rng.choice(cands) if cands else None

    def const(t):
        return g.const_for(t)

    for i in range(n):
        kinds = ["add_fluent", "add_object", "add_goal", "set_initial_value", "set_initial_value"]
        if cls in ("Problem", "ContingentProblem", "HierarchicalProblem"):
            kinds += ["add_action", "timed_effect", "timed_effect", "timed_effect", "timed_goal", "traj", "metric", "action_effect", "action_effect"]
        elif cls == "MultiAgentProblem":
            kinds += ["add_action", "action_effect", "action_effect", "agent_fluent", "agent_fluent", "agent_newtype"]
        else:
            kinds += ["timed_effect", "timed_effect", "timed_effect", "add_activity", "metric", "action_effect", "sched_constraint"]
            kinds.remove("add_goal")
        k = rng.choice(kinds)
        if k == "add_fluent":
            clash = rng.random() < 0.2
            name = rng.choice(fl_names + [nm for nm, _ in new_fluents]) if clash else f"nf{i}"
            if clash and cross and rng.random() < 0.55:
                name = rng.choice(cross)
            t = rng.choice(["bool", ["int", None, None], ["int", 0, 5], ["real", None, None], ["user", rec["types"][0][0]]])
            if cls == "MultiAgentProblem":
                t = rng.choice(["bool", ["int", None, None]])
            d = const(t) if rng.random() < 0.5 else None
            if cls == "MultiAgentProblem" and d is None and ("bool" if t == "bool" else "integer") not in b.extra["idf"] and rng.random() < 0.8:
                d = const(t)  # without any default == is undefined on multi-agent problems (don't-care): keep those rare
            ops.append({"op": "add_fluent", "name": name, "type": t, "default": d})
            if not clash:
                new_fluents.append((name, t))
        elif k == "agent_fluent":
            clash = rng.random() < 0.15
            name = rng.choice(["pf", "pr"]) if clash else f"af{i}"
            t = rng.choice(["bool", ["int", None, None]])
            d = const(t) if rng.random() < 0.4 else None
            if d is None and ("bool" if t == "bool" else "integer") not in b.extra["idf"] and rng.random() < 0.8:
                d = const(t)
            ops.append({"op": "agent_fluent", "agent": rng.choice(b.extra["agents"]), "public": rng.random() < 0.5, "name": name, "type": t, "default": d})
        elif k == "agent_newtype":
            # an agent-level edit that brings a user type the problem does not know yet (fluent signature / fluent type / action parameter)
            ops.append({"op": "agent_newtype", "agent": rng.choice(b.extra["agents"]), "name": f"ant{i}", "type_name": f"NT{i}", "how": rng.choice(["signature", "type", "parameter"]), "sub": rng.random() < 0.3})
        elif k == "add_object":
            clash = rng.random() < 0.2
            name = rng.choice([o for o, _ in rec["objects"]]) if clash else f"no{i}"
            if clash and cross and rng.random() < 0.55:
                name = rng.choice(cross)
            ops.append({"op": "add_object", "name": name, "type": rng.choice(rec["types"])[0]})
            if not clash:
                new_objects.append(name)
        elif k == "add_action":
            clash = rng.random() < 0.2 and act_names
            name = rng.choice(act_names) if clash else f"na{i}"
            if clash and cross and rng.random() < 0.55:
                name = rng.choice(cross)
            tgt = ground()
            effs = []
            if tgt is not None and const(tgt[0]) is not None:
                effs.append({"kind": "assign", "fluent": tgt[1], "value": const(tgt[0])})
            ops.append({"op": "add_action", "name": name, "pre": [g.boolean(1, {})], "effects": effs, "agent": rng.choice(b.extra["agents"]) if cls == "MultiAgentProblem" else None})
            if not clash:
                new_actions.append(name)
        elif k == "add_goal":
            ops.append({"op": "add_goal", "goal": g.boolean(1, {})})
        elif k == "set_initial_value":
            tgt = ground()
            if tgt is None or const(tgt[0]) is None:
                continue
            ops.append({"op": "set_initial_value", "fluent": tgt[1], "value": const(tgt[0]), "touches_preclone": tgt[1][1] in fl_names})
        elif k == "timed_effect":
            # bias towards (timing, fluent) pairs that already carry a pre-clone timed effect: this is where bookkeeping matters
            kind = rng.choice(["assign", "assign", "inc", "dec"])
            if pre_te and rng.random() < 0.6:
                tk, fk = rng.choice(sorted(pre_te))
                t, fe = json.loads(tk), json.loads(fk)
                ft = next(f["type"] for f in rec["fluents"] if f["name"] == fe[1])
            else:
                tgt = ground(numeric=None if kind == "assign" else True)
                if tgt is None:
                    continue
                ft, fe = tgt
                t = rng.choice(TIMINGS)
            if ft == "bool" or ft[0] not in ("int", "real"):
                kind = "assign"
            v = const(ft) if kind == "assign" else ["i", rng.choice([1, 2])]
            if v is None:
                continue
            touched = pre_te.get((jdump(t), jdump(fe)), set())
            ops.append({"op": "timed_effect", "kind": kind, "timing": t, "fluent": fe, "value": v, "touches": sorted(touched)})
        elif k == "timed_goal":
            ops.append({"op": "timed_goal", "interval": rng.choice([["point", TIMINGS[0]], ["closed", TIMINGS[0], TIMINGS[1]], ["point", ["gend", "-1"]]]), "goal": g.boolean(1, {})})
        elif k == "traj":
            ops.append({"op": "traj", "expr": [rng.choice(["always", "sometime", "amo"]), g.boolean(1, {})], "invariant": rng.random() < 0.3})
        elif k == "metric":
            mk = rng.choice(["costs", "length", "maxfinal", "makespan"]) if cls != "SchedulingProblem" else "makespan"
            m = {"op": "metric", "kind": mk}
            if mk == "costs":
                m["costs"] = {a: ["i", rng.choice([1, 2, 3])] for a in act_names + new_actions if rng.random() < 0.7}
                m["default"] = ["i", 1] if rng.random() < 0.5 else None
            if mk == "maxfinal":
                nf = ground(numeric=True)
                if nf is None:
                    continue
                m["expr"] = nf[1]
            ops.append(m)
        elif k == "action_effect":
            if cls == "SchedulingProblem":
                tgt = rng.choice([("bool", ["f", "sb"]), (["int", None, None], ["f", "sn"]), (["int", 0, 3], ["f", "r0"])])
                kind = "assign" if tgt[0] == "bool" else rng.choice(["assign", "inc", "dec"])
                ops.append({"op": "action_effect", "action": rng.choice(b.extra["activities"]), "kind": kind, "fluent": tgt[1], "value": ["b", True] if tgt[0] == "bool" else ["i", rng.choice([1, 2])], "when": rng.choice(["start", "end"]), "touches_preclone": True})
                continue
            if cls == "MultiAgentProblem":
                ag = rng.choice(b.extra["agents"])
                aname = f"act{ag[-1]}"
                fe, ft = rng.choice([(["f", "pr"], ["int", None, None]), (["f", "pf"], "bool"), (["f", "e0"], "bool"), (["f", "en"], ["int", None, None])])
                kind = "assign" if ft == "bool" else rng.choice(["assign", "inc", "dec"])
                ops.append({"op": "action_effect", "agent": ag, "action": aname, "kind": kind, "fluent": fe, "value": ["b", rng.random() < 0.5] if ft == "bool" else ["i", rng.choice([1, 2])], "when": None, "touches_preclone": True})
                continue
            pool = act_names + new_actions
            if not pool:
                continue
            aname = rng.choice(pool)
            arec = next((a for a in rec["actions"] if a["name"] == aname), None)
            # prefer a fluent the action already affects (conflict bookkeeping of the cloned action)
            cands = []
            if arec is not None:
                for e in arec["effects"]:
                    e = e[1] if isinstance(e, list) else e
                    if not e.get("forall"):
                        ft = next(f["type"] for f in rec["fluents"] if f["name"] == e["fluent"][1])
                        cands.append((ft, e["fluent"]))
            if not cands or rng.random() < 0.4:
                tgt = ground()
                if tgt is None:
                    continue
                cands = [tgt]
            ft, fe = rng.choice(cands)
            numeric = ft != "bool" and ft[0] in ("int", "real")
            kind = rng.choice(["assign", "inc", "dec"]) if numeric else "assign"
            v = const(ft) if kind == "assign" else ["i", rng.choice([1, 2])]
            if v is None:
                continue
            ops.append({"op": "action_effect", "action": aname, "kind": kind, "fluent": fe, "value": v, "when": rng.choice(["start", "end"]) if arec is not None and "duration" in arec else None, "touches_preclone": aname in act_names})
        elif k == "add_activity":
            clash = rng.random() < 0.2
            ops.append({"op": "add_activity", "name": rng.choice(b.extra["activities"]) if clash else f"nact{i}", "duration": rng.choice([1, 2])})
        elif k == "sched_constraint":
            ops.append({"op": "sched_constraint", "activity": rng.choice(b.extra["activities"]), "bound": rng.choice([5, 8, 12])})
    return ops


def touches_preclone(op):
    if op.get("touches_preclone") or op.get("touches"):
        return True
    if op["op"] == "metric" and op.get("costs"):
        return True
    return False


def op_kind(op):
    k = op["op"]
    if k in ("timed_effect", "action_effect"):
        return f"{k}:{'assign' if op['kind'] == 'assign' else 'incdec'}"
    return k


class Side:
    def __init__(self, b, pb):
        self.b, self.pb = b, pb

    def action(self, op):
        if self.b.cls == "MultiAgentProblem":
            return self.pb.agent(op["agent"]).action(op["action"])
        if self.b.cls == "SchedulingProblem":
            return self.pb.get_activity(op["action"])
        return self.pb.action(op["action"])

    def apply(self, op):
        """-> 'ok' | exception class name"""
        try:
            self._apply(op)
            return "ok"
        except Exception as e:  # every failure is an outcome to be compared between the two sides
            return type(e).__name__

    def _apply(self, op):
        from unified_planning.model import Fluent, Object, InstantaneousAction
        from unified_planning.model import metrics as upm
        from vk.recipe import timing, interval

        b, pb, ctx, env = self.b, self.pb, self.b.ctx, self.b.ctx.env
        k = op["op"]
        if k == "add_fluent":
            fl = ctx.fluents.get("new:" + op["name"] + jdump(op["type"]))
            if fl is None:
                fl = Fluent(op["name"], ctx.type(op["type"]), OrderedDict(), env)
                ctx.fluents["new:" + op["name"] + jdump(op["type"])] = fl
            target = pb.ma_environment if b.cls == "MultiAgentProblem" else pb
            if op["default"] is not None:
                target.add_fluent(fl, default_initial_value=ctx.expr(op["default"]))
            else:
                target.add_fluent(fl)
            ctx.fluents.setdefault(op["name"], fl)
        elif k == "agent_fluent":
            fl = ctx.fluents.get("new:" + op["name"] + jdump(op["type"]))
            if fl is None:
                fl = Fluent(op["name"], ctx.type(op["type"]), OrderedDict(), env)
                ctx.fluents["new:" + op["name"] + jdump(op["type"])] = fl
            ag = pb.agent(op["agent"])
            m = ag.add_public_fluent if op["public"] else ag.add_private_fluent
            if op["default"] is not None:
                m(fl, default_initial_value=ctx.expr(op["default"]))
            else:
                m(fl)
        elif k == "agent_newtype":
            from unified_planning.model.types import BOOL

            tm = env.type_manager
            T = tm.UserType(op["type_name"], tm.UserType(op["type_name"] + "_top")) if op["sub"] else tm.UserType(op["type_name"])
            ag = pb.agent(op["agent"])
            if op["how"] == "parameter":
                ag.add_action(InstantaneousAction(op["name"], OrderedDict(q=T), env))
            elif op["how"] == "signature":
                ag.add_private_fluent(Fluent(op["name"], BOOL, OrderedDict(q=T), env), default_initial_value=False)
            else:
                ag.add_public_fluent(Fluent(op["name"], T, OrderedDict(), env))
        elif k == "add_object":
            o = ctx.objects.get("new:" + op["name"] + op["type"])
            if o is None:
                o = Object(op["name"], ctx.types[op["type"]], env)
                ctx.objects["new:" + op["name"] + op["type"]] = o
            pb.add_object(o)
            ctx.objects.setdefault(op["name"], o)
        elif k == "add_action":
            act = InstantaneousAction(op["name"], OrderedDict(), env)  # one fresh object per side
            for c in op["pre"]:
                act.add_precondition(ctx.expr(c))
            for e in op["effects"]:
                act.add_effect(ctx.expr(e["fluent"]), ctx.expr(e["value"]))
            if b.cls == "MultiAgentProblem":
                pb.agent(op["agent"]).add_action(act)
            else:
                pb.add_action(act)
        elif k == "add_goal":
            pb.add_goal(ctx.expr(op["goal"]))
        elif k == "set_initial_value":
            pb.set_initial_value(ctx.expr(op["fluent"]), ctx.expr(op["value"]))
        elif k == "timed_effect":
            t, fe, v = timing(op["timing"]), ctx.expr(op["fluent"]), ctx.expr(op["value"])
            if b.cls == "SchedulingProblem":
                m = {"assign": pb.add_effect, "inc": pb.add_increase_effect, "dec": pb.add_decrease_effect}[op["kind"]]
            else:
                m = {"assign": pb.add_timed_effect, "inc": pb.add_increase_effect, "dec": pb.add_decrease_effect}[op["kind"]]
            m(t, fe, v)
        elif k == "timed_goal":
            pb.add_timed_goal(interval(op["interval"]), ctx.expr(op["goal"]))
        elif k == "traj":
            if op["invariant"]:
                pb.add_state_invariant(ctx.expr(op["expr"][1]))
            else:
                pb.add_trajectory_constraint(ctx.expr(op["expr"]))
        elif k == "metric":
            mk = op["kind"]
            if mk == "costs":
                costs = {pb.action(a): ctx.expr(c) for a, c in op["costs"].items()}
                pb.add_quality_metric(upm.MinimizeActionCosts(costs, ctx.expr(op["default"]) if op["default"] is not None else None, env))
            elif mk == "length":
                pb.add_quality_metric(upm.MinimizeSequentialPlanLength(env))
            elif mk == "maxfinal":
                pb.add_quality_metric(upm.MaximizeExpressionOnFinalState(ctx.expr(op["expr"]), env))
            else:
                pb.add_quality_metric(upm.MinimizeMakespan(env))
        elif k == "action_effect":
            act = self.action(op)
            fe, v = ctx.expr(op["fluent"]), ctx.expr(op["value"])
            pre = ()
            if b.cls == "SchedulingProblem":
                pre = (act.start if op["when"] == "start" else act.end,)
            elif op.get("when"):
                pre = (timing([op["when"]]),)
            m = {"assign": act.add_effect, "inc": act.add_increase_effect, "dec": act.add_decrease_effect}[op["kind"]]
            m(*pre, fe, v)
        elif k == "add_activity":
            pb.add_activity(op["name"], duration=op["duration"])
        elif k == "sched_constraint":
            pb.add_constraint(env.expression_manager.LE(pb.get_activity(op["activity"]).end, op["bound"]))
        else:
            raise ValueError(k)


# =====================================================================================================================
# canonical forms / component diff (accessor based; used for independence and for the mechanism strings)
# =====================================================================================================================
def canon(pb):
    """Canonical text of everything a problem shows through repr() (kind is derived from the same content)."""
    return repr(pb)


def components(cls, pb):
    """name -> comparable python value built from public accessors (sets / dicts of library objects, compared with ==)."""
    out = {}

    def put(name, fn):
        try:
            out[name] = fn()
        except Exception as e:
            out[name] = f"<raises {type(e).__name__}>"

    put("name", lambda: pb.name)
    put("user_types", lambda: set(pb.user_types))
    put("objects", lambda: set(pb.all_objects))
    put("explicit_initial_values", lambda: dict(pb.explicit_initial_values))
    put("initial_values", lambda: dict(pb.initial_values))
    put("kind", lambda: pb.kind)
    if cls != "MultiAgentProblem":
        put("fluents", lambda: set(pb.fluents))
        put("fluents_defaults", lambda: dict(pb.fluents_defaults))
        put("initial_defaults", lambda: dict(pb.initial_defaults))
        put("quality_metrics", lambda: list(pb.quality_metrics))
        put("epsilon", lambda: pb.epsilon)
        put("discrete_time", lambda: pb.discrete_time)
        put("self_overlapping", lambda: pb.self_overlapping)
    if cls in ("Problem", "ContingentProblem", "HierarchicalProblem"):
        put("actions", lambda: set(pb.actions))
        put("goals", lambda: set(pb.goals))
        put("timed_goals", lambda: {k: set(v) for k, v in pb.timed_goals.items()})
        put("timed_effects", lambda: {k: set(v) for k, v in pb.timed_effects.items() if v})
        put("trajectory_constraints", lambda: set(pb.trajectory_constraints))
    if cls == "ContingentProblem":
        put("hidden_fluents", lambda: set(pb.hidden_fluents))
        put("or_constraints", lambda: {frozenset(c) for c in pb.or_constraints})
        put("oneof_constraints", lambda: {frozenset(c) for c in pb.oneof_constraints})
    if cls == "HierarchicalProblem":
        put("tasks", lambda: list(pb.tasks))
        put("methods", lambda: list(pb.methods))
        put("task_network", lambda: pb.task_network)
    if cls == "MultiAgentProblem":
        put("goals", lambda: set(pb.goals))
        put("agents", lambda: set(pb.agents))
        put("ma_environment", lambda: pb.ma_environment)
        put("env_fluents_defaults", lambda: dict(pb.ma_environment.fluents_defaults))
        put("agents_fluents_defaults", lambda: {a.name: dict(a.fluents_defaults) for a in pb.agents})
        put("agents_initial_defaults", lambda: {a.name: {str(k): str(v) for k, v in a.initial_defaults.items()} for a in pb.agents})
        put("env_initial_defaults", lambda: {str(k): str(v) for k, v in pb.ma_environment.initial_defaults.items()})
    if cls == "SchedulingProblem":
        put("activities", lambda: set(pb.activities))
        put("base_effects", lambda: list(pb.base_effects))
        put("base_conditions", lambda: list(pb.base_conditions))
        put("base_constraints", lambda: list(pb.base_constraints))
        put("base_variables", lambda: list(pb.base_variables))
    return out


NOT_IN_EQ = {
    "epsilon", "discrete_time", "self_overlapping", "fluents_defaults", "initial_defaults", "explicit_initial_values",
    "env_fluents_defaults", "agents_fluents_defaults", "agents_initial_defaults", "env_initial_defaults",
}


def differing(cls, p, c, for_mechanism=False):
    cp, cc = components(cls, p), components(cls, c)
    out = []
    for k in cp:
        try:
            same = cp[k] == cc[k]
        except Exception:
            same = False
        if not same:
            out.append(k)
    if for_mechanism:
        # keep what the library's == looks at; `kind` is derived from the other components
        out = [k for k in out if k not in NOT_IN_EQ]
        if len(out) > 1 and "kind" in out:
            out.remove("kind")
    return out


# =====================================================================================================================
def run_case(key, tier, res):
    from unified_planning.exceptions import UPException

    rng = rng_for(key)
    idx = int(key.rsplit(":", 1)[1])
    cls = CLASSES[idx % len(CLASSES)]
    env = _env.fresh_env()
    if cls == "SchedulingProblem":
        # SchedulingProblem.add_activity builds Activity objects in the *global* environment, so a scheduling problem
        # with activities only works there (library limitation, outside C22): these cases use the global environment.
        env = _env.get_environment()
        res.count("scheduling_cases_in_global_environment")
    try:
        if cls == "MultiAgentProblem":
            b = build_ma(rng, env)
        elif cls == "SchedulingProblem":
            b = build_sched(rng, env)
        else:
            b = build_problem_family(cls, rng, env)
    except UPException as e:
        res.count("rejected_at_build:" + cls)
        return
    P = b.pb
    wbase = {"case_key": key, "tier": tier, "class": cls, "recipe": b.rec, "extra": b.extra}
    ops = gen_ops(b, rng, rng.randint(10, 40 if tier == "thorough" else 25))
    done = []

    def viol(mech, summary, **w):
        res.violation(mech, summary, {**wbase, "history": done, **w})

    # ---- edits BEFORE the clone (history of the original): an action-cost metric followed by an edit of one of its actions
    # (the metric must still know the action), or a random prefix of the operation list
    pre_ops = []
    if rng.random() < 0.45:
        mets = [o for o in ops if o["op"] == "metric" and o.get("costs")]
        if mets and rng.random() < 0.6:
            m = mets[0]
            effs = [o for o in ops if o["op"] == "action_effect" and o.get("action") in m["costs"]]
            pre_ops = [m] + effs[:1]
            res.count("preclone:metric-then-action-edit" if effs else "preclone:metric")
        else:
            pre_ops = ops[: rng.choice([1, 2, 3, 5])]
            res.count("preclone:random-prefix")
        ops = [o for o in ops if not any(o is q for q in pre_ops)]
        side0 = Side(b, P)
        for op in pre_ops:
            done.append({**op, "outcome": {"before-clone": side0.apply(op)}})
    # ---- clone ------------------------------------------------------------------------------------------------------
    before = canon(P)
    res.mon()
    res.case()
    try:
        C = P.clone()
    except Exception as e:
        viol(f"clone-raises:{cls}:{type(e).__name__}", f"{cls}.clone() raised {e!r}")
        return
    res.count("clones:" + cls)
    if canon(P) != before:
        viol(f"clone-changed-original:{cls}", "clone() changed the original's canonical form")
        return
    if type(C) is not type(P):
        viol(f"clone-class-differs:{cls}", f"clone is a {type(C).__name__}")
        return
    equal = True
    try:
        e1, e2 = (C == P), (P == C)
        kinds_equal = C.kind == P.kind
    except Exception as e:
        try:
            P == P
            self_ok = True
        except Exception:
            self_ok = False
        if self_ok:
            viol(f"eq-raises-after-clone:{cls}:{type(e).__name__}", f"comparing clone and original raised {e!r}")
        else:
            res.count(f"dontcare_eq_raises_even_on_self:{cls}:{type(e).__name__}")
        return
    if not (e1 and e2):
        comps = differing(cls, P, C, True)
        equal = False
        for comp in comps or ["unknown"]:  # one violation per differing component: one mechanism string per root cause
            viol(
                f"clone-not-equal:{cls}:{comp}",
                f"{cls}: clone == original is {e1}, original == clone is {e2}; differing components: {comps}",
                components=comps,
                component=comp,
            )
    elif not kinds_equal:
        viol(f"clone-kind-differs:{cls}", f"kinds differ: {sorted(set(P.kind.features) ^ set(C.kind.features))}")
        equal = False
    else:
        try:
            if hash(C) != hash(P):
                viol(f"clone-hash-differs:{cls}", "clone == original but the hashes differ")
        except Exception as e:
            viol(f"hash-raises:{cls}:{type(e).__name__}", f"hash raised {e!r}")
        for comp in differing(cls, P, C):
            res.count(f"observation:equal_clone_differs_in:{cls}:{comp}")
    # ---- lock-step history ------------------------------------------------------------------------------------------
    sides = {"orig": Side(b, P), "clone": Side(b, C)}
    nontrivial = False
    for step, op in enumerate(ops):
        first = "orig" if rng.random() < 0.5 else "clone"
        second = "clone" if first == "orig" else "orig"
        ok = op_kind(op)
        res.mon()
        res.case()
        res.count("ops:" + ok)
        res.count("ops_class:" + cls)
        snap_second = canon(sides[second].pb)
        out1 = sides[first].apply(op)
        if canon(sides[second].pb) != snap_second:
            done.append({**op, "outcome": {first: out1}})
            viol(
                f"not-independent:{cls}:{ok}",
                f"{cls}: applying {ok} to the {first} side changed the {second} side",
                step=step,
                applied_to=first,
            )
            return
        snap_first = canon(sides[first].pb)
        out2 = sides[second].apply(op)
        if canon(sides[first].pb) != snap_first:
            done.append({**op, "outcome": {first: out1, second: out2}})
            viol(
                f"not-independent:{cls}:{ok}",
                f"{cls}: applying {ok} to the {second} side changed the {first} side",
                step=step,
                applied_to=second,
            )
            return
        outs = {first: out1, second: out2}
        done.append({**op, "outcome": outs})
        rejected = out1 != "ok" or out2 != "ok"
        if rejected:
            res.count("ops_rejected:" + ok)
            res.count("rejection_class:" + (out1 if out1 != "ok" else out2))
        if rejected or touches_preclone(op):
            nontrivial = True
        if touches_preclone(op):
            res.count("ops_touching_preclone_state:" + ok)
        if outs["orig"] != outs["clone"]:
            if op.get("touches"):
                tag = op["op"] + ":conflict-with-preclone-timed-" + "+".join(op["touches"])
            elif op.get("touches_preclone"):
                tag = ok + ":touches-preclone-state"
            else:
                tag = ok
            direction = "clone-accepts" if outs["clone"] == "ok" else ("clone-rejects" if outs["orig"] == "ok" else "different-errors")
            viol(
                f"edit-outcome-differs:{cls}:{tag}:{direction}",
                f"{cls}: step {step} {ok}: the original answers {outs['orig']}, the clone answers {outs['clone']}",
                step=step,
            )
            return
        if equal:
            try:
                e1, e2 = (sides["clone"].pb == sides["orig"].pb), (sides["orig"].pb == sides["clone"].pb)
            except Exception as e:
                selfok = {}
                for nm in ("orig", "clone"):
                    try:
                        sides[nm].pb == sides[nm].pb
                        selfok[nm] = True
                    except Exception:
                        selfok[nm] = False
                if not selfok["orig"] and not selfok["clone"]:
                    # == is not even defined on this (e.g. under-specified multi-agent) problem: nothing clone-specific
                    res.count(f"dontcare_eq_raises_even_on_self:{cls}:{type(e).__name__}")
                    continue
                if selfok["orig"] != selfok["clone"]:
                    comps = differing(cls, sides["orig"].pb, sides["clone"].pb, True)
                    for comp in comps or ["unknown"]:
                        viol(
                            f"diverged-after-edit:{cls}:{comp}",
                            f"{cls}: after applying {ok} (outcome {out1}) to both sides == raises {e!r} because only the "
                            f"{'clone' if selfok['orig'] else 'original'} is no longer comparable even with itself; differing components: {comps}",
                            step=step,
                            components=comps,
                            component=comp,
                        )
                    return
                viol(f"eq-raises-after-edit:{cls}:{type(e).__name__}", f"comparing the two sides raised {e!r} after step {step} ({ok})", step=step)
                return
            if not (e1 and e2):
                comps = differing(cls, sides["orig"].pb, sides["clone"].pb, True)
                for comp in comps or ["unknown"]:
                    viol(
                        f"diverged-after-edit:{cls}:{comp}",
                        f"{cls}: after applying {ok} (outcome {out1}) to both sides they are no longer equal; differing components: {comps}",
                        step=step,
                        components=comps,
                        component=comp,
                    )
                return
        else:
            res.count("eq_checks_skipped_after_known_inequality")
    res.count("histories_completed:" + cls)
    if nontrivial:
        res.nt((cls, h(b.rec), h(ops)))
        res.count("nontrivial:" + cls)
    if idx < len(CLASSES):
        res.sample({"class": cls, "n_ops": len(ops), "first_ops": done[:5], "verdict": "agree" if equal else "clone-not-equal"})


# ---------------------------------------------------------------------------------------------------------------------
def thresholds(m):
    c = m["counters"]
    out = []
    for cls in CLASSES:
        if c.get("clones:" + cls, 0) < 30:
            out.append(f"fewer than 30 clones of {cls} judged ({c.get('clones:' + cls, 0)})")
        if c.get("ops_class:" + cls, 0) < 150:
            out.append(f"fewer than 150 operations judged on {cls} ({c.get('ops_class:' + cls, 0)})")
    for k in ("add_fluent", "add_object", "add_action", "add_goal", "set_initial_value", "timed_effect:assign", "timed_effect:incdec", "timed_goal", "traj", "metric", "action_effect:assign", "action_effect:incdec"):
        if c.get("ops:" + k, 0) < 30:
            out.append(f"fewer than 30 operations of kind {k} ({c.get('ops:' + k, 0)})")
    rej = sum(v for k, v in c.items() if k.startswith("ops_rejected:"))
    if rej < 50:
        out.append(f"fewer than 50 rejected operations ({rej})")
    pre = sum(v for k, v in c.items() if k.startswith("ops_touching_preclone_state:"))
    if pre < 100:
        out.append(f"fewer than 100 operations touching pre-clone state ({pre})")
    if len(m["nontrivial"]) < 50:
        out.append("fewer than 50 distinct non-trivial histories")
    from vk.mon import suite as _suite

    out.extend(_suite.thresholds(c, SUITE[1], 1500))
    out.extend(_suite.thresholds(c, "M-clone:independence_probes", 300))
    return out

"""C34 — HTN task-network ordering extraction (partial_order / total_order) is exact.

Directed monitor: task networks (TaskNetwork and Method) are built through the public API from JSON recipes (subtasks,
precedences written in every API spelling, optionally non-precedence temporal constraints and non-temporal constraints);
`total_order()` and `partial_order()` are judged against vk.ref.order (transitive closure, number of linear extensions by
subset DP cross-checked with permutation filtering).
"""
from fractions import Fraction

from vk import env as _env  # noqa: F401
from vk.core import rng_for, chunk, h
from vk.ref import order as ref

PROPERTY = "C34"
LEVEL = "exploration"
EXHAUSTIVE = True
TECHNIQUE = "runtime monitoring: total_order/partial_order of generated task networks judged by transitive closure and linear-extension counting; exhaustive over all small precedence relations"
LEVEL_TEXT = (
    "Every total_order()/partial_order() answer observed on the enumerated / generated task networks is compared with an "
    "independent combinatorial reference. All precedence relations of the bounded space named in the evidence are "
    "enumerated (exhaustive: true refers to that space only: relations, not every API spelling / insertion order of each)."
)
LEVEL_NOTE = (
    "Trusted: CPython, itertools, vk/ref/order.py (subset DP cross-checked against permutation filtering on every call), "
    "the public constructors of Task/Subtask/TaskNetwork/Method/Timing and the expression manager."
)
RULE = (
    "exhaustive part: every irreflexive relation on n <= 4 subtasks (4,166) and every relation incl. self-precedences on "
    "n <= 3 (531) [thorough: additionally every irreflexive relation on 5 subtasks up to relabelling of the subtasks: "
    "the 9,608 isomorphism classes of digraphs on 5 nodes, 8 random relabellings of each], each built in 3 variants "
    "(1 random variant per relabelling for n = 5): canonical/shuffled/reversed insertion and subtask order, TaskNetwork and Method, every spelling of "
    "'end(a) < start(b)' (set_strictly_before on subtasks/timepoints/timings, set_ordered, LT, GT, zero Fraction delay). "
    "random part: relations on 5-6 subtasks biased to chains / near-chains / cycles, optionally with non-temporal "
    "constraints (which must be ignored), and 'mixed' networks = precedences + >= 1 temporal constraint of another kind "
    "(delay, start<start, end<end, start<end, <=, ==, and/or/not, global or enclosing timepoints, constants, arithmetic). "
    "evaluations = judged networks. distinct_nontrivial = distinct (relation, extra constraints) with >= 2 precedences."
)
ASSUMPTIONS = [
    "oracle vk/ref/order.py is correct (two independent computations of uniqueness agree on every call)",
    "H8: for totally ordered networks partial_order() may return the chain: only its transitive closure is compared; otherwise the returned precedences must be the inserted ones as a multiset (order of the list is not judged)",
    "precedences only mention subtasks of the network (the statement says 'between its subtasks')",
]
SHARD_TIMEOUT = {"quick": 600, "thorough": 3600}

N_RANDOM = {"quick": 2400, "thorough": 120000}
N_SHARDS = {"quick": 16, "thorough": 16}

PRECEDENCE_FORMS = ["sb_subtask", "sb_timepoint", "sb_timing", "lt", "gt", "ordered", "frac0"]
ODD_FORMS = [
    "delay_lhs", "delay_rhs", "delay_neg", "delay_frac", "ss", "ee", "se", "le", "ge", "eq", "and", "or", "not",
    "global_start", "global_end", "local_end", "local_start", "const", "plus_expr", "minus_expr",
]  # fmt: skip
NT_FORMS = ["nt_boolvar", "nt_eq", "true"]
ODD_CLASS = {
    "delay_lhs": "delay", "delay_rhs": "delay", "delay_neg": "delay", "delay_frac": "delay",
    "ss": "timepoint-kind", "ee": "timepoint-kind", "se": "timepoint-kind",
    "le": "non-strict-or-equality", "ge": "non-strict-or-equality", "eq": "non-strict-or-equality",
    "and": "boolean-combination", "or": "boolean-combination", "not": "boolean-combination",
    "global_start": "non-subtask-timepoint", "global_end": "non-subtask-timepoint",
    "local_end": "non-subtask-timepoint", "local_start": "non-subtask-timepoint",
    "const": "arithmetic", "plus_expr": "arithmetic", "minus_expr": "arithmetic",
}  # fmt: skip

IDENT_SCHEMES = [
    ["a", "b", "c", "d", "e", "f"],
    ["t1", "t10", "t_1", "T1", "t1_", "t"],
    ["start", "end", "s", "e", "x_y", "x"],
    [None] * 6,  # library-generated identifiers
]


# ------------------------------------------------------------------------------------------------------------------
# space definition


def pairs_of(n, reflexive):
    return [(i, j) for i in range(n) for j in range(n) if reflexive or i != j]


# cells: [space, n, lo, hi]  enumerating masks lo..hi-1 over pairs_of(n, reflexive)
def cells_for(tier):
    cells = []
    for n in range(0, 4):
        cells.append(["irr", n, 0, 1 << (n * (n - 1))])
    for lo in range(0, 4096, 512):
        cells.append(["irr", 4, lo, lo + 512])
    for n in range(0, 4):
        cells.append(["refl", n, 0, 1 << (n * n)])
    if tier == "thorough":
        reps = iso_representatives(5)
        for lo in range(0, len(reps), 128):
            cells.append(["iso", 5, lo, min(lo + 128, len(reps)), reps[lo : lo + 128]])
    return cells


N_ISO5 = 9608  # number of digraphs on 5 unlabelled nodes (OEIS A000273)
RELABELLINGS = 8
_iso_cache = {}


def iso_representatives(n):
    """Least mask of every orbit of the irreflexive relations on n elements under relabelling (orbit marking).
    Self-checked: the orbit sizes must add up to 2^(n(n-1)) and, for n = 5, there must be 9,608 orbits."""
    import itertools

    if n in _iso_cache:
        return _iso_cache[n]
    prs = pairs_of(n, False)
    pos = {p: k for k, p in enumerate(prs)}
    tables = [[pos[(pi[a], pi[b])] for a, b in prs] for pi in itertools.permutations(range(n))]
    total = 1 << len(prs)
    seen = bytearray(total)
    reps = []
    covered = 0
    for mask in range(total):
        if seen[mask]:
            continue
        reps.append(mask)
        bits = [k for k in range(len(prs)) if mask >> k & 1]
        orbit = set()
        for tb in tables:
            img = 0
            for k in bits:
                img |= 1 << tb[k]
            orbit.add(img)
        for img in orbit:
            seen[img] = 1
        covered += len(orbit)
    if covered != total or (n == 5 and len(reps) != N_ISO5):
        raise RuntimeError(f"orbit enumeration is wrong: {len(reps)} orbits covering {covered} of {total} relations")
    _iso_cache[n] = reps
    return reps


def expected_relations(tier):
    return sum(c[3] - c[2] for c in cells_for(tier))


def plan(tier, seed):
    cells = cells_for(tier)
    nsh = N_SHARDS[tier]
    # big cells first, round-robin
    cells.sort(key=lambda c: -(c[3] - c[2]) * (c[1] + 1))
    keys = [f"{PROPERTY}:{seed}:{i}" for i in range(N_RANDOM[tier])]
    kch = chunk(keys, nsh)
    return [
        {"shard": si, "tier": tier, "seed": seed, "cells": cells[si::nsh], "cases": kch[si] if si < len(kch) else []}
        for si in range(nsh)
    ]


# ------------------------------------------------------------------------------------------------------------------
# recipes -> real networks
# recipe = {"cls": "TaskNetwork"|"Method", "idents": [..], "subtask_order": [idx..], "subtask_kind": "task"|"action",
#           "constraints": [[form, a_idx, b_idx, extra], ...]}


def enc(v):
    return f"{v.numerator}/{v.denominator}" if isinstance(v, Fraction) else v


def dec(v):
    return Fraction(v) if isinstance(v, str) and "/" in v else v


def build(recipe, env):
    from unified_planning.model import InstantaneousAction, Timing, StartTiming, EndTiming, GlobalStartTiming, GlobalEndTiming
    from unified_planning.model.htn import Task, TaskNetwork, Method, Subtask
    em = env.expression_manager
    tm = env.type_manager
    if recipe.get("subtask_kind") == "action":
        T = InstantaneousAction("act", _env=env)
    else:
        T = Task("tsk", _env=env)
    subs = []
    for ident in recipe["idents"]:
        subs.append(Subtask(T, ident=ident, _env=env))
    U = tm.UserType("U")
    BoolType = tm.BoolType
    if recipe["cls"] == "Method":
        net = Method("m", _env=env, pb=BoolType(), px=U, py=U)
        pb, px, py = net.parameter("pb"), net.parameter("px"), net.parameter("py")
    else:
        net = TaskNetwork(env)
        pb, px, py = net.add_variable("pb", BoolType()), net.add_variable("px", U), net.add_variable("py", U)
    for i in recipe["subtask_order"]:
        net.add_subtask(subs[i])
    for form, a, b, extra in recipe["constraints"]:
        extra = dec(extra)
        sa, sb = (subs[a] if a is not None else None), (subs[b] if b is not None else None)
        if form == "sb_subtask":
            net.set_strictly_before(sa, sb)
        elif form == "sb_timepoint":
            net.set_strictly_before(sa.end, sb.start)
        elif form == "sb_timing":
            net.set_strictly_before(Timing(0, sa.end), Timing(0, sb.start))
        elif form == "frac0":
            net.set_strictly_before(Timing(Fraction(0), sa.end), Timing(Fraction(0, 3), sb.start))
        elif form == "lt":
            net.add_constraint(em.LT(EndTiming(container=sa.identifier), StartTiming(container=sb.identifier)))
        elif form == "gt":
            net.add_constraint(em.GT(sb.start, sa.end))
        elif form == "ordered":
            net.set_ordered(sa, sb)
        # ---- temporal constraints that are NOT plain precedences
        elif form in ("delay_lhs", "delay_frac"):
            net.set_strictly_before(sa.end + extra, sb.start)
        elif form == "delay_rhs":
            net.set_strictly_before(sa.end, sb.start + extra)
        elif form == "delay_neg":
            net.set_strictly_before(sa.end - extra, sb.start)
        elif form == "ss":
            net.set_strictly_before(sa.start, sb.start)
        elif form == "ee":
            net.set_strictly_before(sa.end, sb.end)
        elif form == "se":
            net.set_strictly_before(sa.start, sb.end)
        elif form == "le":
            net.add_constraint(em.LE(sa.end, sb.start))
        elif form == "ge":
            net.add_constraint(em.GE(sb.start, sa.end))
        elif form == "eq":
            net.add_constraint(em.Equals(sa.end, sb.start))
        elif form == "and":
            net.add_constraint(em.And(em.LT(sa.end, sb.start), em.LT(sb.end, subs[extra].start)))
        elif form == "or":
            net.add_constraint(em.Or(em.LT(sa.end, sb.start), em.LT(sb.end, subs[extra].start)))
        elif form == "not":
            net.add_constraint(em.Not(em.LT(sb.end, sa.start)))
        elif form == "global_start":
            net.add_constraint(em.LT(GlobalStartTiming(), sb.start))
        elif form == "global_end":
            net.add_constraint(em.LT(sa.end, GlobalEndTiming()))
        elif form == "local_end":
            net.add_constraint(em.LT(EndTiming(), sb.start))
        elif form == "local_start":
            net.add_constraint(em.LT(sa.end, StartTiming()))
        elif form == "const":
            net.add_constraint(em.LT(sa.end, extra))
        elif form == "plus_expr":
            net.add_constraint(em.LT(em.Plus(sa.end, extra), sb.start))
        elif form == "minus_expr":
            net.add_constraint(em.LT(em.Minus(sb.start, sa.end), extra))
        # ---- non-temporal constraints
        elif form == "nt_boolvar":
            net.add_constraint(pb)
        elif form == "nt_eq":
            net.add_constraint(em.Equals(px, py))
        elif form == "true":
            net.add_constraint(True)
        else:
            raise ValueError(form)
    return net, subs


def judge_recipe(recipe, res, wbase, env=None):
    """Builds the network, queries it, judges. Returns True iff a violation was reported."""
    from unified_planning.exceptions import UPException

    def viol(mech, summary, **extra):
        res.violation(mech, summary, {**wbase, "recipe": recipe, **extra})

    if env is None:
        env = _env.fresh_env()
    try:
        net, subs = build(recipe, env)
    except UPException:
        res.count("rejected_at_build")
        return False
    return judge_network(net, subs, recipe, res, viol)


def judge_network(net, subs, recipe, res, viol):
    ids = [subs[i].identifier for i in recipe["subtask_order"]]
    P = []  # inserted precedences (deduplicated like add_constraint does), in insertion order
    odd = []
    nts = 0
    for form, a, b, extra in recipe["constraints"]:
        if form in PRECEDENCE_FORMS:
            p = (subs[a].identifier, subs[b].identifier)
            if p not in P:
                P.append(p)
        elif form in NT_FORMS:
            nts += 1
        else:
            odd.append(form)
    res.mon()
    res.case()
    try:
        to = net.total_order()
        po = net.partial_order()
    except _env.INTERNAL_EXC as e:
        viol(f"ordering-raises:{type(e).__name__}", f"total_order/partial_order raised {e!r} on {describe(ids, P, odd)}")
        return True
    if nts:
        res.count("with_nontemporal_constraints")
    if odd:
        res.count("class:mixed")
        for f in sorted(set(odd)):
            res.count("odd:" + f)
        if len(P) >= 2:
            res.nt(("mixed", sorted(P), sorted(odd), len(ids)))
        if to is not None:
            viol(
                "total-order-reported-with-non-precedence-constraint:" + "+".join(sorted({ODD_CLASS[f] for f in odd})),
                f"total_order()={to} although the network has temporal constraints {sorted(set(odd))} that are not end<start precedences ({describe(ids, P, odd)})",
                expected=None,
                observed=to,
            )
            return True
        if po is not None:
            viol(
                "partial-order-reported-with-non-precedence-constraint:" + "+".join(sorted({ODD_CLASS[f] for f in odd})),
                f"partial_order()={po} although the network has temporal constraints {sorted(set(odd))} that are not end<start precedences ({describe(ids, P, odd)})",
                expected=None,
                observed=po,
            )
            return True
        return False
    # pure precedence network
    n_ext = ref.count_linear_extensions(ids, P)
    exp_total = ref.unique_extension(ids, P)
    cyclic = not ref.is_acyclic(ids, P)
    cls = "cyclic" if cyclic else ("total" if exp_total is not None else "partial")
    res.count("class:" + cls)
    res.count(f"n_subtasks:{len(ids)}")
    if len(P) >= 2:
        res.nt((cls, sorted(P), len(ids)))
        res.count("nontrivial_class:" + cls)
    if to is None and exp_total is not None:
        viol(
            "total-order-missed",
            f"total_order()=None but {describe(ids, P, odd)} has exactly one linear ordering {exp_total}",
            expected=exp_total,
            observed=None,
        )
        return True
    if to is not None and exp_total is None:
        why = "cyclic" if cyclic else "several-orderings"
        viol(
            "total-order-reported-but-not-unique:" + why,
            f"total_order()={to} but {describe(ids, P, odd)} admits {n_ext} linear orderings of all subtasks",
            expected=None,
            observed=to,
        )
        return True
    if to is not None and list(to) != exp_total:
        viol(
            "total-order-wrong",
            f"total_order()={to} but the only linear ordering of {describe(ids, P, odd)} is {exp_total}",
            expected=exp_total,
            observed=to,
        )
        return True
    if po is None:
        viol(
            "partial-order-missing",
            f"partial_order()=None although every temporal constraint of {describe(ids, P, odd)} is an end<start precedence",
            expected=P,
            observed=None,
        )
        return True
    po_l = [tuple(p) for p in po]
    if to is None:
        if sorted(po_l) != sorted(P):
            viol(
                "partial-order-not-the-inserted-precedences",
                f"partial_order()={po_l} but the inserted precedences are {P}",
                expected=P,
                observed=po_l,
            )
            return True
    else:
        res.count("partial_order_of_total_network_compared_by_closure")
        if ref.closure(ids, po_l) != ref.closure(ids, P):
            viol(
                "partial-order-closure-differs",
                f"partial_order()={po_l} of a totally ordered network does not denote the same order as the inserted precedences {P}",
                expected=P,
                observed=po_l,
            )
            return True
    return False


def describe(ids, P, odd):
    return f"subtasks {ids} with precedences {P}" + (f" and {odd}" if odd else "")


# ------------------------------------------------------------------------------------------------------------------
# exhaustive cells


def relation_recipe(rng, n, pairs, variant, scheme_i):
    """variant 0: canonical order, TaskNetwork, set_strictly_before on subtasks; others: shuffled / reversed and mixed spellings."""
    idents = IDENT_SCHEMES[scheme_i][:n]
    if idents and idents[0] is None:
        idents = [None] * n
    order = list(range(n))
    cons = [["sb_subtask", a, b, None] for a, b in pairs]
    cls = "TaskNetwork"
    kind = "task"
    if variant == 1:
        rng.shuffle(order)
        rng.shuffle(cons)
        cls = "Method"
        for c in cons:
            c[0] = rng.choice(PRECEDENCE_FORMS)
    elif variant == 2:
        order.reverse()
        cons.reverse()
        kind = "action"
        cls = rng.choice(["TaskNetwork", "Method"])
        for c in cons:
            c[0] = rng.choice(PRECEDENCE_FORMS)
        if cons and rng.random() < 0.3:
            cons.insert(rng.randrange(len(cons) + 1), list(rng.choice(cons)))  # literal duplicate (deduplicated by the library)
        if rng.random() < 0.3:
            cons.insert(rng.randrange(len(cons) + 1), [rng.choice(NT_FORMS), None, None, None])
    return {"cls": cls, "idents": idents, "subtask_order": order, "subtask_kind": kind, "constraints": cons}


def run_iso_cell(cell, tier, seed, res):
    """n = 5: one isomorphism-class representative per relation, RELABELLINGS random relabellings of each."""
    _, n, lo, hi, reps = cell
    all_pairs = pairs_of(n, False)
    rng = rng_for(PROPERTY, "isocell", seed, n, lo)
    env = _env.fresh_env()
    for mask in reps:
        base = [p for k, p in enumerate(all_pairs) if mask >> k & 1]
        res.count("exhaustive_relations")
        res.count("exhaustive_iso_classes")
        for r in range(RELABELLINGS):
            pi = list(range(n))
            if r:
                rng.shuffle(pi)
            pairs = [(pi[a], pi[b]) for a, b in base]
            rec = relation_recipe(rng, n, pairs, rng.choice([0, 1, 2]), (mask + r) % len(IDENT_SCHEMES))
            wb = {"case_key": f"{PROPERTY}:isocell:{n}:{mask}:{r}", "tier": tier, "kind": "exhaustive"}
            if judge_recipe(rec, res, wb, env):
                return False
    return True


def run_cell(cell, tier, seed, res):
    if cell[0] == "iso":
        return run_iso_cell(cell, tier, seed, res)
    space, n, lo, hi = cell
    all_pairs = pairs_of(n, space == "refl")
    variants = [0, 1, 2]
    rng = rng_for(PROPERTY, "cell", seed, space, n, lo)
    env = _env.fresh_env()  # one environment per cell (only well-typed precedence constraints are built in it)
    for mask in range(lo, hi):
        pairs = [p for k, p in enumerate(all_pairs) if mask >> k & 1]
        res.count("exhaustive_relations")
        for v in variants:
            rec = relation_recipe(rng, n, pairs, v, (mask + v) % len(IDENT_SCHEMES))
            wb = {"case_key": f"{PROPERTY}:cell:{space}:{n}:{mask}:{v}", "tier": tier, "kind": "exhaustive"}
            if judge_recipe(rec, res, wb, env):
                return False
    return True


# ------------------------------------------------------------------------------------------------------------------
# random workload


def gen_random_recipe(rng):
    n = rng.choice([2, 3, 4, 5, 5, 5, 6, 6, 6])
    perm = list(range(n))
    rng.shuffle(perm)
    style = rng.choice(["chain", "chain+", "near-chain", "dag", "cycle", "sparse", "self"])
    pairs = []
    if style in ("chain", "chain+", "near-chain", "cycle"):
        pairs = [(perm[i], perm[i + 1]) for i in range(n - 1)]
        if style == "chain+":
            for _ in range(rng.randint(1, n)):
                i, j = sorted(rng.sample(range(n), 2))
                pairs.append((perm[i], perm[j]))
        elif style == "near-chain":
            k = rng.randrange(len(pairs))
            a, b = pairs.pop(k)
            # keep everything else comparable: a and b stay unordered with respect to each other
            for i in range(n):
                for j in range(i + 2, n):
                    if rng.random() < 0.6:
                        pairs.append((perm[i], perm[j]))
        elif style == "cycle":
            i, j = sorted(rng.sample(range(n), 2))
            pairs.append((perm[j], perm[i]))
    elif style == "dag":
        for i in range(n):
            for j in range(i + 1, n):
                if rng.random() < 0.5:
                    pairs.append((perm[i], perm[j]))
    elif style == "sparse":
        for _ in range(rng.randint(0, n)):
            a, b = rng.sample(range(n), 2)
            pairs.append((a, b))
    else:  # self precedence somewhere
        pairs = [(perm[i], perm[i + 1]) for i in range(n - 1) if rng.random() < 0.8]
        a = rng.randrange(n)
        pairs.append((a, a))
    rng.shuffle(pairs)
    cons = [[rng.choice(PRECEDENCE_FORMS), a, b, None] for a, b in pairs]
    order = list(range(n))
    rng.shuffle(order)
    scheme = rng.choice(IDENT_SCHEMES)
    idents = list(scheme[:n])
    feats = {"style": style, "n": n}
    u = rng.random()
    if u < 0.45:
        # mixed: add 1-2 temporal constraints of another kind at random positions
        for _ in range(rng.choice([1, 1, 1, 2])):
            form = rng.choice(ODD_FORMS)
            a, b = rng.sample(range(n), 2)
            extra = None
            if form in ("delay_lhs", "delay_rhs", "delay_neg", "plus_expr", "minus_expr", "const"):
                extra = rng.randint(1, 5)
            elif form == "delay_frac":
                extra = Fraction(rng.randint(1, 9), rng.choice([2, 3, 7]))
            elif form in ("and", "or"):
                extra = rng.randrange(n)
            where = rng.choice([0, len(cons), rng.randrange(len(cons) + 1)])
            cons.insert(where, [form, a, b, enc(extra)])
        feats["mixed"] = True
    if rng.random() < 0.3:
        for _ in range(rng.choice([1, 2])):
            cons.insert(rng.randrange(len(cons) + 1), [rng.choice(NT_FORMS), None, None, None])
    rec = {
        "cls": rng.choice(["TaskNetwork", "Method"]),
        "idents": idents,
        "subtask_order": order,
        "subtask_kind": rng.choice(["task", "action"]),
        "constraints": cons,
    }
    return rec, feats


def run_random_case(key, tier, res):
    rng = rng_for(key)
    rec, feats = gen_random_recipe(rng)
    res.count("random_cases")
    res.count("random_style:" + feats["style"])
    bad = judge_recipe(rec, res, {"case_key": key, "tier": tier, "kind": "random"})
    if not bad and res.counters["random_cases"] <= 3:
        res.sample({"case_key": key, "features": feats, "recipe": rec, "verdict": "agree"})
    return bad


def run_shard(spec, res):
    tier = spec["tier"]
    done = 0
    for cell in spec.get("cells", []):
        if run_cell(cell, tier, spec["seed"], res):
            res.count("exhaustive_cells_done")
            done += 1
    for key in spec["cases"]:
        run_random_case(key, tier, res)
    if done == len(spec.get("cells", [])):
        res.count("exhaustive_space_complete")
    res.count("tier:" + tier)


def replay(witness, res):
    judge_recipe(witness["recipe"], res, {"case_key": witness.get("case_key"), "tier": witness.get("tier", "quick"), "kind": "replay"})


def thresholds(m):
    c = m["counters"]
    tier = "thorough" if c.get("tier:thorough") else "quick"
    out = []
    if not m["violations"]:
        if c.get("exhaustive_cells_done", 0) != len(cells_for(tier)):
            out.append(f"exhaustive enumeration incomplete: {c.get('exhaustive_cells_done', 0)} of {len(cells_for(tier))} cells")
        if c.get("exhaustive_relations", 0) != expected_relations(tier):
            out.append(f"exhaustive enumeration incomplete: {c.get('exhaustive_relations', 0)} of {expected_relations(tier)} relations")
    need = [
        ("nontrivial_class:cyclic", 200),
        ("nontrivial_class:total", 100),
        ("nontrivial_class:partial", 200),
        ("class:mixed", 500),
        ("with_nontemporal_constraints", 200),
        ("partial_order_of_total_network_compared_by_closure", 100),
        ("n_subtasks:5", 100),
        ("n_subtasks:6", 100),
    ] + [("odd:" + f, 10) for f in ODD_FORMS]
    for k, n in need:
        if c.get(k, 0) < n:
            out.append(f"fewer than {n} observations of class {k} ({c.get(k, 0)})")
    if c.get("rejected_at_build", 0) * 2 > max(1, m["evaluations"]):
        out.append("more than 50% of the recipes were rejected at build time")
    if len(m["nontrivial"]) < 2000:
        out.append("fewer than 2000 distinct non-trivial networks")
    return out


def extra_coverage(m):
    c = m["counters"]
    tier = "thorough" if c.get("tier:thorough") else "quick"
    return {
        "exhaustive_space": "all irreflexive precedence relations on n<=4 subtasks and all relations incl. self-precedences on n<=3"
        + (" and all irreflexive relations on 5 subtasks up to relabelling (9,608 isomorphism classes x 8 relabellings)" if tier == "thorough" else ""),
        "exhaustive_relations_enumerated": c.get("exhaustive_relations", 0),
    }

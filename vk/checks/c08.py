"""C08 — compilers succeed and produce well-formed results inside their supported kind; identifiers with separator
characters never cause name clashes.

Monitor M-compile-wf (vk/mon/compile_wf.py): every `compile` call of the ten classical compilers, of TimedToSequential,
DurativeActionToProcesses and InterpretedFunctionsRemover (and of factory pipelines) on
generated problems inside the compiler's `supported_kind()` with adversarial identifiers (vk/gen/idents.py) is judged at
the API boundary: outside the documented rejections (vk/checks/c08_rejections.py) it must return; the returned problem
must have unique names and only declared fluents / objects / types / metric actions; the map-back must send compiled
actions to actions of the original problem; `plan_back_conversion` must be available and usable (compilers whose
conversion simulates the plan are probed with reference-valid plans only, the processes compiler with the empty
time-triggered plan)."""
from vk import env as _env  # noqa: F401
from vk.core import rng_for, simple_plan, h
from vk.mon import compile_wf as W
from vk.gen import idents

PROPERTY = "C08"
LEVEL = "exploration"
TECHNIQUE = "runtime monitoring: well-formedness predicates and back-conversion probes on every CompilerMixin.compile result over generated problems with adversarial identifiers"
LEVEL_TEXT = (
    "Every compile call of Grounder, the eight removers, UndefinedInitialNumericRemover, TimedToSequential, DurativeActionToProcesses, "
    "InterpretedFunctionsRemover and factory pipelines on generated "
    "problems inside their supported kind (adversarial identifiers) is judged by independent well-formedness predicates "
    "(unique names, declared fluents/objects/types/metric actions) and by probing plan_back_conversion / map-back with the "
    "empty plan and every single-step plan; held on the compilations observed only."
)
LEVEL_NOTE = (
    "Trusted: CPython, the read-only accessors of Problem/Action/Effect/FNode/Type, the recipe instantiation, the table of "
    "documented rejections. Free variables and parameters of another action inside compiled expressions are recorded as "
    "observations only (the statement lists actions, fluents, objects and types)."
)
RULE = (
    "case = (compiler or factory pipeline, generated problem recipe restricted to the compiler's supported_kind(), identifiers from "
    "vk/gen/idents.py: underscores, digits, mixed case, prefixes of one another, k-way `_`-join traps (k = 2..4 ground instances of 2-3 parameter "
    "actions or of several actions sharing one joined name), mangled forms, renamed parameters; the temporal compilers get small durative "
    "problems from vk/gen/durative_cm.py, with static fluents that are used in durations only and have a default and explicit values). "
    "Recipes outside the kind are regenerated (counted). evaluations = compile calls judged. distinct_nontrivial = distinct "
    "(compiler, problem) pairs whose compile returned a problem containing at least one name that the input problem did not have."
)
ASSUMPTIONS = [
    "documented rejections are exactly the rows of vk/checks/c08_rejections.py (built from the compilers' raise sites and docstrings)",
    "Problem/Action/Effect/FNode accessors report the stored structure truthfully",
    "structural equality (==) of fluents/objects/actions is accepted as 'is declared in the problem'",
]

SLOTS = W.TARGET_ORDER + ["pipeline", "grounder", "pipeline", "tcrm"]  # the name-creating grounder (F13 anchor) / tcrm get a double share
N = {"quick": 1400, "thorough": 48000}
# the compilers outside the ten classical ones have their own key range (indices >= EXTRA_BASE), so that the cases of the
# classical compilers do not depend on how many extra compilers are observed
EXTRA_BASE = 1000000
N_EXTRA = {"quick": 70 * len(W.EXTRA_TARGETS), "thorough": 800 * len(W.EXTRA_TARGETS)}
SHARD_TIMEOUT = {"quick": 600, "thorough": 5400}


def plan(tier, seed):
    from vk.core import chunk

    specs = simple_plan(PROPERTY, tier, seed, N["quick"], N["thorough"], shards_quick=8)
    extra = [f"{PROPERTY}:{seed}:{EXTRA_BASE + j}" for j in range(N_EXTRA[tier])]
    for spec, ch in zip(specs, chunk(extra, len(specs))):
        spec["cases"] = spec["cases"] + ch
    return specs


def run_shard(spec, res):
    for key in spec["cases"]:
        run_case(key, spec["tier"], res)
    if spec["tier"] == "thorough" and spec["shard"] == 0:
        run_examples(res)


def replay(witness, res):
    if witness.get("example"):
        run_examples(res, only=(witness["example"], witness["target"]))
    else:
        run_case(witness["case_key"], witness.get("tier", "quick"), res)


def run_examples(res, only=None):
    """Thorough tier: every example problem of the repository through every compiler that supports its kind."""
    from unified_planning.test.examples import get_example_problems
    from unified_planning.model import Problem

    for name, ex in sorted(get_example_problems().items()):
        pb = ex.problem
        if type(pb) is not Problem:
            continue
        try:
            kind = pb.kind
        except Exception:
            continue
        for t in W.TARGET_ORDER + W.EXTRA_TARGETS:
            if only and (name, t) != tuple(only):
                continue
            Comp = W.compiler_class(t)
            if not Comp.supports(kind):
                continue
            res.count("examples_compiled")
            # examples through the three extra compilers: a failing back-conversion probe is recorded as an observation only
            # (candidate finding reported by strengthen-2: TimedToSequential's conversion builds a UPSequentialSimulator, which
            # refuses compiled problems it cannot simulate, e.g. example basic_unbounded_int_action_param, even for the empty plan)
            judge_compile(res, "example:" + t, t, Comp(), pb, pb.environment, {"example": name, "target": t, "tier": "thorough"}, name, count_traps=False, observe_back=t in W.EXTRA_TARGETS)


def target_of(key):
    i = int(key.rsplit(":", 1)[1])
    if i >= EXTRA_BASE:
        return W.EXTRA_TARGETS[(i - EXTRA_BASE) % len(W.EXTRA_TARGETS)]
    return SLOTS[i % len(SLOTS)]


def grounder_join_trap(pb):
    """Own enumeration: the largest number of ground instances (an existing name counts as one) sharing one `_`-joined name
    (1 = no trap)."""
    from vk.ref import seqsem
    from vk.ref.evalx import Unsupported

    try:
        inst = seqsem.all_instances(pb)
    except (Unsupported, Exception):
        return 1
    names = {}
    glob = {f.name for f in pb.fluents} | {o.name for o in pb.all_objects} | {t.name for t in pb.user_types} | {a.name for a in pb.actions}
    for a, args in inst:
        if not args:
            continue
        n = "_".join([a.name] + [("true" if v is True else "false" if v is False else str(v)) for v in args])
        names[n] = names.get(n, 1 if n in glob else 0) + 1
    return max(names.values(), default=1)


def all_names(pb):
    return [f.name for f in pb.fluents] + [a.name for a in pb.actions] + [o.name for o in pb.all_objects] + [t.name for t in pb.user_types]


def pick_pipeline(rng, env, kind):
    """-> (pipeline engine or None, [compilation kind names], note)"""
    from unified_planning.engines.mixins.compiler import CompilationKind
    from unified_planning.exceptions import UPNoSuitableEngineAvailableException

    n = rng.choice([2, 2, 3])
    cks = rng.sample(W.PIPELINE_KINDS, n)
    try:
        eng = env.factory.Compiler(problem_kind=kind, compilation_kinds=[CompilationKind[c] for c in cks])
    except UPNoSuitableEngineAvailableException:
        return None, cks, "no-suitable-engine"
    except Exception as e:  # F25/F26: C09 / C32 judge the selection, not C08
        return None, cks, "selection-raised:" + type(e).__name__
    return eng, cks, "ok"


def run_case(key, tier, res):
    target = target_of(key)
    case = W.build_case(key, target)
    res.count("regenerated_outside_kind", case["rejected"])
    for w in case["why"]:
        res.count("regenerated:" + w.split(":")[0])
    if case["pb"] is None:
        res.count("no_recipe_inside_kind:" + target)
        return
    pb, rec, env = case["pb"], case["rec"], case["env"]
    rng = rng_for(key, "run")
    wbase = {"case_key": key, "tier": tier, "target": target, "recipe": rec}
    if target == "pipeline":
        compiler, cks, note = pick_pipeline(rng, env, case["kind"])
        wbase["compilation_kinds"] = cks
        res.count("pipeline_selection:" + note)
        if compiler is None:
            return
        label = "pipeline"
    else:
        compiler = W.compiler_class(target)()
        label = target
        if target == "ifrm" and any(f.startswith("INTERPRETED_FUNCTIONS") for f in case["kind"].features):
            res.count("ifrm:input-has-interpreted-functions")
        if target in ("t2s", "da2p"):
            for f in pb.fluents:
                if f in pb.fluents_defaults and any(k.fluent() == f for k in pb.explicit_initial_values):
                    res.count(f"{target}:input-has-fluent-with-default-and-explicit-values")
                    break
    judge_compile(res, label, label, compiler, pb, env, wbase, rec)


def judge_compile(res, counter_label, label, compiler, pb, env, wbase, rec, count_traps=True, observe_back=False):
    """One compile call judged. `label` names the compiler in mechanism strings, `counter_label` in coverage counters."""
    names_in = all_names(pb)
    if count_traps:
        traps = idents.concat_traps(names_in)
        for t in traps:
            res.count(f"trap:{t}:{label}")
        if traps:
            res.count(f"trap:any:{label}")
        if label in ("grounder", "tcrm", "pipeline"):
            ways = grounder_join_trap(pb)
            if ways >= 2:
                res.count(f"trap:ground-join:{label}")
            if ways >= 3:
                res.count(f"trap:ground-join-3+:{label}")
    res.mon()
    ocs = W.observe_compile(compiler, pb)
    res.case()
    oc = ocs[-1]
    for o in ocs:
        res.count(f"compile:{counter_label}:{o[0]}")
        if o[0] in ("name-clash", "raised", "env"):
            e = o[2]
            res.violation(o[1], f"{label}.compile raised {type(e).__name__}: {str(e)[:200]} on a problem inside its supported kind (no documented rejection matches)", dict(wbase, exception=repr(e)[:400]))
    if oc[0] == "rejected":
        res.count(f"rejected:{counter_label}:{oc[1][0]}")
        return
    if oc[0] != "returned":
        return
    result = oc[1]
    if result.problem is None:
        res.violation(f"no-problem-returned:{label}", "compile returned a result without problem", wbase)
        return
    cp = result.problem
    viols, stats = W.wf_violations(cp, error_used_name=env.error_used_name)
    res.count("expressions_walked", stats["expressions"])
    bviols, bstats = W.back_conversion_violations(result, pb, cp, probe=W.probe_of(label))
    res.count("single_step_plans_converted", bstats["steps"])
    res.count("steps_mapped_to_none", bstats["mapped_to_none"])
    new_names = sorted(set(all_names(cp)) - set(names_in))
    if new_names:
        res.count(f"created_names:{counter_label}")
        res.nt((label, h(rec)))
    for cls, detail in viols:
        if W.in_statement(cls):
            res.violation(f"ill-formed:{cls}:{label}", f"{label}: compiled problem is ill-formed: {cls}: {detail}", dict(wbase, detail=detail))
        else:
            res.count(f"observation:{cls}:{label}")
            if res.counters[f"observation:{cls}:{label}"] <= 1:
                res.sample({"observation": cls, "compiler": label, "detail": detail, "case": wbase.get("case_key", wbase.get("example"))})
    for cls, detail in bviols:
        if observe_back:
            res.count(f"observation:{cls}:{label}")
            res.sample({"observation": cls, "compiler": label, "detail": detail, "case": wbase.get("case_key", wbase.get("example"))})
            continue
        res.violation(f"{cls}" if cls.startswith("plan_back_conversion") else f"{cls}:{label}", f"{label}: {detail}", dict(wbase, detail=detail))
    if not viols and not bviols and new_names and res.evaluations % 40 == 0:
        res.sample({"compiler": label, "problem": rec, "new_names": new_names[:8], "verdict": "well-formed, back-conversion usable"})


def thresholds(m):
    c = m["counters"]
    out = []
    for t in W.TARGET_ORDER + W.EXTRA_TARGETS + ["pipeline"]:
        n = c.get(f"compile:{t}:returned", 0)
        tot = sum(c.get(f"compile:{t}:{k}", 0) for k in ("returned", "rejected", "name-clash", "raised"))  # "env" outcomes are retried
        if tot < 40:
            out.append(f"fewer than 40 compile calls for {t} ({tot})")
        if n + c.get(f"compile:{t}:name-clash", 0) + c.get(f"compile:{t}:raised", 0) < 0.5 * max(tot, 1):
            out.append(f"more than 50% documented rejections for {t}")
    for t in sorted(W.NAME_CREATING):
        if c.get(f"trap:any:{t}", 0) < 10:
            out.append(f"fewer than 10 problems with an identifier trap for name-creating compiler {t} ({c.get(f'trap:any:{t}', 0)})")
        if c.get(f"created_names:{t}", 0) < 10 and c.get(f"compile:{t}:name-clash", 0) < 10:
            out.append(f"fewer than 10 compilations where {t} created a name")
    if c.get("trap:ground-join:grounder", 0) < 6:
        out.append(f"fewer than 6 grounder inputs with a `_`-join trap ({c.get('trap:ground-join:grounder', 0)})")
    if c.get("ifrm:input-has-interpreted-functions", 0) < 5:
        out.append(f"fewer than 5 InterpretedFunctionsRemover inputs with an interpreted function ({c.get('ifrm:input-has-interpreted-functions', 0)})")
    if c.get("t2s:input-has-fluent-with-default-and-explicit-values", 0) < 10:
        out.append("fewer than 10 TimedToSequential inputs with a fluent that has both a default and explicit initial values")
    if c.get("trap:ground-join-3+:grounder", 0) < 4:
        out.append(f"fewer than 4 grounder inputs where three or more ground instances share one `_`-joined name ({c.get('trap:ground-join-3+:grounder', 0)})")
    if c.get("single_step_plans_converted", 0) < 500:
        out.append("fewer than 500 single-step plans back-converted")
    if c.get("regenerated_outside_kind", 0) > 3 * max(m["evaluations"], 1):
        out.append("generator mostly outside the supported kinds")
    if len(m["nontrivial"]) < 150:
        out.append(f"fewer than 150 distinct non-trivial (compiler, problem) pairs ({len(m['nontrivial'])})")
    return out

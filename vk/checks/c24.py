"""C24 — effect conflict detection is order-independent and exception-safe.

Per case one small collection (<= 5) of effects (+ optionally one simulated effect) over two "hot" fluents is inserted
(a) in every distinct permutation into a fresh container (instantaneous action / durative action timings / problem timed
    effects): "some insertion raised UPConflictingEffectsException" must not depend on the order;
(b) as histories (the collection, extended with repeated insertions and *replacements* of the simulated effect): before
    every operation a twin container is rebuilt from the operations the real container *accepted* so far; the operation
    must be accepted / rejected identically by both and leave equal stored effects; after every rejected insertion a
    bounded look-ahead (all probe operations, and all pairs "replace the simulated effect; probe") is run on a replay of
    the full history and on the accepted-only twin, which makes stale conflict bookkeeping observable.
"""
import itertools

from vk import env as _env  # noqa: F401
from vk.core import rng_for, simple_plan, h, jdump

PROPERTY = "C24"
LEVEL = "exploration"
TECHNIQUE = "runtime monitoring: all-permutations differential + accepted-operations twin container with bounded look-ahead probes"
LEVEL_TEXT = (
    "Every add_effect/add_increase_effect/add_decrease_effect/set_simulated_effect/add_timed_effect outcome observed on "
    "real InstantaneousAction, DurativeAction and Problem objects is compared (a) across all insertion orders of the same "
    "collection and (b) with a twin object that only ever received the accepted operations; held on the collections and "
    "histories generated, no claim beyond them."
)
LEVEL_NOTE = (
    "Trusted: CPython, the public constructors/add_* methods used to build twins, read-only accessors Effect.fluent/value/"
    "condition/kind/forall, .effects/.simulated_effect(s)/.timed_effects. The twin is the same library class: the oracle "
    "is differential between two histories of the real code (order A vs order B; full vs accepted-only history)."
)
RULE = (
    "case = container kind (instantaneous action, durative action with timings start / end / start+1 / end-1 whose time argument is "
    "spelled per effect as Timing, bare Timepoint, freshly built Timing with Fraction delay or StartTiming()/EndTiming() arithmetic - "
    "spellings are mixed within one collection -, problem with 2 timed-effect timings) x "
    "generated collection of 2-5 operations over 2 hot fluents drawn from int/real/object/Boolean/parameterised fluents: "
    "assign constant / assign expression / increase / decrease, conditional or not, forall or not, equal-valued Int/Real "
    "constants, optional simulated effect. (a) all distinct permutations (<= 120); (b) 3 histories per case of <= 9 "
    "operations including replacement of the simulated effect, judged step by step against the accepted-operations twin "
    "plus look-ahead probes after the first two rejections of a history. evaluations = permutations run + history steps + probes judged. "
    "distinct_nontrivial = distinct (container, collection) whose histories contain >= 1 rejected insertion followed by "
    ">= 1 further insertion."
)
ASSUMPTIONS = [
    "only UPConflictingEffectsException counts as a conflict verdict; collections raising any other documented rejection are discarded and counted",
    "two simulated effects in one collection are a replacement history, not a collection 'added together': part (a) uses at most one simulated effect per timing",
    "Effect accessors do not lie; FNode identity is equality inside one environment",
]
SHARD_TIMEOUT = {"quick": 600, "thorough": 3600}
N = {"quick": 600, "thorough": 36000}
MAX_LOOKAHEADS_PER_HISTORY = 2
CONTAINERS = ["inst", "dur", "prob"]


def plan(tier, seed):
    return simple_plan(PROPERTY, tier, seed, N["quick"], N["thorough"], shards_quick=8)


def run_shard(spec, res):
    for key in spec["cases"]:
        run_case(key, spec["tier"], res)


def replay(witness, res):
    run_case(witness["case_key"], witness.get("tier", "quick"), res)


# ---- world ----------------------------------------------------------------------------------------------------------
FLUENTS = [
    {"name": "x", "type": ["int", None, None], "sig": []},
    {"name": "y", "type": ["real", None, None], "sig": []},
    {"name": "c", "type": ["user", "T"], "sig": []},
    {"name": "b", "type": "bool", "sig": []},
    {"name": "g", "type": ["int", None, None], "sig": [["a", ["user", "T"]]]},
    {"name": "k", "type": ["int", 0, 10], "sig": []},
]
VAR = ["v", ["user", "T"]]


class World:
    def __init__(self, env):
        from vk.recipe import Ctx
        from collections import OrderedDict
        from unified_planning.model import Fluent, Object

        self.env = env
        self.ctx = Ctx(env)
        c = self.ctx
        c.types["T"] = c.tm.UserType("T")
        for f in FLUENTS:
            sig = OrderedDict((n, c.type(t)) for n, t in f["sig"])
            c.fluents[f["name"]] = Fluent(f["name"], c.type(f["type"]), sig, env)
        for o in ("o1", "o2"):
            c.objects[o] = Object(o, c.types["T"], env)
        self._sim_fn = lambda problem, state, params: []  # noqa: E731
        self._sims = {}

    def sim(self, fluent_recipes):
        """One SimulatedEffect object per distinct fluent list (so that twins receive the very same object)."""
        from unified_planning.model import SimulatedEffect

        k = jdump(fluent_recipes)
        if k not in self._sims:
            self._sims[k] = SimulatedEffect([self.ctx.expr(f) for f in fluent_recipes], self._sim_fn)
        return self._sims[k]


class Container:
    """A fresh real container of the given kind + uniform apply/snapshot."""

    def __init__(self, world, kind):
        from collections import OrderedDict
        from unified_planning.model import InstantaneousAction, DurativeAction, Problem
        from unified_planning.model.timing import StartTiming, EndTiming, GlobalStartTiming

        self.w, self.kind = world, kind
        env = world.env
        T = world.ctx.types["T"]
        if kind == "inst":
            self.obj = InstantaneousAction("act", OrderedDict([("p", T)]), env)
            self.timings = [None]
        elif kind == "dur":
            self.obj = DurativeAction("act", OrderedDict([("p", T)]), env)
            self.timings = [StartTiming(), EndTiming(), StartTiming(1), EndTiming() - 1]
        else:
            self.obj = Problem("pb", env)
            for f in world.ctx.fluents.values():
                self.obj.add_fluent(f)
            self.obj.add_objects(list(world.ctx.objects.values()))
            self.timings = [GlobalStartTiming(5), GlobalStartTiming(7)]
        self.params = {p.name: p for p in getattr(self.obj, "parameters", [])}

    def spell(self, t, how):
        """The time point `t` (a canonical Timing of self.timings) in another legal spelling of the TimeExpression argument of
        DurativeAction.add_effect / add_increase_effect / add_decrease_effect: "timepoint" = the bare Timepoint (delay-0 points
        only), "fresh" = a newly built equal Timing with a Fraction delay and a new Timepoint object, "arith" = StartTiming() /
        EndTiming() shifted with + / -.  Other containers (and set_simulated_effect, which takes a Timing) keep the Timing."""
        from fractions import Fraction
        from unified_planning.model.timing import Timing, Timepoint, StartTiming, EndTiming

        if self.kind != "dur" or t is None or how in (None, "timing"):
            return t
        if how == "timepoint" and t.delay == 0:
            return Timepoint(t.timepoint.kind)
        if how == "arith":
            base = StartTiming() if t.is_from_start() else EndTiming()
            return base + t.delay if t.delay >= 0 else base - (-t.delay)
        return Timing(Fraction(t.delay), Timepoint(t.timepoint.kind))

    def apply(self, op):
        """-> 'ok' | 'conflict' | 'other:<Exc>'"""
        from unified_planning.exceptions import UPConflictingEffectsException, UPException

        c = self.w.ctx
        c.params = self.params
        try:
            t = self.timings[min(op.get("t", 0), len(self.timings) - 1)]
            if op["op"] == "sim":
                se = self.w.sim(op["fluents"])
                if self.kind == "inst":
                    self.obj.set_simulated_effect(se)
                else:
                    self.obj.set_simulated_effect(t, se)
                return "ok"
            fl, val = c.expr(op["fluent"]), c.expr(op["value"])
            cond = c.expr(op["cond"]) if op.get("cond") is not None else True
            fa = tuple(c.var(n, ty) for n, ty in op.get("forall", []))
            pre = () if t is None else (self.spell(t, op.get("spell")),)
            k = op["kind"]
            if k == "assign":
                m = self.obj.add_timed_effect if self.kind == "prob" else self.obj.add_effect
            elif k == "inc":
                m = self.obj.add_increase_effect
            else:
                m = self.obj.add_decrease_effect
            m(*pre, fl, val, cond, fa)
            return "ok"
        except UPConflictingEffectsException:
            return "conflict"
        except UPException as e:
            return "other:" + type(e).__name__
        finally:
            c.params = {}

    def snapshot(self):
        def effs(lst):
            return [(e.fluent, e.value, e.condition, e.kind.name, tuple(e.forall)) for e in lst]

        if self.kind == "inst":
            return {"effects": effs(self.obj.effects), "sim": self.obj.simulated_effect}
        if self.kind == "dur":
            return {
                "effects": {str(t): effs(l) for t, l in self.obj.effects.items() if l},
                "sim": {str(t): s for t, s in self.obj.simulated_effects.items()},
            }
        return {"effects": {str(t): effs(l) for t, l in self.obj.timed_effects.items() if l}}


def show(snap):
    return jdump(snap)


# ---- generator ------------------------------------------------------------------------------------------------------
def gen_ops(rng, kind):
    """A collection of 2-5 effect operations over two hot fluents (+ optional simulated effect at timing 0)."""
    names = ["x", "y", "c", "g", "k", "b"]
    weights = [5, 4, 2, 3, 2, 1]
    hot = []
    while len(hot) < 2:
        f = rng.choices(names, weights)[0]
        if f not in hot:
            hot.append(f)
    if rng.random() < 0.25:
        hot[1] = hot[0]

    def fexp(f, allow_var=True):
        if f != "g":
            return ["f", f], []
        r = rng.random()
        if r < 0.45:
            return ["f", "g", ["o", "o1"]], []
        if r < 0.6:
            return ["f", "g", ["o", "o2"]], []
        if r < 0.8 and kind != "prob":
            return ["f", "g", ["p", "p"]], []
        if allow_var:
            return ["f", "g", ["v", VAR[0], VAR[1]]], [VAR]
        return ["f", "g", ["o", "o1"]], []

    def value(f, k):
        if f == "c":
            return rng.choice([["o", "o1"], ["o", "o2"], ["o", "o1"]] + ([["p", "p"]] if kind != "prob" else []))
        if f == "b":
            return rng.choice([["b", True], ["b", False], ["not", ["f", "b"]]])
        if k != "assign":
            return rng.choice([["i", 1], ["i", 1], ["i", 2], ["f", "x"], ["f", "k"]])
        pool = [["i", 1], ["i", 1], ["i", 2], ["i", 3], ["plus", ["f", "x"], ["i", 1]], ["f", "k"]]
        if f == "y":
            pool += [["r", "1"], ["r", "1"], ["r", "1/2"], ["r", "2"], ["f", "y"]]
        return rng.choice(pool)

    def cond():
        r = rng.random()
        if r < 0.72:
            return None
        return rng.choice([["f", "b"], ["not", ["f", "b"]], ["gt", ["f", "x"], ["i", 0]], ["b", True]])

    n = rng.choice([2, 2, 3, 3, 3, 4, 4, 5])
    ops = []
    for _ in range(n):
        f = rng.choice(hot)
        numeric = f in ("x", "y", "g", "k")
        k = rng.choice(["assign", "assign", "inc", "dec"]) if numeric else "assign"
        fe, fa = fexp(f)
        op = {"op": "eff", "kind": k, "fluent": fe, "value": value(f, k), "cond": cond(), "forall": fa, "t": 0 if rng.random() < 0.85 else 1}
        ops.append(op)
    sim = None
    if kind != "prob" and rng.random() < 0.55:
        sim = gen_sim(rng, hot, kind)
    return hot, ops, sim


def gen_sim(rng, hot, kind, t=0):
    fl = []
    for f in dict.fromkeys(rng.sample(hot, rng.choice([1, 1, 2])) + ([rng.choice(["x", "y", "k"])] if rng.random() < 0.2 else [])):
        if f == "g":
            fl.append(["f", "g", rng.choice([["o", "o1"], ["o", "o1"], ["o", "o2"]] + ([["p", "p"]] if kind != "prob" else []))])
        else:
            fl.append(["f", f])
    return {"op": "sim", "fluents": fl, "t": t}


SPELLINGS = ["timing", "timing", "timepoint", "timepoint", "fresh", "arith"]
N_TIMINGS = {"inst": 1, "dur": 4, "prob": 2}


def spell_ops(rng, kind, ops):
    """Durative-action effects: the time argument of every effect gets its own spelling, so that one collection mixes
    spellings of one time point; some effects move to the delayed time points start+1 / end-1 (other time points never
    conflict with start / end)."""
    if kind != "dur":
        return
    for op in ops:
        if op["op"] != "eff":
            continue
        if rng.random() < 0.12:
            op["t"] = rng.choice([2, 2, 3])
        op["spell"] = rng.choice(SPELLINGS)


def kind_of(op):
    if op["op"] == "sim":
        return "sim"
    return "assign" if op["kind"] == "assign" else "incdec"


def op_class(op):
    if op["op"] == "sim":
        return "sim"
    return ("cond-" if op.get("cond") is not None and op["cond"] != ["b", True] else "") + ("forall-" if op.get("forall") else "") + kind_of(op)


# ---- the case -------------------------------------------------------------------------------------------------------
def run_case(key, tier, res):
    rng = rng_for(key)
    idx = int(key.rsplit(":", 1)[1])
    kind = CONTAINERS[idx % 3]
    hot, ops, sim = gen_ops(rng, kind)
    srng = rng_for(key, "spelling")  # own stream: the collections themselves do not depend on the spellings drawn
    spell_ops(srng, kind, ops)
    coll = ops + ([sim] if sim else [])
    env = _env.fresh_env()
    world = World(env)
    wbase = {"case_key": key, "tier": tier, "container": kind, "collection": coll}
    cid = h([kind, sorted(jdump(o) for o in coll)])

    def viol(mech, summary, **w):
        res.violation(mech, summary, {**wbase, **w})

    # ---------- (a) order independence over all distinct permutations ---------------------------------------------
    seen = set()
    verdicts = {}
    discard = False
    for perm in itertools.permutations(range(len(coll))):
        sig = tuple(jdump(coll[i]) for i in perm)
        if sig in seen:
            continue
        seen.add(sig)
        cont = Container(world, kind)
        outs = []
        try:
            for i in perm:
                outs.append(cont.apply(coll[i]))
        except _env.INTERNAL_EXC as e:
            res.mon()
            viol(f"raises:{type(e).__name__}", f"inserting {coll[perm[len(outs)]]} raised {e!r}", order=list(perm))
            return
        if any(o.startswith("other:") for o in outs):
            discard = True
            res.count("discarded_other_rejection:" + next(o for o in outs if o.startswith("other:")))
            break
        res.mon()
        res.case()
        res.count("permutations_run")
        verdicts[perm] = ("conflict" in outs, outs)
    if discard:
        return
    any_conf = {v[0] for v in verdicts.values()}
    res.count("collections:" + kind)
    for o in coll:
        res.count("opclass:" + op_class(o))
    if len(any_conf) > 1:
        pa = next(p for p, v in verdicts.items() if v[0])
        pb_ = next(p for p, v in verdicts.items() if not v[0])
        kinds = "+".join(sorted({op_class(o) for o in coll}))
        # narrow the signature to a minimal order-dependent pair when one exists
        for i, j in itertools.combinations(range(len(coll)), 2):
            v = []
            for order in ((i, j), (j, i)):
                cont = Container(world, kind)
                v.append("conflict" in [cont.apply(coll[q]) for q in order])
            if v[0] != v[1]:
                kinds = "+".join(sorted([op_class(coll[i]), op_class(coll[j])]))
                break
        viol(
            "order-dependent:" + kinds,
            f"{kind}: inserting the same collection in order {list(pa)} raises a conflict ({verdicts[pa][1]}), in order {list(pb_)} it does not",
            order_conflict=list(pa),
            order_no_conflict=list(pb_),
            outcomes_conflict=verdicts[pa][1],
        )
        return
    conflict = any_conf.pop()
    res.count("collections_with_conflict" if conflict else "collections_without_conflict")
    if kind == "dur":
        t0 = [o for o in coll if o["op"] == "eff" and o.get("t", 0) == 0]
        if len({o.get("spell") for o in t0}) >= 2:
            res.count("dur_collections_mixing_spellings_at_start")
        if sim and any(o.get("spell") == "timepoint" and o["fluent"] in sim["fluents"] for o in t0):
            res.count("dur_collections_sim_plus_timepoint_spelled_effect_on_its_fluent")
        for o in coll:
            if o["op"] == "eff":
                res.count("dur_spelling:" + o["spell"])
    if len(verdicts) >= 2:
        res.count("collections_with_>=2_orders")
    if conflict:
        res.count("conflict_in_all_orders:" + kind)

    # ---------- (b) exception safety by accepted-operations twin ---------------------------------------------------
    probes = make_probes(hot, kind)
    spell_ops(srng, kind, probes)
    for p in probes:
        p["t"] = 0
    nontrivial = False
    for hi in range(3):
        hist = [coll[i] for i in rng.sample(range(len(coll)), len(coll))]
        # extend: repeat some operations, replace the simulated effect (possibly after a rejection)
        extra = rng.choice([1, 2, 3, 4])
        for _ in range(extra):
            r = rng.random()
            if kind != "prob" and r < 0.45:
                hist.insert(rng.randint(1, len(hist)), gen_sim(rng, hot, kind, t=0 if rng.random() < 0.85 else 1))
            elif r < 0.75:
                hist.append(rng.choice(ops))
            else:
                hist.append(rng.choice(probes))
        ok, nt = run_history(world, kind, hist, probes, res, viol, hi)
        nontrivial = nontrivial or nt
        if not ok:
            return
    if nontrivial:
        res.nt(cid)
        res.count("nontrivial:" + kind)
    if idx < 3:
        res.sample({"container": kind, "collection": coll, "conflict_in_every_order": conflict, "orders": len(verdicts), "verdict": "agree"})


def make_probes(hot, kind):
    out = []
    for f in dict.fromkeys(hot):
        fe = ["f", "g", ["o", "o1"]] if f == "g" else ["f", f]
        if f == "c":
            vals = [["o", "o1"], ["o", "o2"]]
        elif f == "b":
            vals = [["b", True]]
        else:
            vals = [["i", 1], ["i", 7]]
        for v in vals:
            out.append({"op": "eff", "kind": "assign", "fluent": fe, "value": v, "cond": None, "forall": [], "t": 0})
        if f in ("x", "y", "g", "k"):
            out.append({"op": "eff", "kind": "inc", "fluent": fe, "value": ["i", 1], "cond": None, "forall": [], "t": 0})
    return out


def conflicting_with(accepted, op, kind="dur"):
    """Human-readable reason why the accepted-only twin rejects `op` (for the mechanism string)."""
    nt = N_TIMINGS[kind]
    t = min(op.get("t", 0), nt - 1)
    same_t = [a for a in accepted if min(a.get("t", 0), nt - 1) == t]
    sims = [a for a in same_t if a["op"] == "sim"]
    cur_sim = sims[-1] if sims else None
    out = []
    if op["op"] == "sim":
        return "effects"
    f = op["fluent"]
    if cur_sim and f in cur_sim["fluents"]:
        out.append("simulated-effect")
    for a in same_t:
        if a["op"] == "eff" and a["fluent"] == f and a.get("cond") in (None, ["b", True]):
            out.append("assign" if a["kind"] == "assign" else "incdec")
    return "+".join(sorted(set(out))) or "unknown"


def run_history(world, kind, hist, probes, res, viol, hi):
    """Returns (ok, nontrivial)."""
    real = Container(world, kind)
    accepted = []
    done = []  # every operation applied to the real container, with outcome
    rejected_before = False
    nontrivial = False
    last_rejected = None
    lookaheads = 0

    def replay_ops(seq):
        c = Container(world, kind)
        outs = [c.apply(o) for o in seq]
        return c, outs

    def culprit_of(followup, twin_outcomes):
        """The single rejected insertion whose presence alone (all other rejected ones removed) reproduces the divergence."""
        for j, (opj, outj, cwj) in enumerate(done):
            if outj != "conflict":
                continue
            seq = [d[0] for i, d in enumerate(done) if d[1] == "ok" or i == j]
            c, _ = replay_ops(seq)
            if [c.apply(o) for o in followup] != twin_outcomes:
                return f"{kind_of(opj)}:conflicting-with={cwj}"
        return "several-rejections-combined"

    for step, op in enumerate(hist):
        twin, touts = replay_ops(accepted)
        res.mon()
        if any(o != "ok" for o in touts):
            viol(
                "accepted-history-not-replayable",
                f"{kind}: the operations accepted so far are not all accepted again by a fresh container ({touts})",
                history=hist[: step + 1],
                accepted=accepted,
            )
            return False, nontrivial
        before = real.snapshot()
        try:
            out_r = real.apply(op)
            out_t = twin.apply(op)
        except _env.INTERNAL_EXC as e:
            viol(f"raises:{type(e).__name__}", f"{kind}: {op} raised {e!r}", history=hist[: step + 1])
            return False, nontrivial
        res.case()
        res.count("history_steps")
        if out_r.startswith("other:") or out_t.startswith("other:"):
            res.count("history_discarded_other_rejection")
            return True, nontrivial
        if rejected_before:
            nontrivial = True
            res.count("steps_after_a_rejection")
        if out_r != out_t:
            viol(
                "rejected-insertion-remembered:" + (culprit_of([op], [out_t]) if rejected_before else "none-rejected-before"),
                f"{kind}: step {step} {op}: the container that saw the rejected insertions answers {out_r}, a twin that only received the accepted operations answers {out_t}",
                history=hist[: step + 1],
                outcomes=[d[1] for d in done] + [out_r],
                accepted=accepted,
            )
            return False, nontrivial
        after = real.snapshot()
        if out_r == "conflict":
            res.count("rejections")
            res.count("rejection:" + kind_of(op) + "-vs-" + conflicting_with(accepted, op, kind))
            if after != before:
                viol(
                    "rejected-insertion-changed-stored-effects:" + kind_of(op),
                    f"{kind}: the rejected insertion {op} changed the stored effects",
                    history=hist[: step + 1],
                    before=show(before),
                    after=show(after),
                )
                return False, nontrivial
            rejected_before = True
            last_rejected = (op, conflicting_with(accepted, op, kind))
        else:
            accepted.append(op)
            if after != twin.snapshot():
                viol(
                    "stored-effects-differ-from-twin",
                    f"{kind}: after step {step} the stored effects differ from those of the accepted-operations twin",
                    history=hist[: step + 1],
                    real=show(after),
                    twin=show(twin.snapshot()),
                )
                return False, nontrivial
        done.append((op, out_r, last_rejected[1] if out_r == "conflict" else None))
        # ---- bounded look-ahead after a rejection: is anything remembered? -----------------------------------
        if out_r == "conflict" and lookaheads < MAX_LOOKAHEADS_PER_HISTORY:
            lookaheads += 1
            full = [d[0] for d in done]
            seqs = [[p] for p in probes] + [[s] for s in sim_probes_cache(kind, probes)]
            seqs += [[s, p] for s in sim_probes_cache(kind, probes) for p in probes]
            for seq in seqs:
                rc, _ = replay_ops(full)
                tc, _ = replay_ops(accepted)
                try:
                    o_r = [rc.apply(o) for o in seq]
                    o_t = [tc.apply(o) for o in seq]
                except _env.INTERNAL_EXC as e:
                    viol(f"raises:{type(e).__name__}", f"{kind}: probe {seq} raised {e!r}", history=full)
                    return False, nontrivial
                res.mon()
                res.case()
                res.count("lookahead_probes")
                nontrivial = True
                if o_r != o_t:
                    j = next(i for i in range(len(seq)) if o_r[i] != o_t[i])
                    res.count(f"manifestation:later-{kind_of(seq[j])}-{'refused' if o_r[j] == 'conflict' else 'accepted'}" + (":after-replacing-simulated-effect" if j > 0 else ""))
                    viol(
                        "rejected-insertion-remembered:" + culprit_of(seq, o_t),
                        f"{kind}: after the rejected insertion {op} the follow-up {seq} is answered {o_r} by the container that saw the "
                        f"rejection and {o_t} by a twin that only received the accepted operations",
                        history=full,
                        outcomes=[d[1] for d in done],
                        followup=seq,
                        followup_real=o_r,
                        followup_twin=o_t,
                    )
                    return False, nontrivial
    return True, nontrivial


_SP = {}


def sim_probes_cache(kind, probes):
    k = (kind, jdump(probes))
    if k not in _SP:
        hot_fes = []
        for p in probes:
            if p["fluent"] not in hot_fes:
                hot_fes.append(p["fluent"])
        out = [] if kind == "prob" else [{"op": "sim", "fluents": [fe], "t": 0} for fe in hot_fes] + [{"op": "sim", "fluents": [["f", "b"]], "t": 0}]
        _SP[k] = out
    return _SP[k]


# ---------------------------------------------------------------------------------------------------------------------
def thresholds(m):
    c = m["counters"]
    out = []
    for k, n in (
        ("collections:inst", 30),
        ("collections:dur", 30),
        ("collections:prob", 30),
        ("collections_with_conflict", 50),
        ("collections_without_conflict", 50),
        ("collections_with_>=2_orders", 100),
        ("opclass:sim", 30),
        ("opclass:cond-assign", 10),
        ("opclass:incdec", 50),
        ("rejections", 100),
        ("steps_after_a_rejection", 100),
        ("lookahead_probes", 200),
        ("nontrivial:inst", 10),
        ("nontrivial:dur", 10),
        ("nontrivial:prob", 10),
    ):
        if c.get(k, 0) < n:
            out.append(f"fewer than {n} observations of {k} ({c.get(k, 0)})")
    for k, n in (("dur_collections_mixing_spellings_at_start", 60), ("dur_collections_sim_plus_timepoint_spelled_effect_on_its_fluent", 10), ("dur_spelling:timepoint", 50), ("dur_spelling:fresh", 20), ("dur_spelling:arith", 20)):
        if c.get(k, 0) < n:
            out.append(f"fewer than {n} observations of {k} ({c.get(k, 0)})")
    for k in ("rejection:assign-vs-assign", "rejection:assign-vs-incdec", "rejection:incdec-vs-assign", "rejection:assign-vs-simulated-effect", "rejection:incdec-vs-simulated-effect", "rejection:sim-vs-effects"):
        if c.get(k, 0) < 5:
            out.append(f"fewer than 5 observed rejections of class {k} ({c.get(k, 0)})")
    if len(m["nontrivial"]) < 60:
        out.append("fewer than 60 distinct non-trivial collections")
    return out

"""C17 — linearity / monotonicity analysis is sound."""
from fractions import Fraction
from itertools import product

from vk import env as _env  # noqa: F401
from vk.core import rng_for, simple_plan
from vk.recipe import instantiate_problem
from vk.ref.evalx import ev, UNDEF, Interp, Unsupported

PROPERTY = "C17"
LEVEL = "exploration"
TECHNIQUE = "runtime monitoring: LinearChecker.get_fluents results judged by exhaustive exact evaluation over small bounded domains (monotonicity per fluent, vanishing second differences)"
LEVEL_TEXT = (
    "Every get_fluents(e) answer (with and without a problem that makes some fluents static) on generated numeric expressions over bounded fluents and "
    "bounded parameters is judged by exhaustive exact evaluation over the (small) declared domains: a fluent reported only positive (negative) must make "
    "the value non-decreasing (non-increasing) for all values of the other leaves; an expression reported linear must have vanishing single and mixed "
    "second differences in its non-static fluents (no fluent x fluent product, no fluent-dependent divisor). Exhaustive evaluation on small integer domains "
    "is the alternative to SMT named in the property's quantifier."
)
LEVEL_NOTE = "Trusted: vk/ref/evalx.py. Real-typed fluents are evaluated on a half-integer grid inside their bounds. Points where the expression is undefined (zero divisor) are skipped."
RULE = (
    "cases = numeric expression recipes (<= ~9 nodes) over 4 non-static bounded fluents, 2 static fluents and 3 bounded parameters; evaluations = get_fluents calls judged; "
    "distinct_nontrivial = distinct expressions reported linear with non-empty pos|neg."
)
ASSUMPTIONS = ["domains: x in [-2,2], y in [0,3], z in [-3,-1], r in {-1,-1/2,..,2}; params p in [-3,-1], q in [0,2], k in [1,3]"]
BOUNDS = {"quick": dict(n=480, per=8), "thorough": dict(n=48000, per=12)}

WORLD = {
    "name": "c17",
    "types": [],
    "objects": [],
    "fluents": [
        {"name": "x", "type": ["int", -2, 2], "sig": [], "default": ["i", 0]},
        {"name": "y", "type": ["int", 0, 3], "sig": [], "default": ["i", 1]},
        {"name": "z", "type": ["int", -3, -1], "sig": [], "default": ["i", -1]},
        {"name": "r", "type": ["real", "-1", "2"], "sig": [], "default": ["r", "1/2"]},
        {"name": "s", "type": ["int", 1, 3], "sig": [], "default": ["i", 2]},
        {"name": "sn", "type": ["int", -3, 3], "sig": [], "default": ["i", -2]},
    ],
    "actions": [
        {
            "name": "touch",
            "params": [],
            "pre": [],
            "effects": [
                {"kind": "inc", "fluent": ["f", "x"], "value": ["i", 1], "cond": None, "forall": []},
                {"kind": "inc", "fluent": ["f", "y"], "value": ["i", 1], "cond": None, "forall": []},
                {"kind": "assign", "fluent": ["f", "z"], "value": ["i", -2], "cond": None, "forall": []},
                {"kind": "assign", "fluent": ["f", "r"], "value": ["r", "1/2"], "cond": None, "forall": []},
            ],
        }
    ],
    "init": [],
    "goals": [],
}
DOM = {
    "x": [-2, -1, 0, 1, 2],
    "y": [0, 1, 2, 3],
    "z": [-3, -2, -1],
    "r": [Fraction(n, 2) for n in range(-2, 5)],
    "s": [1, 2, 3],
    "sn": [-3, -2, -1, 0, 1, 2, 3],
}
PDOM = {"p": [-3, -2, -1], "q": [0, 1, 2], "k": [1, 2, 3]}
PTYPES = {"p": ["int", -3, -1], "q": ["int", 0, 2], "k": ["int", 1, 3]}
NONSTATIC = ["x", "y", "z", "r"]
CONSTS = [["i", 2], ["i", -1], ["i", 3], ["i", -2], ["r", "1/2"], ["r", "-3/2"], ["i", 0], ["i", 1]]


def plan(tier, seed):
    b = BOUNDS[tier]
    return simple_plan(PROPERTY, tier, seed, b["n"], b["n"])


def run_shard(spec, res):
    for key in spec["cases"]:
        try:
            run_case(key, spec["tier"], res)
        except Unsupported:
            res.count("skipped_unsupported_by_oracle")


def replay(witness, res):
    run_case(witness["case_key"], witness.get("tier", "quick"), res, only=witness.get("index"))


def leaf(rng):
    x = rng.random()
    if x < 0.5:
        return ["f", rng.choice(NONSTATIC + ["s", "sn"])]
    if x < 0.7:
        return ["p", rng.choice(list(PDOM))]
    return rng.choice(CONSTS)


def gen(rng, depth):
    x = rng.random()
    if depth <= 0 or x < 0.25:
        return leaf(rng)
    if x < 0.45:
        return ["plus", gen(rng, depth - 1), gen(rng, depth - 1)]
    if x < 0.62:
        return ["minus", gen(rng, depth - 1), gen(rng, depth - 1)]
    if x < 0.82:
        # mostly (something) * (fluent-free factor); sometimes two arbitrary factors
        if rng.random() < 0.7:
            f = rng.choice([["p", rng.choice(list(PDOM))], rng.choice(CONSTS), ["minus", ["i", 0], ["p", "k"]], ["f", "s"], ["f", "sn"], ["minus", ["p", "q"], ["i", 1]]])
            args = [gen(rng, depth - 1), f]
            rng.shuffle(args)
            return ["times"] + args
        return ["times", gen(rng, depth - 1), gen(rng, depth - 1)]
    d = rng.choice([["p", "p"], ["p", "k"], ["p", "q"], ["i", 2], ["i", -2], ["r", "-1/2"], ["f", "s"], ["f", "sn"], ["minus", ["i", 0], ["p", "k"]], ["minus", ["i", 0], ["i", 2]], ["f", "y"], ["plus", ["f", "z"], ["i", 0]]])
    return ["div", gen(rng, depth - 1), d]


def leaves_of(e):
    fl, ps = set(), set()
    st = [e]
    while st:
        x = st.pop()
        if x.is_fluent_exp():
            fl.add(x.fluent().name)
        elif x.is_parameter_exp():
            ps.add(x.parameter().name)
        st.extend(x.args)
    return sorted(fl), sorted(ps)


def run_case(key, tier, res, only=None):
    from unified_planning.exceptions import UPException
    from unified_planning.model import Parameter
    from unified_planning.model.walkers import LinearChecker

    b = BOUNDS[tier]
    rng = rng_for(key)
    e_env = _env.fresh_env()
    pb, ctx = instantiate_problem(WORLD, e_env)
    ctx.params = {n: Parameter(n, ctx.type(t), e_env) for n, t in PTYPES.items()}
    lc_pb = LinearChecker(pb)
    lc_env = LinearChecker(environment=e_env)
    for idx in range(b["per"]):
        er = gen(rng, rng.choice([1, 2, 2, 3]))
        if only is not None and idx != only:
            continue
        try:
            e = ctx.expr(er)
        except (UPException, ZeroDivisionError):
            res.count("rejected_expression")
            continue
        for mode, lc in (("problem", lc_pb), ("env", lc_env)):
            res.case()

            def viol(mech, summary, **kw):
                res.violation(mech, summary, {"case_key": key, "tier": tier, "index": idx, "mode": mode, "expr": str(e), "expr_recipe": er, **kw})

            try:
                is_lin, pos, neg = lc.get_fluents(e)
            except ZeroDivisionError:
                res.count("rejected_zero_division")
                continue
            except Exception as ex:
                viol(f"get_fluents-raises:{type(ex).__name__}", f"get_fluents({e}) raised {ex!r}")
                continue
            res.mon()
            posn = {p.fluent().name for p in pos}
            negn = {p.fluent().name for p in neg}
            fl, ps = leaves_of(e)
            static = {"s", "sn"} if mode == "problem" else set()
            free_fl = [f for f in fl if f not in static]
            if not is_lin:
                res.count("reported_nonlinear")
                continue
            res.count("reported_linear")
            if posn | negn:
                res.nt((str(er), mode))
            # enumerate all points
            names = free_fl + ps
            doms = [DOM[n] for n in free_fl] + [PDOM[n] for n in ps]
            npts = 1
            for d in doms:
                npts *= len(d)
            if npts > 20000:
                res.count("skipped_too_large")
                continue
            pin = {(n, ()): (2 if n == "s" else -2) for n in static}
            table = {}
            for combo in product(*doms):
                flv = dict(pin)
                prm = {}
                for n, v in zip(names, combo):
                    if n in PDOM:
                        prm[n] = v
                    else:
                        flv[(n, ())] = v
                try:
                    table[combo] = ev(e, Interp(pb, flv, prm), "strict")
                except ZeroDivisionError:
                    table[combo] = UNDEF
            res.count("points_evaluated", len(table))
            bad = None
            # monotonicity
            for fi, f in enumerate(free_fl):
                only_pos = f in posn and f not in negn
                only_neg = f in negn and f not in posn
                if f not in posn and f not in negn:
                    # a fluent reported in neither set: the value must not depend on it
                    only_pos = only_neg = True
                if not (only_pos or only_neg):
                    continue
                d = doms[fi]
                for combo, v in table.items():
                    if v is UNDEF:
                        continue
                    j = d.index(combo[fi])
                    if j + 1 >= len(d):
                        continue
                    nxt = combo[:fi] + (d[j + 1],) + combo[fi + 1 :]
                    v2 = table[nxt]
                    if v2 is UNDEF:
                        continue
                    res.mon()
                    if only_pos and v2 < v:
                        bad = ("monotonicity:reported-positive-but-decreasing", f, combo, v, nxt, v2)
                    elif only_neg and v2 > v:
                        bad = ("monotonicity:reported-negative-but-increasing", f, combo, v, nxt, v2)
                    if bad:
                        break
                if bad:
                    break
            if bad:
                kind, f, c1, v1, c2, v2 = bad
                div_by = "non-constant-divisor" if _has_nonconst_divisor(e) else "other"
                viol(
                    f"{kind}:{div_by}",
                    f"get_fluents({e}) [{mode}] = linear, pos={sorted(posn)}, neg={sorted(negn)} but going from {dict(zip(names, map(str, c1)))} to {f}={c2[names.index(f)]} changes the value {v1} -> {v2}",
                    pos=sorted(posn),
                    neg=sorted(negn),
                )
                continue
            # joint affinity in the non-static fluents (parameters fixed)
            aff_bad = None
            nf = len(free_fl)
            for combo, v in table.items():
                if v is UNDEF:
                    continue
                for fi in range(nf):
                    d = doms[fi]
                    j = d.index(combo[fi])
                    if j + 2 < len(d):
                        c1 = combo[:fi] + (d[j + 1],) + combo[fi + 1 :]
                        c2 = combo[:fi] + (d[j + 2],) + combo[fi + 1 :]
                        a, b2 = table[c1], table[c2]
                        if a is not UNDEF and b2 is not UNDEF:
                            res.mon()
                            if b2 - 2 * a + v != 0:
                                aff_bad = ("second-difference", free_fl[fi], combo)
                                break
                    for gi in range(fi + 1, nf):
                        dg = doms[gi]
                        jg = dg.index(combo[gi])
                        if j + 1 < len(d) and jg + 1 < len(dg):
                            cf = combo[:fi] + (d[j + 1],) + combo[fi + 1 :]
                            cg = combo[:gi] + (dg[jg + 1],) + combo[gi + 1 :]
                            cfg = cf[:gi] + (dg[jg + 1],) + cf[gi + 1 :]
                            vals = [table[cf], table[cg], table[cfg]]
                            if all(x is not UNDEF for x in vals):
                                res.mon()
                                if vals[2] - vals[0] - vals[1] + v != 0:
                                    aff_bad = ("mixed-difference", free_fl[fi] + "*" + free_fl[gi], combo)
                                    break
                    if aff_bad:
                        break
                if aff_bad:
                    break
            if aff_bad:
                viol(
                    f"reported-linear-but-not-affine:{aff_bad[0]}",
                    f"get_fluents({e}) [{mode}] reports linear but the value is not affine in {aff_bad[1]} around {dict(zip(names, map(str, aff_bad[2])))}",
                )
                continue
            if idx == 0 and mode == "problem":
                res.sample({"expr": str(e), "linear": is_lin, "pos": sorted(posn), "neg": sorted(negn), "points": len(table)})


def _has_nonconst_divisor(e):
    st = [e]
    while st:
        x = st.pop()
        if x.is_div() and not x.arg(1).is_constant():
            return True
        st.extend(x.args)
    return False


def thresholds(m):
    c = m["counters"]
    out = []
    for k, n in (("reported_linear", 300), ("reported_nonlinear", 50), ("points_evaluated", 10000)):
        if c.get(k, 0) < n:
            out.append(f"{k} observed {c.get(k, 0)} < {n}")
    return out

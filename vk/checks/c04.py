"""C04 - time-triggered and sequential validation agree on instantaneous plans.

Differential monitor: for generated instantaneous problems (C01 grammar) and plans up to a length bound, the statuses of
SequentialPlanValidator.validate(P, pi) and TimeTriggeredPlanValidator.validate(P, tau(pi)) (tau = strictly increasing
rational start times; plus the same timed plan listed in shuffled order) must be equal.  vk.ref.seqsem is used only to build
the workload (plans that end in bounds / invariant / conflict situations), to enforce the statement's precondition on the
initial state, and to label which side is wrong."""
from fractions import Fraction

from vk import env as _env  # noqa: F401
from vk.core import rng_for, simple_plan, h
from vk.gen.temporal import FixedG
from vk.recipe import instantiate_problem
from vk.ref import seqsem
from vk.ref.evalx import Unsupported
from vk.ref.seqsem import OKAY, INAPP
from vk.checks.c05 import lib_site

PROPERTY = "C04"
LEVEL = "exploration"
TECHNIQUE = "runtime monitoring: differential monitor between SequentialPlanValidator and TimeTriggeredPlanValidator on the same instantaneous plans"
LEVEL_TEXT = (
    "Every pair of verdicts of the two real validators observed on generated instantaneous problems and plans (each plan "
    "time-stamped with strictly increasing rational start times, also listed in shuffled order) is compared; held on the "
    "executions observed, no claim beyond the generated grammar and length bound."
)
LEVEL_NOTE = (
    "Trusted: CPython, fractions, read-only accessors, public constructors used by vk.recipe. The reference semantics "
    "vk/ref/seqsem.py only shapes the workload, enforces the statement's precondition (initial state within bounds and "
    "invariants) and labels the witness; it never decides a verdict."
)
RULE = (
    "cases = generated problem recipes (C01 grammar incl. bounded numeric fluents, invariants, conditional/forall effects; for a "
    "share of the problems widened with invariants that reach the constrained fluent indirectly - through an object-valued fluent used "
    "as an argument, ground / quantified / guarded - plus actions writing the outer or the inner fluent, see IndirectG; goals "
    "dropped for half of the problems so that they do not mask the last step); per problem up to PLANS plans of length <= L taken "
    "from a reference-guided DFS: every reference-valid prefix and every one-step extension that the reference calls "
    "inapplicable / don't-care. evaluations = plans whose three verdicts (sequential, time-triggered, time-triggered shuffled) "
    "were compared. distinct_nontrivial = distinct (problem, plan) that the reference calls invalid for a reason other than a false "
    "precondition or an unsatisfied goal (bounds, invariant, conflict, undefined) or valid with >= 2 steps."
    " Thorough tier, shard 0: additionally the labelled valid and invalid sequential plans of the repository's example problems "
    "that fall under the statement (58 plans on the pinned tree) are judged in the same way (counter examples_plans_judged)."
)
ASSUMPTIONS = [
    "the statement's precondition (initial state satisfies bounds and invariants) is established with vk/ref/seqsem.py",
    "start times are strictly increasing rationals; the shuffled variant lists the same (time, instance) pairs in another order",
]
SHARD_TIMEOUT = {"quick": 600, "thorough": 5400}
BOUNDS = {"quick": dict(n=700, L=3, plans=10, max_inst=14), "thorough": dict(n=36000, L=4, plans=24, max_inst=20)}
PROFILE = dict(invariants=0.4, undefined_init=0.08, interpreted_functions=0.0, max_depth=1, indirect_invariants=0.3)


# ---- workload: the C01 grammar widened with invariants that reach a fluent *indirectly* ---------------------------------
def _nested(e):
    """True iff the expression recipe applies a fluent to an argument that is itself a fluent application."""
    if not isinstance(e, list):
        return False
    if e and e[0] == "f" and any(isinstance(a, list) and a and a[0] == "f" for a in e[2:]):
        return True
    return any(_nested(a) for a in e[1:])


def _forall_self_conflict(action):
    """Some forall effect of the action has a target that does not mention all of its quantified variables while its value or
    condition does: several instances of that single effect write one ground fluent."""
    from vk.ref.evalx import free_vars

    for eff in action.effects:
        vs = {v.name for v in eff.forall}
        if vs and not vs <= free_vars(eff.fluent) and (vs & (free_vars(eff.value) | free_vars(eff.condition))):
            return True
    return False


def _nested_names(e, out):
    if not isinstance(e, list):
        return
    if e and e[0] == "f":
        for a in e[2:]:
            if isinstance(a, list) and a and a[0] == "f":
                out["outer"].add(e[1])
                out["inner"].add(a[1])
    for a in e[1:]:
        _nested_names(a, out)


def _ground_fluent_atoms(e, out):
    """Names+constant arguments of the fluent applications whose arguments are all object constants."""
    if not isinstance(e, list):
        return out
    if e and e[0] == "f" and all(isinstance(a, list) and a and a[0] == "o" for a in e[2:]):
        out.add((e[1], tuple(a[1] for a in e[2:])))
    for a in e[1:]:
        _ground_fluent_atoms(a, out)
    return out


class IndirectG(FixedG):
    """The C01 grammar (vk.gen.problem.G, objs_of repaired) widened for state invariants that reach the constrained ground
    fluent only *indirectly*: through an object-valued fluent used as an argument (`p(g(o))`, `forall v. q(v) -> not p(g(v))`)
    or through a quantified variable.  With probability `indirect_invariants` a problem gets
      * an object-valued fluent with one parameter (the *inner* fluent; an existing one is reused when there is one) and an
        *outer* fluent (boolean / numeric) with a parameter that accepts the inner fluent's values;
      * one or two invariants over `outer(inner(.))`: ground, universally / existentially quantified, guarded by a grammar
        atom, or a plainly quantified `forall v. lit(outer(v))`; built to hold in the initial state;
      * optionally actions that write the outer fluent (`outer(y) := c`, also guarded by `inner(y1) == y`, increase) or re-route the
        inner fluent (`inner(y0) := y1`), with grammar-generated preconditions.
    Everything else (types, objects, other fluents, actions, goals, other invariants) is the unchanged grammar."""

    def gen(self):
        self.nest = None
        self.new_fluents = []
        # decided on a copy of the case RNG: the problems that are not widened are exactly those of the plain grammar
        import random

        r2 = random.Random()
        r2.setstate(self.rng.getstate())
        want = r2.random() < self.pf.get("indirect_invariants", 0.0)
        rec = G_gen(self)
        if want:
            # the widening draws from the copy only: the grammar part of a widened problem (and the RNG state the plan search
            # starts from) is exactly what the plain grammar produces for the case
            main, self.rng = self.rng, r2
            try:
                self.declare_nest()
                self.widen(rec)
            finally:
                self.rng = main
        return rec

    # -- fluents
    def declare_nest(self):
        r = self.rng
        inner_c = [f for f in self.fluents if f["type"][0] == "user" and len(f["sig"]) == 1]
        if inner_c and r.random() < 0.7:
            inner = r.choice(inner_c)
        else:
            t = r.choice(self.types)[0]
            t2 = r.choice(self.types)[0]
            inner = {"name": self.name("f", len(self.fluents)), "type": ["user", t], "sig": [["x0", ["user", t2]]], "default": None}
            self.fluents.append(inner)
            self.new_fluents.append(inner)
        t = inner["type"][1]
        outer_c = []
        for f in self.fluents:
            if f is inner or f["type"][0] == "user":
                continue
            for k, (_, pt) in enumerate(f["sig"]):
                if t in self.subtypes(pt[1]):
                    outer_c.append((f, k))
        if outer_c and r.random() < 0.6:
            outer, k = r.choice(outer_c)
        else:
            anc = [n for n, _ in self.types if t in self.subtypes(n)]
            ft = "bool" if r.random() < 0.7 else ["int", None, None]
            outer = {"name": self.name("f", len(self.fluents)), "type": ft, "sig": [["x0", ["user", r.choice(anc)]]], "default": None}
            k = 0
            self.fluents.append(outer)
            self.new_fluents.append(outer)
        self.nest = (inner, outer, k)
        self.feat.add("indirect-invariant")

    # -- initial values, invariants, writer actions (after the grammar is done)
    def widen(self, rec):
        r = self.rng
        inner, outer, k = self.nest
        init = rec["init"]
        for f in self.new_fluents:
            for args in self.ground_args(f):
                v = self.const_for(f["type"])
                if v is not None:
                    init.append([["f", f["name"]] + [["o", a] for a in args], v])

        def init_val(f, args):
            key = ["f", f["name"]] + [["o", a] for a in args]
            for fe, v in init:
                if fe == key:
                    return v
            return f["default"]

        def set_init(f, args, v):
            key = ["f", f["name"]] + [["o", a] for a in args]
            for ent in init:
                if ent[0] == key:
                    ent[1] = v
                    return
            init.append([key, v])

        dom = self.objs_of(inner["sig"][0][1][1])
        others = {}
        for j, (_, pt) in enumerate(outer["sig"]):
            if j != k:
                others[j] = r.choice(self.objs_of(pt[1]))

        def outer_at(term):
            return ["f", outer["name"]] + [term if j == k else ["o", others[j]] for j in range(len(outer["sig"]))]

        def outer_args(o):
            return tuple(o if j == k else others[j] for j in range(len(outer["sig"])))

        def image(o):
            v = init_val(inner, (o,))
            return None if v is None else v[1]

        def lit(term, vals):
            """a literal over outer(term) that holds for all the given initial values (None when one is undefined)"""
            if any(v is None for v in vals) or not vals:
                return None, None
            if outer["type"] == "bool":
                b = r.choice(vals)[1]
                return (outer_at(term) if b else ["not", outer_at(term)]), ["b", b]
            xs = [Fraction(v[1]) for v in vals]
            if r.random() < 0.5:
                return ["le", outer_at(term), ["r", str(max(xs) + r.choice([0, 0, 1, 2]))]], None
            return ["ge", outer_at(term), ["r", str(min(xs) - r.choice([0, 0, 1, 2]))]], None

        vt = inner["sig"][0][1]
        var = ["q_" + vt[1], vt]
        vterm = ["v", var[0], var[1]]
        invs = []
        for _ in range(r.choice([1, 1, 2])):
            shape = r.choice(["ground", "forall", "forall", "guarded", "guarded", "exists", "plain-forall"])
            imgs = [image(o) for o in dom]
            if shape == "plain-forall":
                pt = outer["sig"][k][1]
                pv = ["q_" + pt[1], pt]
                objs = self.objs_of(pt[1])
                l, b = lit(["v", pv[0], pv[1]], [init_val(outer, outer_args(o)) for o in objs])
                if l is None:
                    continue
                if b is not None:
                    for o in objs:
                        set_init(outer, outer_args(o), b)
                invs.append(["forall", [pv], l])
            elif shape == "ground":
                o = r.choice(dom)
                if image(o) is None:
                    continue
                l, _ = lit(["f", inner["name"], ["o", o]], [init_val(outer, outer_args(image(o)))])
                if l is not None:
                    invs.append(l)
            elif shape == "exists":
                o = r.choice(dom)
                if image(o) is None:
                    continue
                l, _ = lit(["f", inner["name"], vterm], [init_val(outer, outer_args(image(o)))])
                if l is not None:
                    invs.append(["exists", [var], l])
            else:
                if any(i is None for i in imgs):
                    continue
                l, b = lit(["f", inner["name"], vterm], [init_val(outer, outer_args(i)) for i in imgs])
                if l is None:
                    continue
                if b is not None:
                    for i in imgs:
                        set_init(outer, outer_args(i), b)
                if shape == "guarded":
                    bf = [f for f in self.fluents if f["type"] == "bool" and f is not outer and len(f["sig"]) == 1 and vt[1] in self.subtypes(f["sig"][0][1][1])]
                    guard = ["f", r.choice(bf)["name"], vterm] if bf and r.random() < 0.6 else self.atom({"vars": [var]})
                    l = ["implies", guard, l]
                invs.append(["forall", [var], l])
            self.feat.add("indirect-invariant:" + shape)
        rec["invariants"] = list(rec["invariants"]) + invs
        if invs:
            self.feat.add("invariant")
        # writer actions
        acts = rec["actions"]
        pt = outer["sig"][k][1]
        if r.random() < 0.7:
            params = [["y0", pt]]
            tgt = ["p", "y0"]
            via = []
            if r.random() < 0.25:
                # the written instance is the one the inner fluent points to (the model API refuses `outer(inner(y)) := c`)
                params = [["y0", pt], ["y1", vt]]
                via = [["eq", ["f", inner["name"], ["p", "y1"]], ["p", "y0"]]]
            sc = {"params": params}
            fa = []
            if not via and r.random() < 0.15:
                # forall-effect over the outer fluent's parameter
                fa = [["e_" + pt[1], pt]]
                tgt = ["v", fa[0][0], pt]
                params = []
                sc = {"params": params, "vars": fa}
            if outer["type"] == "bool":
                eff = {"kind": "assign", "fluent": outer_at(tgt), "value": ["b", r.random() < 0.5], "cond": None, "forall": fa}
            else:
                kind = r.choice(["inc", "dec", "assign"])
                val = ["i", r.choice([1, 2, 3])] if kind != "assign" else self.const_for(outer["type"])
                eff = {"kind": kind, "fluent": outer_at(tgt), "value": val, "cond": None, "forall": fa}
            if r.random() < 0.2:
                eff["cond"] = self.boolean(1, sc)
            pre = via + ([self.boolean(1, {"params": params})] if r.random() < 0.3 else [])
            acts.append({"name": self.name("a", len(acts)), "params": params, "pre": pre, "effects": [eff]})
            self.feat.add("writer:outer")
        if r.random() < 0.5:
            params = [["y0", vt], ["y1", inner["type"]]]
            sc = {"params": params}
            eff = {"kind": "assign", "fluent": ["f", inner["name"], ["p", "y0"]], "value": ["p", "y1"], "cond": None, "forall": []}
            pre = [self.boolean(1, sc)] if r.random() < 0.3 else []
            acts.append({"name": self.name("a", len(acts)), "params": params, "pre": pre, "effects": [eff]})
            self.feat.add("writer:inner")


def G_gen(g):
    from vk.gen.problem import G

    return G.gen(g)


def gen_problem(rng, profile=None):
    g = IndirectG(rng, profile)
    rec = g.gen()
    return rec, sorted(g.feat)


def plan(tier, seed):
    b = BOUNDS[tier]
    return simple_plan(PROPERTY, tier, seed, b["n"], b["n"])


def run_shard(spec, res):
    b = BOUNDS[spec["tier"]]
    for key in spec["cases"]:
        try:
            run_case(key, spec["tier"], b, res)
        except Unsupported:
            res.count("skipped_unsupported_by_oracle")
    if spec["tier"] == "thorough" and spec["shard"] == 0:
        res.count("tier:thorough")
        run_examples(spec["tier"], res)


def replay(witness, res):
    tier = witness.get("tier", "quick")
    if witness.get("example"):
        run_examples(tier, res, only=witness["example"])
        return
    run_case(witness["case_key"], tier, BOUNDS[tier], res)


def run_examples(tier, res, only=None):
    """The labelled sequential plans (valid and invalid) of the repository's example problems that fall under the statement
    (instantaneous actions only, no timed effects / goals, legal initial state), each as a time-triggered plan with distinct
    start times, listed in order and shuffled."""
    import random

    from unified_planning.engines.plan_validator import SequentialPlanValidator, TimeTriggeredPlanValidator
    from unified_planning.exceptions import UPException
    from unified_planning.model import InstantaneousAction, Problem
    from unified_planning.plans import SequentialPlan, TimeTriggeredPlan
    from unified_planning.test.examples import get_example_problems
    from vk.ref.evalx import const_value

    for name, ex in sorted(get_example_problems().items()):
        if only and name != only:
            continue
        pb = ex.problem
        if type(pb) is not Problem or pb.kind.has_simulated_effects() or pb.timed_effects or pb.timed_goals:
            continue
        if not all(isinstance(a, InstantaneousAction) for a in pb.actions):
            continue
        if not (SequentialPlanValidator.supports(pb.kind) and TimeTriggeredPlanValidator.supports(pb.kind)):
            res.count("examples_skipped_unsupported_kind")
            continue
        try:
            s0 = seqsem.initial_state(pb)
            if not seqsem.bounds_ok(pb, s0)[0] or (pb.state_invariants and seqsem.invariants_status(pb, s0) is not True):
                res.count("examples_skipped_initial_state_precondition")
                continue
        except Unsupported:
            res.count("examples_skipped_unsupported_by_oracle")
            continue
        except Exception as e:
            res.count("examples_skipped_oracle_error:" + type(e).__name__)
            continue
        rng = random.Random(name)
        for label, plans in (("valid", ex.valid_plans), ("invalid", ex.invalid_plans)):
            for k, pl in enumerate(plans):
                if not isinstance(pl, SequentialPlan) or not pl.actions or len(pl.actions) > 60:
                    continue
                try:
                    steps = [(ai.action, tuple(const_value(p) for p in ai.actual_parameters)) for ai in pl.actions]
                    st, _, _, r = seqsem.run_plan(pb, steps)
                except Unsupported:
                    res.count("examples_skipped_unsupported_by_oracle")
                    continue
                except Exception as e:
                    res.count("examples_skipped_oracle_error:" + type(e).__name__)
                    continue
                if st == seqsem.DONTCARE:
                    res.count("examples_dontcare:" + str(r.reason))
                    continue
                times = timestamps(rng, len(pl.actions))
                timed = [(t, ai, None) for t, ai in zip(times, pl.actions)]
                shuf = list(timed)
                rng.shuffle(shuf)
                env = pb.environment
                plan_json = [[a.name, list(map(str, args))] for a, args in steps]
                w = {"example": name, "k": k, "corpus_label": label, "tier": tier, "plan": plan_json, "times": [str(t) for t in times]}

                def call(v, p):
                    try:
                        return v(environment=env).validate(pb, p).status.name
                    except _env.INTERNAL_EXC as ex:
                        return ("raises", ex)
                    except UPException as ex:
                        return ("rejected", ex)

                sq = call(SequentialPlanValidator, pl)
                tt = call(TimeTriggeredPlanValidator, TimeTriggeredPlan(list(timed), env))
                tt2 = call(TimeTriggeredPlanValidator, TimeTriggeredPlan(shuf, env))
                res.mon()
                raised = [(side, r) for side, r in (("sequential", sq), ("time-triggered", tt), ("time-triggered", tt2)) if isinstance(r, tuple) and r[0] == "raises"]
                if raised:
                    res.case()
                    side, r = raised[0]
                    res.violation(f"raises:{side}:{type(r[1]).__name__}@{lib_site(r[1])}", f"{side} validator raised {r[1]!r} on the {label} plan #{k} of example {name}", w)
                    continue
                if any(isinstance(r, tuple) for r in (sq, tt, tt2)):
                    res.count("examples_rejected_by_validator")
                    continue
                res.case()
                res.count("examples_plans_judged")
                res.count("examples_plans_judged:" + label)
                if tt != tt2:
                    res.violation("tt-order-dependence:corpus", f"example {name} {label} plan #{k}: time-triggered verdict depends on the listing order: {tt} vs {tt2}", {**w, "observed": {"tt": tt, "tt_shuffled": tt2, "seq": sq}})
                elif sq != tt:
                    res.violation(f"tt-{tt}/seq-{sq}:corpus", f"example {name} {label} plan #{k}: time-triggered validation says {tt}, sequential validation says {sq}", {**w, "observed": {"tt": tt, "seq": sq}})
                else:
                    res.count("agree:" + sq)


def candidate_plans(pb, rng, b):
    """Reference-guided DFS. Yields (steps, label, nontrivial) with label = ('valid'|'goal'|reason...)."""
    insts = seqsem.all_instances(pb)
    if len(insts) > b["max_inst"]:
        insts = rng.sample(insts, b["max_inst"])
    s0 = seqsem.initial_state(pb)
    out = {"hot": [], "valid": [], "cold": [], "changed": {}}
    stack = [([], s0, set())]
    nodes = 0
    while stack and nodes < 400:
        path, s, feats = stack.pop()
        nodes += 1
        gs = seqsem.goal_status(pb, s)
        if gs is True:
            out["valid"].append((path, "ref-valid" + (":same-value-twice" if "same-value-twice" in feats else ""), len(path) >= 2))
        elif gs is False:
            out["cold"].append((path, "ref-goal-unsatisfied", False))
        else:
            out["cold"].append((path, "ref-dontcare:goal reads an undefined fluent but is true under every completion", False))
        if len(path) >= b["L"]:
            continue
        order = list(insts)
        rng.shuffle(order)
        for a, args in order:
            r = seqsem.succ(pb, s, a, args)
            step = (a, args)
            if r.status == OKAY:
                if r.info.get("changed") or rng.random() < 0.3:
                    stack.append((path + [step], r.state, feats | r.info.get("features", set())))
            elif r.status == INAPP:
                if r.reason == "precondition-false":
                    out["cold"].append((path + [step], "ref-precondition-false", False))
                else:
                    out["hot"].append((path + [step], "ref-" + r.reason + ":last-step", True))
                    if r.reason == "invariant":
                        out["changed"][str(path + [step])] = sorted(r.info.get("changed", ()), key=str)
                    # ... and followed by one more step (the violation is then not at the last happening)
                    if len(path) + 1 < b["L"] and rng.random() < 0.5:
                        a2, args2 = rng.choice(insts)
                        out["hot"].append((path + [step, (a2, args2)], "ref-" + r.reason + ":inner-step", True))
            else:
                out["cold"].append((path + [step], "ref-dontcare:" + str(r.reason), False))
    return out


def timestamps(rng, n):
    t = Fraction(rng.choice([0, 0, 1, 1, 2, 5]), rng.choice([1, 2, 3]))
    out = []
    for _ in range(n):
        out.append(t)
        t = t + Fraction(rng.choice([1, 1, 1, 2, 3, 7]), rng.choice([1, 2, 3, 5, 100]))
    return out


def run_case(key, tier, b, res):
    from unified_planning.engines.plan_validator import SequentialPlanValidator, TimeTriggeredPlanValidator
    from unified_planning.exceptions import UPException
    from unified_planning.plans import ActionInstance, TimeTriggeredPlan

    rng = rng_for(key)
    rec, feats = gen_problem(rng, PROFILE)
    if rng.random() < 0.5:
        rec["goals"] = []
    e = _env.fresh_env()
    try:
        pb, ctx = instantiate_problem(rec, e)
    except UPException:
        res.count("rejected_at_build")
        return
    if not (SequentialPlanValidator.supports(pb.kind) and TimeTriggeredPlanValidator.supports(pb.kind)):
        res.count("rejected_unsupported_kind")
        return
    # precondition of the statement, established with the reference
    gfl = seqsem.ground_fluents(pb)
    s0 = seqsem.initial_state(pb)
    bok, _ = seqsem.bounds_ok(pb, s0)
    inv = seqsem.invariants_status(pb, s0)
    undefined_bounded = any(
        (f.type.is_int_type() or f.type.is_real_type()) and (f.type.lower_bound is not None or f.type.upper_bound is not None) and (f.name, args) not in s0
        for f, args in gfl
    )
    if not bok or inv is not True or undefined_bounded:
        res.count("skipped_initial_state_precondition")
        return
    res.count("problems")
    for ft in feats:
        if ft.startswith(("indirect-invariant", "writer:")):
            res.count("feature:" + ft)
    pid = h(rec)
    inv_atoms = set()
    for iv in rec["invariants"]:
        _ground_fluent_atoms(iv, inv_atoms)
    has_nested = any(_nested(iv) for iv in rec["invariants"])
    nested_names = {"outer": set(), "inner": set()}
    for iv in rec["invariants"]:
        _nested_names(iv, nested_names)
    cands = candidate_plans(pb, rng, b)
    chosen = []
    nh = (b["plans"] * 5) // 10
    rng.shuffle(cands["hot"])
    rng.shuffle(cands["valid"])
    rng.shuffle(cands["cold"])
    cands["valid"].sort(key=lambda c: -len(c[0]))
    chosen += cands["hot"][:nh]
    chosen += cands["valid"][: (b["plans"] * 3) // 10]
    chosen += cands["cold"][: max(1, b["plans"] - len(chosen))]
    sampled = False
    for steps, label, nontrivial in chosen:
        times = timestamps(rng, len(steps))
        ais = [ActionInstance(a, seqsem.param_exprs(pb, a, args)) for a, args in steps]
        from unified_planning.plans import SequentialPlan

        sp = SequentialPlan(ais, e)
        timed = [(t, ai, None) for t, ai in zip(times, ais)]
        ttp = TimeTriggeredPlan(list(timed), e)
        shuf = list(timed)
        rng.shuffle(shuf)
        ttp2 = TimeTriggeredPlan(shuf, e)
        plan_json = [[a.name, list(args)] for a, args in steps]
        w = {"case_key": key, "tier": tier, "recipe": rec, "plan": plan_json, "times": [str(t) for t in times], "reference_label": label}

        def call(v, p):
            try:
                return v(environment=e).validate(pb, p).status.name
            except _env.INTERNAL_EXC as ex:
                return ("raises", ex)
            except UPException as ex:
                return ("rejected", ex)

        sq = call(SequentialPlanValidator, sp)
        tt = call(TimeTriggeredPlanValidator, ttp)
        tt2 = call(TimeTriggeredPlanValidator, ttp2)
        res.mon()
        bad = False
        for side, r in (("sequential", sq), ("time-triggered", tt), ("time-triggered", tt2)):
            if isinstance(r, tuple) and r[0] == "raises":
                res.violation(f"raises:{side}:{type(r[1]).__name__}@{lib_site(r[1])}", f"{side} validator raised {r[1]!r} on plan {plan_json} (reference: {label})", w)
                bad = True
        if bad:
            res.case()
            continue
        if any(isinstance(r, tuple) for r in (sq, tt, tt2)):
            res.count("rejected_by_validator")
            continue
        if label.startswith("ref-dontcare:") and "same value assigned twice through different value expressions" in label:
            # DESIGN 11.2: the model API rejects two unconditional assignments with different value expressions statically; after
            # grounding/simplification the sequential path refuses such an action while the time-triggered path compares the
            # (equal) values dynamically. The statements only fix *different* values: not judged, counted.
            res.count("dontcare:same-value-through-different-expressions")
            if not (sq == tt == tt2):
                res.count("observed:same-value-different-expressions-disagreement")
            continue
        if label.startswith("ref-dontcare:") and "coinciding instances of one forall increase/decrease" in label:
            res.count("dontcare:coinciding-forall-incdec")
            continue
        if label.startswith("ref-dontcare:") and "undefined" in label:
            # the docs leave reads of undefined values that do not matter (`true or undef`, `f == f`) to the implementation;
            # the two validators evaluate differently simplified expressions there: not judged (rule 1), only counted
            res.count("dontcare:" + label[13:])
            if not (sq == tt == tt2):
                res.count("observed:undefined-read-disagreement")
            continue
        res.case()
        res.count("label:" + label.split(":")[0] + (":" + label.split(":")[1] if label.startswith("ref-dontcare") else ""))
        if label.startswith(("ref-bounds", "ref-invariant")):
            res.count("class:" + label[4:])
        ch = cands["changed"].get(str(steps))
        if ch is not None and label == "ref-invariant:last-step":
            # the invariant breaks through ground fluents that no invariant names literally (they are reached through a
            # fluent-valued argument or a quantified variable)
            if not any((n, tuple(a)) in inv_atoms for n, a in ch):
                res.count("class:invariant:broken-indirectly")
                if has_nested:
                    res.count("class:invariant:broken-indirectly:nested-argument")
                    names = {n for n, _ in ch}
                    for n in sorted(names & nested_names["outer"]):
                        res.count("class:invariant:broken-indirectly:outer-written")
                        break
                    for n in sorted(names & nested_names["inner"]):
                        res.count("class:invariant:broken-indirectly:inner-written")
                        break
        if nontrivial:
            res.nt((pid, plan_json))
        if tt != tt2:
            res.violation("tt-order-dependence:" + label, f"time-triggered verdict depends on the listing order: {tt} vs {tt2} (shuffled) on {plan_json}", {**w, "observed": {"tt": tt, "tt_shuffled": tt2, "seq": sq}})
        elif sq != tt:
            # one string per root cause: the bounds check is missing wherever the step is; an invariant is only missed when it
            # breaks at the last happening; "Double effect" is raised whatever the expressions that produce the equal values
            mlabel = "same-value-twice" if "same value assigned twice" in label or "same-value-twice" in label else label
            if mlabel.startswith("ref-bounds"):
                mlabel = "ref-bounds"
            if mlabel.startswith("ref-conflicting-assignments"):
                # one string per root cause, wherever the step is: the conflict arises among the instances of ONE forall effect
                # whose target does not mention (all of) its variables, or between different effects
                k = len(steps) - 1 if mlabel.endswith(":last-step") else len(steps) - 2
                mlabel = "ref-conflicting-assignments" + (":within-one-forall-effect" if 0 <= k and _forall_self_conflict(steps[k][0]) else "")
            res.violation(
                f"tt-{tt}/seq-{sq}:{mlabel}",
                f"time-triggered validation says {tt}, sequential validation says {sq} for plan {plan_json} at times {[str(t) for t in times]} (reference: {label})",
                {**w, "observed": {"tt": tt, "seq": sq}},
            )
        else:
            res.count("agree:" + sq)
            if not sampled and nontrivial:
                sampled = True
                res.sample({"problem": rec, "plan": plan_json, "times": [str(t) for t in times], "sequential": sq, "time_triggered": tt, "reference": label})


def thresholds(m):
    c = m["counters"]
    out = []
    nb = c.get("class:bounds:last-step", 0) + c.get("class:bounds:inner-step", 0)
    if nb < 2:
        out.append(f"fewer than 2 plans drive a bounded fluent out of bounds ({nb})")
    for k, n in (("broken-indirectly", 10), ("broken-indirectly:outer-written", 3), ("broken-indirectly:inner-written", 3)):
        if c.get("class:invariant:" + k, 0) < n:
            out.append(f"fewer than {n} plans break an invariant at the last step in class '{k}' ({c.get('class:invariant:' + k, 0)})")
    if c.get("class:invariant:last-step", 0) < 2:
        out.append(f"fewer than 2 plans violate an invariant at the last step ({c.get('class:invariant:last-step', 0)})")
    if c.get("label:ref-valid", 0) < 20:
        out.append("fewer than 20 reference-valid plans")
    if len(m["nontrivial"]) < 20:
        out.append("fewer than 20 distinct non-trivial plans")
    if c.get("tier:thorough") and c.get("examples_plans_judged", 0) < 20:
        out.append(f"fewer than 20 example-corpus plans judged ({c.get('examples_plans_judged', 0)})")
    return out

"""C04 - time-triggered and sequential validation agree on instantaneous plans.

Differential monitor: for generated instantaneous problems (C01 grammar) and plans up to a length bound, the statuses of
SequentialPlanValidator.validate(P, pi) and TimeTriggeredPlanValidator.validate(P, tau(pi)) (tau = strictly increasing
rational start times; plus the same timed plan listed in shuffled order) must be equal.  vk.ref.seqsem is used only to build
the workload (plans that end in bounds / invariant / conflict situations), to enforce the statement's precondition on the
initial state, and to label which side is wrong."""
from fractions import Fraction

from vk import env as _env  # noqa: F401
from vk.core import rng_for, simple_plan, h
from vk.gen.temporal import gen_problem_fixed as gen_problem
from vk.recipe import instantiate_problem
from vk.ref import seqsem
from vk.ref.evalx import Unsupported
from vk.ref.seqsem import OKAY, INAPP
from vk.checks.c05 import lib_site

PROPERTY = "C04"
LEVEL = "exploration"
TECHNIQUE = "runtime monitoring: differential monitor between SequentialPlanValidator and TimeTriggeredPlanValidator on the same instantaneous plans"
LEVEL_TEXT = (
    "Every pair of verdicts of the two real validators observed on generated instantaneous problems and plans (each plan "
    "time-stamped with strictly increasing rational start times, also listed in shuffled order) is compared; held on the "
    "executions observed, no claim beyond the generated grammar and length bound."
)
LEVEL_NOTE = (
    "Trusted: CPython, fractions, read-only accessors, public constructors used by vk.recipe. The reference semantics "
    "vk/ref/seqsem.py only shapes the workload, enforces the statement's precondition (initial state within bounds and "
    "invariants) and labels the witness; it never decides a verdict."
)
RULE = (
    "cases = generated problem recipes (C01 grammar incl. bounded numeric fluents, invariants, conditional/forall effects; goals "
    "dropped for half of the problems so that they do not mask the last step); per problem up to PLANS plans of length <= L taken "
    "from a reference-guided DFS: every reference-valid prefix and every one-step extension that the reference calls "
    "inapplicable / don't-care. evaluations = plans whose three verdicts (sequential, time-triggered, time-triggered shuffled) "
    "were compared. distinct_nontrivial = distinct (problem, plan) that the reference calls invalid for a reason other than a false "
    "precondition or an unsatisfied goal (bounds, invariant, conflict, undefined) or valid with >= 2 steps."
)
ASSUMPTIONS = [
    "the statement's precondition (initial state satisfies bounds and invariants) is established with vk/ref/seqsem.py",
    "start times are strictly increasing rationals; the shuffled variant lists the same (time, instance) pairs in another order",
]
SHARD_TIMEOUT = {"quick": 600, "thorough": 5400}
BOUNDS = {"quick": dict(n=700, L=3, plans=10, max_inst=14), "thorough": dict(n=12000, L=4, plans=24, max_inst=20)}
PROFILE = dict(invariants=0.4, undefined_init=0.08, interpreted_functions=0.0, max_depth=1)


def plan(tier, seed):
    b = BOUNDS[tier]
    return simple_plan(PROPERTY, tier, seed, b["n"], b["n"])


def run_shard(spec, res):
    b = BOUNDS[spec["tier"]]
    for key in spec["cases"]:
        try:
            run_case(key, spec["tier"], b, res)
        except Unsupported:
            res.count("skipped_unsupported_by_oracle")


def replay(witness, res):
    tier = witness.get("tier", "quick")
    run_case(witness["case_key"], tier, BOUNDS[tier], res)


def candidate_plans(pb, rng, b):
    """Reference-guided DFS. Yields (steps, label, nontrivial) with label = ('valid'|'goal'|reason...)."""
    insts = seqsem.all_instances(pb)
    if len(insts) > b["max_inst"]:
        insts = rng.sample(insts, b["max_inst"])
    s0 = seqsem.initial_state(pb)
    out = {"hot": [], "valid": [], "cold": []}
    stack = [([], s0, set())]
    nodes = 0
    while stack and nodes < 400:
        path, s, feats = stack.pop()
        nodes += 1
        gs = seqsem.goal_status(pb, s)
        if gs is True:
            out["valid"].append((path, "ref-valid" + (":same-value-twice" if "same-value-twice" in feats else ""), len(path) >= 2))
        elif gs is False:
            out["cold"].append((path, "ref-goal-unsatisfied", False))
        else:
            out["cold"].append((path, "ref-dontcare:goal reads an undefined fluent but is true under every completion", False))
        if len(path) >= b["L"]:
            continue
        order = list(insts)
        rng.shuffle(order)
        for a, args in order:
            r = seqsem.succ(pb, s, a, args)
            step = (a, args)
            if r.status == OKAY:
                if r.info.get("changed") or rng.random() < 0.3:
                    stack.append((path + [step], r.state, feats | r.info.get("features", set())))
            elif r.status == INAPP:
                if r.reason == "precondition-false":
                    out["cold"].append((path + [step], "ref-precondition-false", False))
                else:
                    out["hot"].append((path + [step], "ref-" + r.reason + ":last-step", True))
                    # ... and followed by one more step (the violation is then not at the last happening)
                    if len(path) + 1 < b["L"] and rng.random() < 0.5:
                        a2, args2 = rng.choice(insts)
                        out["hot"].append((path + [step, (a2, args2)], "ref-" + r.reason + ":inner-step", True))
            else:
                out["cold"].append((path + [step], "ref-dontcare:" + str(r.reason), False))
    return out


def timestamps(rng, n):
    t = Fraction(rng.choice([0, 0, 1, 1, 2, 5]), rng.choice([1, 2, 3]))
    out = []
    for _ in range(n):
        out.append(t)
        t = t + Fraction(rng.choice([1, 1, 1, 2, 3, 7]), rng.choice([1, 2, 3, 5, 100]))
    return out


def run_case(key, tier, b, res):
    from unified_planning.engines.plan_validator import SequentialPlanValidator, TimeTriggeredPlanValidator
    from unified_planning.exceptions import UPException
    from unified_planning.plans import ActionInstance, TimeTriggeredPlan

    rng = rng_for(key)
    rec, feats = gen_problem(rng, PROFILE)
    if rng.random() < 0.5:
        rec["goals"] = []
    e = _env.fresh_env()
    try:
        pb, ctx = instantiate_problem(rec, e)
    except UPException:
        res.count("rejected_at_build")
        return
    if not (SequentialPlanValidator.supports(pb.kind) and TimeTriggeredPlanValidator.supports(pb.kind)):
        res.count("rejected_unsupported_kind")
        return
    # precondition of the statement, established with the reference
    gfl = seqsem.ground_fluents(pb)
    s0 = seqsem.initial_state(pb)
    bok, _ = seqsem.bounds_ok(pb, s0)
    inv = seqsem.invariants_status(pb, s0)
    undefined_bounded = any(
        (f.type.is_int_type() or f.type.is_real_type()) and (f.type.lower_bound is not None or f.type.upper_bound is not None) and (f.name, args) not in s0
        for f, args in gfl
    )
    if not bok or inv is not True or undefined_bounded:
        res.count("skipped_initial_state_precondition")
        return
    res.count("problems")
    pid = h(rec)
    cands = candidate_plans(pb, rng, b)
    chosen = []
    nh = (b["plans"] * 5) // 10
    rng.shuffle(cands["hot"])
    rng.shuffle(cands["valid"])
    rng.shuffle(cands["cold"])
    cands["valid"].sort(key=lambda c: -len(c[0]))
    chosen += cands["hot"][:nh]
    chosen += cands["valid"][: (b["plans"] * 3) // 10]
    chosen += cands["cold"][: max(1, b["plans"] - len(chosen))]
    sampled = False
    for steps, label, nontrivial in chosen:
        times = timestamps(rng, len(steps))
        ais = [ActionInstance(a, seqsem.param_exprs(pb, a, args)) for a, args in steps]
        from unified_planning.plans import SequentialPlan

        sp = SequentialPlan(ais, e)
        timed = [(t, ai, None) for t, ai in zip(times, ais)]
        ttp = TimeTriggeredPlan(list(timed), e)
        shuf = list(timed)
        rng.shuffle(shuf)
        ttp2 = TimeTriggeredPlan(shuf, e)
        plan_json = [[a.name, list(args)] for a, args in steps]
        w = {"case_key": key, "tier": tier, "recipe": rec, "plan": plan_json, "times": [str(t) for t in times], "reference_label": label}

        def call(v, p):
            try:
                return v(environment=e).validate(pb, p).status.name
            except _env.INTERNAL_EXC as ex:
                return ("raises", ex)
            except UPException as ex:
                return ("rejected", ex)

        sq = call(SequentialPlanValidator, sp)
        tt = call(TimeTriggeredPlanValidator, ttp)
        tt2 = call(TimeTriggeredPlanValidator, ttp2)
        res.mon()
        bad = False
        for side, r in (("sequential", sq), ("time-triggered", tt), ("time-triggered", tt2)):
            if isinstance(r, tuple) and r[0] == "raises":
                res.violation(f"raises:{side}:{type(r[1]).__name__}@{lib_site(r[1])}", f"{side} validator raised {r[1]!r} on plan {plan_json} (reference: {label})", w)
                bad = True
        if bad:
            res.case()
            continue
        if any(isinstance(r, tuple) for r in (sq, tt, tt2)):
            res.count("rejected_by_validator")
            continue
        if label.startswith("ref-dontcare:") and "same value assigned twice through different value expressions" in label:
            # DESIGN 11.2: the model API rejects two unconditional assignments with different value expressions statically; after
            # grounding/simplification the sequential path refuses such an action while the time-triggered path compares the
            # (equal) values dynamically. The statements only fix *different* values: not judged, counted.
            res.count("dontcare:same-value-through-different-expressions")
            if not (sq == tt == tt2):
                res.count("observed:same-value-different-expressions-disagreement")
            continue
        if label.startswith("ref-dontcare:") and "undefined" in label:
            # the docs leave reads of undefined values that do not matter (`true or undef`, `f == f`) to the implementation;
            # the two validators evaluate differently simplified expressions there: not judged (rule 1), only counted
            res.count("dontcare:" + label[13:])
            if not (sq == tt == tt2):
                res.count("observed:undefined-read-disagreement")
            continue
        res.case()
        res.count("label:" + label.split(":")[0] + (":" + label.split(":")[1] if label.startswith("ref-dontcare") else ""))
        if label.startswith(("ref-bounds", "ref-invariant")):
            res.count("class:" + label[4:])
        if nontrivial:
            res.nt((pid, plan_json))
        if tt != tt2:
            res.violation("tt-order-dependence:" + label, f"time-triggered verdict depends on the listing order: {tt} vs {tt2} (shuffled) on {plan_json}", {**w, "observed": {"tt": tt, "tt_shuffled": tt2, "seq": sq}})
        elif sq != tt:
            # one string per root cause: the bounds check is missing wherever the step is; an invariant is only missed when it
            # breaks at the last happening; "Double effect" is raised whatever the expressions that produce the equal values
            mlabel = "same-value-twice" if "same value assigned twice" in label or "same-value-twice" in label else label
            if mlabel.startswith("ref-bounds"):
                mlabel = "ref-bounds"
            res.violation(
                f"tt-{tt}/seq-{sq}:{mlabel}",
                f"time-triggered validation says {tt}, sequential validation says {sq} for plan {plan_json} at times {[str(t) for t in times]} (reference: {label})",
                {**w, "observed": {"tt": tt, "seq": sq}},
            )
        else:
            res.count("agree:" + sq)
            if not sampled and nontrivial:
                sampled = True
                res.sample({"problem": rec, "plan": plan_json, "times": [str(t) for t in times], "sequential": sq, "time_triggered": tt, "reference": label})


def thresholds(m):
    c = m["counters"]
    out = []
    nb = c.get("class:bounds:last-step", 0) + c.get("class:bounds:inner-step", 0)
    if nb < 2:
        out.append(f"fewer than 2 plans drive a bounded fluent out of bounds ({nb})")
    if c.get("class:invariant:last-step", 0) < 2:
        out.append(f"fewer than 2 plans violate an invariant at the last step ({c.get('class:invariant:last-step', 0)})")
    if c.get("label:ref-valid", 0) < 20:
        out.append("fewer than 20 reference-valid plans")
    if len(m["nontrivial"]) < 20:
        out.append("fewer than 20 distinct non-trivial plans")
    return out

"""C32 — factory engine selection honours every requested requirement.

Monitor M-factory (vk/mon/c32_factory.py): a pass-through wrapper on `Factory._get_engine` (class level) hands every call
made by the public operation-mode methods to a post-condition + an own scan of the preference list:
  * a returned engine must be of the requested mode, support the problem kind and every requested requirement;
  * a returned pipeline must have, at stage i, a compiler that supports compilation kind i and the kind obtained by folding
    the declared resulting kinds of the compilers before it;
  * if the own scan finds no qualifying engine in the preference list, `UPNoSuitableEngineAvailableException` must be
    raised; if it finds one, that exception must not be raised;
  * any other (internal-class) exception escaping the public call is a violation.
"""
from vk import env as _env  # noqa: F401
from vk.core import rng_for, simple_plan, h
from vk.mon import c32_factory as M

PROPERTY = "C32"
LEVEL = "exploration"
TECHNIQUE = "runtime monitoring: post-condition monitor on Factory._get_engine with an own scan of the preference list, over randomised fake-engine registries"
LEVEL_TEXT = (
    "Every Factory._get_engine call issued through the public operation-mode methods against fresh factories (built-in "
    "registry + randomised harness engines, shuffled/truncated preference lists) is judged by a post-condition on the "
    "returned engine / pipeline and by an independent scan of the preference list deciding whether the no-suitable-engine "
    "error was due; held on the requests observed only."
)
LEVEL_NOTE = (
    "Trusted: CPython; for library engines the class's own published answers supports/satisfies/ensures/supports_plan/"
    "supports_compilation/resulting_problem_kind (the property is stated through them); for harness engines the harness "
    "configuration. Requests by engine name and Parallel engines are not judged (no selection takes place)."
)
RULE = (
    "case = one fresh Environment/Factory + 12-16 randomised harness engines (random modes, supported feature sets drawn "
    "around the built-in engines' kinds, guarantees, plan kinds, compilation kinds with random kind transformers) + a default/"
    "shuffled/truncated preference list + 12 requests (every operation mode; problem kinds = random subsets of some registered "
    "engine's supported kind plus 0-1 foreign feature, stated at the latest version or - re-spelt in the older vocabulary - at "
    "version 1, 2 or without a version; optional requirement; pipelines of 2-3 compilation kinds). "
    "evaluations = judged _get_engine calls. distinct_nontrivial = distinct (mode, requirements, kind, preference list, outcome) "
    "requests in which the own scan rejected at least one engine of the requested mode before the chosen one / before the error "
    "(for pipelines: at some stage)."
)
ASSUMPTIONS = [
    "library engine classes answer supports/satisfies/ensures/supports_plan/supports_compilation truthfully about themselves",
    "ProblemKind.<= (with its version upgrade of the older operand) defines 'supports' for harness engines (C33 monitors it independently)",
    "selection by explicit engine name and Parallel engines are out of the statement's scope and are only counted",
]

N_CASES = {"quick": 720, "thorough": 30000}
REQS_PER_CASE = 12


def plan(tier, seed):
    return simple_plan(PROPERTY, tier, seed, N_CASES["quick"], N_CASES["thorough"], shards_quick=8)


def run_shard(spec, res):
    for key in spec["cases"]:
        run_case(key, spec["tier"], res)


def replay(witness, res):
    run_case(witness["case_key"], witness.get("tier", "quick"), res, only_request=witness.get("request_index"))


# ---- generators -----------------------------------------------------------------------------------------
def _universe():
    from unified_planning.model.problem_kind import get_valid_features
    from unified_planning.model.problem_kind_versioning import LATEST_PROBLEM_KIND_VERSION

    return sorted(get_valid_features(LATEST_PROBLEM_KIND_VERSION))


ALL_MODES = [
    "oneshot_planner",
    "anytime_planner",
    "plan_validator",
    "portfolio_selector",
    "compiler",
    "sequential_simulator",
    "replanner",
    "plan_repairer",
    "action_selector",
]
OG = ["SATISFICING", "SOLVED_OPTIMALLY"]
AG = ["INCREASING_QUALITY", "OPTIMAL_PLANS"]
PK = ["SEQUENTIAL_PLAN", "TIME_TRIGGERED_PLAN", "PARTIAL_ORDER_PLAN", "STN_PLAN"]


def gen_registry(rng, builtin_kinds, universe, cks_all):
    """-> list of (factory name, class name, cfg)"""
    out = []
    n = rng.randint(12, 16)
    # make sure every mode has at least one fake
    modes_cycle = list(ALL_MODES)
    rng.shuffle(modes_cycle)
    for i in range(n):
        if i < len(modes_cycle):
            modes = [modes_cycle[i]]
        else:
            modes = [rng.choice(ALL_MODES)]
        if rng.random() < 0.5:
            extra = rng.choice(ALL_MODES)
            if extra not in modes:
                modes.append(extra)
        base = list(rng.choice(builtin_kinds))
        feats = set(f for f in base if rng.random() < rng.choice([0.5, 0.8, 0.95]))
        feats.add("ACTION_BASED")
        if rng.random() < 0.7:
            feats.add("NEGATIVE_CONDITIONS")
        for _ in range(rng.choice([0, 0, 1, 3])):
            feats.add(rng.choice(universe))
        cfg = {
            "modes": modes,
            "features": sorted(feats),
            "og": [g for g in OG if rng.random() < 0.5],
            "ag": [g for g in AG if rng.random() < 0.5],
            "plans": [p for p in PK if rng.random() < 0.45],
            "ck": {},
        }
        if "compiler" in modes:
            for ck in rng.sample(cks_all, rng.choice([1, 1, 2, 3])):
                add = [rng.choice(universe) for _ in range(rng.choice([0, 0, 1, 2]))]
                rem = [rng.choice(sorted(feats)) for _ in range(rng.choice([0, 1, 1, 2]))]
                cfg["ck"][ck] = [sorted(set(add)), sorted(set(rem) - set(add))]
        out.append((f"vkfake{i}", f"VkFake{i}", cfg))
    return out


def gen_kind(rng, kinds_pool, universe):
    base = sorted(rng.choice(kinds_pool))
    k = rng.choice([0, 1, 2, 3, 4, 6, 9])
    feats = set(rng.sample(base, min(k, len(base)))) if base else set()
    x = rng.random()
    if x < 0.3:
        feats.add(rng.choice(universe))
    elif x < 0.36:
        feats.update(rng.sample(universe, 2))
    return sorted(feats)


# how a latest-version feature was spelt in version 1 (inverse of the documented upgrade rules) and the version-1 era
# features whose upgrade derives new ones
V1_SPELLING = {
    "INT_FLUENTS": ["NUMERIC_FLUENTS", "DISCRETE_NUMBERS"],
    "REAL_FLUENTS": ["NUMERIC_FLUENTS", "CONTINUOUS_NUMBERS"],
    "INT_NUMBERS_IN_ACTIONS_COST": ["ACTIONS_COST"],
    "REAL_NUMBERS_IN_ACTIONS_COST": ["ACTIONS_COST"],
    "INT_NUMBERS_IN_OVERSUBSCRIPTION": ["OVERSUBSCRIPTION"],
    "REAL_NUMBERS_IN_OVERSUBSCRIPTION": ["OVERSUBSCRIPTION"],
    "INT_TYPE_DURATIONS": ["DISCRETE_TIME"],
    "REAL_TYPE_DURATIONS": ["CONTINUOUS_TIME"],
}
V1_ERA = ["NUMERIC_FLUENTS", "DISCRETE_NUMBERS", "CONTINUOUS_NUMBERS", "ACTIONS_COST", "OVERSUBSCRIPTION", "CONTINUOUS_TIME", "DISCRETE_TIME"]


def _added_in(f):
    from unified_planning.model.problem_kind_versioning import FEATURES_VERSIONS

    return FEATURES_VERSIONS.get(f, (1, None))[0]


def gen_versioned_kind(rng, kinds_pool, universe):
    """-> (features, declared version): latest version, or the kind stated in version 1 / 2 / without a version (then the
    features are re-spelt in the older vocabulary where one exists, plus 0-3 version-1 era features)."""
    from unified_planning.model.problem_kind_versioning import LATEST_PROBLEM_KIND_VERSION as LATEST

    feats = gen_kind(rng, kinds_pool, universe)
    x = rng.random()
    if x < 0.55:
        return feats, LATEST
    ver = rng.choice([1, 1, 2, None, None])
    if ver is None and rng.random() < 0.3:
        return feats, None  # version inferred from latest-era features
    out = set()
    respell = ver != 2 or rng.random() < 0.3
    for f in feats:
        if f in V1_SPELLING and (respell or _added_in(f) > (ver or 1)):
            out.update(V1_SPELLING[f])
        else:
            out.add(f)
    for _ in range(rng.choice([0, 0, 1, 2, 3])):
        out.add(rng.choice(V1_ERA))
    if rng.random() < 0.3:
        out = {f for f in out if f in V1_ERA or f in ("ACTION_BASED", "FLAT_TYPING", "NEGATIVE_CONDITIONS")} or {"ACTION_BASED"}
    lim = ver if ver is not None else (1 if rng.random() < 0.7 else LATEST)
    out = {f for f in out if _added_in(f) <= lim}
    return sorted(out), ver


def gen_request(rng, kinds_pool, universe, cks_all, cks_registered):
    mode = rng.choice(ALL_MODES + ["anytime_planner", "anytime_planner", "plan_repairer", "compiler", "pipeline", "pipeline", "pipeline"])
    feats, ver = gen_versioned_kind(rng, kinds_pool, universe)
    req = {"mode": mode, "kind": feats, "version": ver}
    opt = rng.random() < 0.7
    if mode in ("oneshot_planner", "replanner", "portfolio_selector"):
        req["og"] = rng.choice(OG) if opt else None
    elif mode == "plan_validator":
        req["pk"] = rng.choice(PK) if opt else None
    elif mode == "anytime_planner":
        req["ag"] = rng.choice(AG) if opt else None
    elif mode == "plan_repairer":
        req["pk"] = rng.choice(PK) if rng.random() < 0.6 else None
        req["og"] = rng.choice(OG) if rng.random() < 0.6 else None
    elif mode == "compiler":
        req["ck"] = rng.choice(cks_registered if rng.random() < 0.85 else cks_all) if rng.random() < 0.85 else None
    elif mode == "pipeline":
        n = rng.choice([1, 2, 2, 3, 3])
        req["cks"] = [rng.choice(cks_registered if rng.random() < 0.9 else cks_all) for _ in range(n)]
    req["as_string"] = rng.random() < 0.15
    return req


# ---- one case ----------------------------------------------------------------------------------------------
class _Judge:
    def __init__(self):
        self.events = []

    def __call__(self, factory, args, result, exc):
        self.events.append((factory, args, result, exc))


def _kind_stub_problem(env, kind):
    from unified_planning.model import Problem

    class KindStub(Problem):
        @property
        def kind(self):
            return kind

    return KindStub("stub", env)


def run_case(key, tier, res, only_request=None):
    from unified_planning.model import ProblemKind
    from unified_planning.model.problem_kind_versioning import LATEST_PROBLEM_KIND_VERSION
    from unified_planning.engines.mixins.compiler import CompilationKind
    from unified_planning.engines.mixins.oneshot_planner import OptimalityGuarantee
    from unified_planning.engines.mixins.anytime_planner import AnytimeGuarantee
    from unified_planning.plans import PlanKind
    from unified_planning.exceptions import UPNoSuitableEngineAvailableException, UPUsageError

    rng = rng_for(key)
    env = _env.fresh_env()
    fac = env.factory
    universe = _universe()
    cks_all = [c.name for c in CompilationKind]
    builtin = {n: fac.engine(n) for n in fac.engines}
    builtin_kinds = []
    for n in sorted(builtin):
        try:
            builtin_kinds.append(sorted(builtin[n].supported_kind().features & set(universe)))
        except Exception:
            pass
    registry = gen_registry(rng, builtin_kinds, universe, cks_all)
    for name, clsname, cfg in registry:
        M.make_fake(clsname, cfg)
        fac.add_engine(name, M.__name__, clsname)  # public API; also derives meta-engine variants
    # preference list
    pref = list(fac.preference_list)
    x = rng.random()
    if x < 0.3:
        pmode = "default"
    elif x < 0.65:
        rng.shuffle(pref)
        pmode = "shuffled"
    else:
        rng.shuffle(pref)
        pref = pref[: rng.randint(0, len(pref))]
        pmode = "truncated"
    if pmode != "default":
        fac.preference_list = pref
    res.count("preference_list:" + pmode)
    engines = {n: fac.engine(n) for n in fac.engines}
    kinds_pool = builtin_kinds + [cfg["features"] for _, _, cfg in registry]
    cks_registered = sorted(
        {c.name for c in CompilationKind for n in pref if engines[n].is_compiler() and _safe(engines[n].supports_compilation, c)}
    ) or cks_all

    judge = _Judge()
    uninstall = M.install(judge)
    try:
        for ri in range(REQS_PER_CASE):
            req = gen_request(rng, kinds_pool, universe, cks_all, cks_registered)
            if only_request is not None and ri != only_request:
                continue
            kind = ProblemKind(req["kind"], version=req["version"])  # handed to the factory (comparisons may mutate it)
            pristine = ProblemKind(req["kind"], version=req["version"])  # the request as stated: what the monitor judges
            vtag = "none" if req["version"] is None else str(req["version"])
            if sorted(M.at_latest(pristine).features) != sorted(pristine.features):
                vtag += ":changed-by-upgrade"
            s = (lambda e: e.name if req["as_string"] and e is not None else e)
            og = OptimalityGuarantee[req["og"]] if req.get("og") else None
            ag = AnytimeGuarantee[req["ag"]] if req.get("ag") else None
            pk = PlanKind[req["pk"]] if req.get("pk") else None
            ck = CompilationKind[req["ck"]] if req.get("ck") else None
            cks = [CompilationKind[c] for c in req.get("cks", [])]
            mode = req["mode"]
            judge.events.clear()
            out = exc = None
            try:
                if mode == "oneshot_planner":
                    out = fac.OneshotPlanner(problem_kind=kind, optimality_guarantee=s(og))
                elif mode == "anytime_planner":
                    out = fac.AnytimePlanner(problem_kind=kind, anytime_guarantee=s(ag))
                elif mode == "plan_validator":
                    out = fac.PlanValidator(problem_kind=kind, plan_kind=s(pk))
                elif mode == "portfolio_selector":
                    out = fac.PortfolioSelector(problem_kind=kind, optimality_guarantee=s(og))
                elif mode == "compiler":
                    out = fac.Compiler(problem_kind=kind, compilation_kind=s(ck))
                elif mode == "pipeline":
                    out = fac.Compiler(problem_kind=kind, compilation_kinds=[s(c) for c in cks])
                elif mode == "sequential_simulator":
                    out = fac.SequentialSimulator(_kind_stub_problem(env, kind))
                elif mode == "action_selector":
                    out = fac.ActionSelector(_kind_stub_problem(env, kind))
                elif mode == "replanner":
                    out = fac.Replanner(_kind_stub_problem(env, kind), optimality_guarantee=s(og))
                elif mode == "plan_repairer":
                    out = fac.PlanRepairer(problem_kind=kind, plan_kind=s(pk), optimality_guarantee=s(og))
            except Exception as e:  # judged below
                exc = e
            res.case()
            w = {"case_key": key, "tier": tier, "request_index": ri, "request": req, "preference_list_mode": pmode,
                 "preference_list": pref, "fakes": {n: cfg for n, _, cfg in registry}}
            if len(judge.events) != 1:
                res.violation("monitor-not-reached", f"public call produced {len(judge.events)} _get_engine events", w)
                continue
            _, args, mres, mexc = judge.events[0]
            if mres is not out or (mexc is not exc and mexc is not None):
                res.count("public_wrapper_changed_outcome")
            res.mon()
            res.count(f"kind_version:{vtag}:{_outcome(mexc)}")
            if mode == "pipeline":
                judge_pipeline(res, w, engines, args, pristine, cks, mres, mexc)
            else:
                judge_single(res, w, engines, args, mode, pristine, og, ck, pk, ag, mres, mexc)
    finally:
        uninstall()


def _safe(f, *a):
    try:
        return bool(f(*a))
    except Exception:
        return False


def _outcome(exc):
    from unified_planning.exceptions import UPNoSuitableEngineAvailableException

    if exc is None:
        return "returned"
    if type(exc) is UPNoSuitableEngineAvailableException:
        return "no-suitable"
    return "raised:" + type(exc).__name__


def judge_single(res, w, engines, args, mode, kind, og, ck, pk, ag, out, exc):
    from unified_planning.exceptions import UPUsageError

    pref = args["_pref"]
    ok, rejected = M.scan(engines, pref, mode, kind, og, ck, pk, ag)
    oc = _outcome(exc)
    res.count(f"mode:{mode}:{oc}")
    reqs = {"og": og and og.name, "ck": ck and ck.name, "pk": pk and pk.name, "ag": ag and ag.name}
    for r, v in reqs.items():
        if v is not None:
            res.count(f"requirement:{r}:{oc}")
    w = dict(w, qualifying_in_preference_order=ok[:5], rejected_right_mode=rejected[:8], outcome=oc)
    if exc is not None and oc != "no-suitable":
        if isinstance(exc, UPUsageError) and mode == "replanner" and "quality metrics" in str(exc):
            # Factory._get_engine refuses Replanner(optimality_guarantee=SOLVED_OPTIMALLY) on a documented UPUsageError
            # path after the selection; the statement says nothing about it -> don't-care (counted)
            res.count("dontcare:replanner-usage-error")
            return
        if isinstance(exc, _env.INTERNAL_EXC) or not isinstance(exc, UPUsageError):
            res.violation(
                f"factory-raises:{type(exc).__name__}@{M.innermost_site(exc)}",
                f"{mode} request raised {exc!r} instead of returning an engine or the no-suitable-engine error",
                w,
            )
            return
        res.count("rejected:" + type(exc).__name__)
        return
    if oc == "no-suitable":
        if ok:
            res.violation(
                f"no-suitable-engine-although-one-qualifies:{mode}",
                f"UPNoSuitableEngineAvailableException raised but {ok[0]} (and {len(ok) - 1} more) in the preference list qualifies",
                w,
            )
            return
        if rejected:
            res.nt(("single", mode, reqs, sorted(kind.features), w["request"]["version"], h(pref), oc))
        return
    # returned
    cls = type(out)
    q, why = M.qualifies(cls, mode, kind, og, ck, pk, ag)
    name = next((n for n in pref if engines[n] is cls), None) or next((n for n, c in engines.items() if c is cls), None)
    w["returned"] = name or cls.__name__
    if not q:
        res.violation(
            f"returned-engine-fails:{why}:{mode}",
            f"{mode} request returned {w['returned']} which does not honour the requested {why}",
            w,
        )
        return
    if not ok:
        res.violation(f"returned-engine-outside-preference-list:{mode}", f"returned {w['returned']} although no engine of the preference list qualifies", w)
        return
    if name != ok[0]:
        res.count("observation:chosen-not-first-qualifying")
    before = [r for r in rejected if pref.index(r[0]) < (pref.index(name) if name in pref else len(pref))]
    for _, why2 in before:
        res.count("rejected-before-chosen:" + why2)
    if before:
        res.nt(("single", mode, reqs, sorted(kind.features), w["request"]["version"], h(pref), oc))
    if res.evaluations % 97 == 0:
        res.sample({"request": w["request"], "returned": w["returned"], "rejected_before": before[:4], "verdict": "honours every requirement"})


def judge_pipeline(res, w, engines, args, kind, cks, out, exc):
    from unified_planning.exceptions import UPUsageError
    from unified_planning.engines.compilers.compilers_pipeline import CompilersPipeline

    pref = args["_pref"]
    oc = _outcome(exc)
    res.count(f"mode:pipeline:{oc}")
    res.count(f"pipeline_len:{len(cks)}")
    # own exploration of every choice sequence: does some qualifying choice path dead-end? does one complete?
    frontier = {(tuple(sorted(kind.features)), kind.version): kind}
    dead_end_stage = None
    any_rejected = False
    rpk_raises = []
    complete = True
    for i, ck in enumerate(cks):
        nxt = {}
        for k in frontier.values():
            ok, rejected = M.scan(engines, pref, "compiler", k, ck=ck)
            any_rejected = any_rejected or bool(rejected)
            if not ok and dead_end_stage is None:
                dead_end_stage = i
            for n in ok:
                try:
                    rk = M.resulting_kind(engines[n], k, ck)
                except Exception as e:
                    rpk_raises.append((n, type(e).__name__))
                    continue
                nxt[(tuple(sorted(rk.features)), rk.version)] = rk
        frontier = nxt
        if not frontier:
            complete = False
            break
    w = dict(w, outcome=oc, own_scan={"dead_end_stage": dead_end_stage, "some_path_completes": complete, "resulting_kind_raises": rpk_raises[:4]})
    if exc is not None and oc != "no-suitable":
        if (
            isinstance(exc, AssertionError)
            and w["request"]["version"] in (1, 2)
            and M.innermost_site(exc).endswith("_set")
            and "declared version" in str(exc)
        ):
            # a library compiler's resulting_problem_kind() sets a newer feature on a clone of a kind whose DECLARED version
            # is older (e.g. DurativeActionToProcesses -> PROCESSES on a version-1/2 kind): the compiler cannot state its
            # output kind at all. That is the compiler's declaration contract, not the selection -> counted, not judged here.
            res.count("dontcare:pipeline-older-declared-version:resulting-kind-raises")
            return
        if isinstance(exc, _env.INTERNAL_EXC) or not isinstance(exc, UPUsageError):
            res.violation(
                f"factory-raises:{type(exc).__name__}@{M.innermost_site(exc)}",
                f"pipeline request {[c.name for c in cks]} raised {exc!r} instead of returning a pipeline or the no-suitable-engine error",
                w,
            )
            return
        res.count("rejected:" + type(exc).__name__)
        return
    if oc == "no-suitable":
        if dead_end_stage is None and not rpk_raises:
            res.violation(
                "no-suitable-engine-although-one-qualifies:pipeline",
                "UPNoSuitableEngineAvailableException raised but every stage has a qualifying compiler on every choice path",
                w,
            )
            return
        if any_rejected:
            res.nt(("pipeline", [c.name for c in cks], sorted(kind.features), w["request"]["version"], h(pref), oc))
        return
    if not isinstance(out, CompilersPipeline) or len(out._compilers) != len(cks):
        res.violation("pipeline-shape", f"expected a CompilersPipeline of {len(cks)} compilers, got {out!r}", w)
        return
    k = kind
    names = []
    for i, (c, ck) in enumerate(zip(out._compilers, cks)):
        cls = type(c)
        name = next((n for n in pref if engines[n] is cls), None) or cls.__name__
        names.append(name)
        q, why = M.qualifies(cls, "compiler", k, ck=ck)
        if not q:
            w["returned"] = names
            res.violation(
                f"pipeline-stage-fails:{why}",
                f"stage {i} ({name}) of the returned pipeline does not honour {why} (kind folded over the compilers before it: {sorted(k.features)})",
                w,
            )
            return
        if name not in pref:
            res.violation("returned-engine-outside-preference-list:pipeline", f"stage {i} compiler {name} is not in the preference list", w)
            return
        try:
            k = M.resulting_kind(cls, k, ck)
        except Exception as e:
            res.violation(f"pipeline-declared-kind-raises:{type(e).__name__}@{M.innermost_site(e)}", f"stage {i} ({name}) cannot declare its resulting kind: {e!r}", w)
            return
    res.count("pipeline_stages_checked", len(cks))
    if any_rejected:
        res.nt(("pipeline", [c.name for c in cks], sorted(kind.features), w["request"]["version"], h(pref), oc))
    if len(cks) >= 2 and res.evaluations % 53 == 0:
        res.sample({"request": w["request"], "returned_pipeline": names, "verdict": "every stage supports the folded kind"})


REQUIRED_MODES = [
    "oneshot_planner",
    "anytime_planner",
    "plan_validator",
    "portfolio_selector",
    "compiler",
    "sequential_simulator",
    "replanner",
    "plan_repairer",
    "action_selector",
    "pipeline",
]


def thresholds(m):
    c = m["counters"]
    out = []
    for md in REQUIRED_MODES:
        for oc in ("returned", "no-suitable"):
            if c.get(f"mode:{md}:{oc}", 0) < 15:
                out.append(f"fewer than 15 requests with mode={md} outcome={oc} ({c.get(f'mode:{md}:{oc}', 0)})")
    for r in ("og", "ck", "pk", "ag"):
        for oc in ("returned", "no-suitable"):
            if c.get(f"requirement:{r}:{oc}", 0) < 15:
                out.append(f"fewer than 15 requests with requirement {r} and outcome {oc}")
    for why in ("problem_kind", "optimality_guarantee", "plan_kind", "compilation_kind", "anytime_guarantee"):
        if c.get("rejected-before-chosen:" + why, 0) < 10:
            out.append(f"fewer than 10 selections where an earlier engine was rejected for {why}")
    if c.get("pipeline_len:2", 0) + c.get("pipeline_len:3", 0) < 50:
        out.append("fewer than 50 pipeline requests of length >= 2")
    if c.get("pipeline_stages_checked", 0) < 50:
        out.append("fewer than 50 pipeline stages checked")
    for vt in ("1", "2", "3", "none", "1:changed-by-upgrade", "none:changed-by-upgrade"):
        for oc in ("returned", "no-suitable"):
            if c.get(f"kind_version:{vt}:{oc}", 0) < 15:
                out.append(f"fewer than 15 requests with a kind of version {vt} and outcome {oc} ({c.get(f'kind_version:{vt}:{oc}', 0)})")
    if len(m["nontrivial"]) < 300:
        out.append(f"fewer than 300 distinct non-trivial requests ({len(m['nontrivial'])})")
    return out

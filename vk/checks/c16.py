"""C16 — expressions are hash-consed, immutable, and constructors normalise exactly as documented."""
from fractions import Fraction

from vk import env as _env  # noqa: F401
from vk.core import rng_for, simple_plan
from vk.gen.expr import ExprWorld, instantiate_world
from vk.ref.evalx import Unsupported

PROPERTY = "C16"
LEVEL = "exploration"
TECHNIQUE = "runtime monitoring: class-level wrapper on ExpressionManager.create_node with a shadow hash-cons map, immutability snapshots and constructor post-conditions over random construction histories"
LEVEL_TEXT = (
    "Every ExpressionManager.create_node call made while random construction histories (with ~30% repeated constructions) are replayed in one environment "
    "is observed by a pass-through wrapper: same (operator, children identities, payload) => the identical node; new key => a node with a never-seen id; "
    "(operator, children, payload) snapshots taken at creation are re-read at checkpoints; constructor post-conditions (And/Or/Plus/Times with 0/1 "
    "arguments, double negation, GE/GT mirrored, canonical Int/Real for int/float/Fraction/str literals, n-ary constructors keep their arguments in order) "
    "are asserted on every call; a second environment is driven side by side to confirm ids and nodes are per-environment."
)
LEVEL_NOTE = "Trusted: Python object identity, equality/hash of payload objects (Fluent, Object, Variable, Parameter), read-only FNode accessors."
RULE = (
    "cases = construction histories of 150-600 constructor calls (expression recipes instantiated through the public constructors, 30% repeats) in one "
    "environment; evaluations = create_node events observed + constructor post-conditions judged; distinct_nontrivial = distinct node keys constructed >= 2 times."
)
ASSUMPTIONS = ["the wrapper is pass-through (arguments, results and exceptions unchanged)"]
BOUNDS = {"quick": dict(n=160, exprs=60), "thorough": dict(n=4000, exprs=150)}


def plan(tier, seed):
    b = BOUNDS[tier]
    return simple_plan(PROPERTY, tier, seed, b["n"], b["n"])


def run_shard(spec, res):
    if spec["tier"] == "thorough" and spec["shard"] == 1:
        # the repository's own test-suite re-run with the universal monitor installed (DESIGN §4): every internal call is judged
        from vk.mon import suite as _suite

        _suite.feed(res, PROPERTY, _suite.run_suite(("node",)), "M-node:events")
    for key in spec["cases"]:
        try:
            run_case(key, spec["tier"], res)
        except Unsupported:
            res.count("skipped_unsupported_by_oracle")


def replay(witness, res):
    if witness.get("suite"):
        from vk.mon import suite as _suite

        _suite.replay_suite(res, PROPERTY, ("node",), "M-node:events", witness)
        return
    run_case(witness["case_key"], witness.get("tier", "quick"), res)


def payload_key(p):
    if isinstance(p, bool):
        return ("bool", p)
    if isinstance(p, int):
        return ("int", p)
    if isinstance(p, Fraction):
        return ("frac", p.numerator, p.denominator)
    if isinstance(p, tuple):
        return ("tuple",) + tuple(payload_key(x) for x in p)
    return ("obj", p)  # Fluent / Object / Parameter / Variable / Timing / str ...: library equality


def read_node(n):
    """(operator, children identities, payload via public accessors)"""
    from unified_planning.model.operators import OperatorKind as OK

    nt = n.node_type
    if nt in (OK.BOOL_CONSTANT, OK.INT_CONSTANT, OK.REAL_CONSTANT):
        pl = payload_key(n.constant_value())
    elif nt == OK.FLUENT_EXP:
        pl = ("obj", n.fluent())
    elif nt == OK.PARAM_EXP:
        pl = ("obj", n.parameter())
    elif nt == OK.VARIABLE_EXP:
        pl = ("obj", n.variable())
    elif nt == OK.OBJECT_EXP:
        pl = ("obj", n.object())
    elif nt == OK.INTERPRETED_FUNCTION_EXP:
        pl = ("obj", n.interpreted_function())
    elif nt in (OK.EXISTS, OK.FORALL):
        pl = ("tuple",) + tuple(("obj", v) for v in n.variables())
    elif nt == OK.DOT:
        pl = ("obj", n.agent())
    elif nt == OK.TIMING_EXP:
        pl = ("obj", n.timing())
    else:
        pl = None
    return (nt, tuple(id(a) for a in n.args), pl)


class Monitor:
    """Installed on the ExpressionManager *class*; active only for the environments registered in self.envs."""

    def __init__(self, res, viol):
        self.res, self.viol = res, viol
        self.shadow = {}  # env id -> {key: node}
        self.snap = {}  # id(node) -> (node, read_node at creation)
        self.ids = {}  # env id -> set of node ids
        self.repeats = set()
        self.events = 0
        self.outcome = {}  # key -> "node" | exception class name

    def install(self):
        from unified_planning.model.expression import ExpressionManager

        self.cls = ExpressionManager
        self.orig = ExpressionManager.create_node
        mon = self

        def create_node(em, node_type, args, payload=None):
            try:
                n = mon.orig(em, node_type, args, payload)
            except BaseException as ex:
                mon.observe(em, node_type, args, payload, None, ex)
                raise
            mon.observe(em, node_type, args, payload, n, None)
            return n

        ExpressionManager.create_node = create_node

    def uninstall(self):
        self.cls.create_node = self.orig

    def observe(self, em, node_type, args, payload, n, ex):
        eid = id(em)
        if eid not in self.shadow:
            return
        self.events += 1
        self.res.mon()
        key = (node_type, tuple(id(a) for a in args), payload_key(payload) if payload is not None else None)
        out = "node" if n is not None else type(ex).__name__
        prev = self.outcome.get((eid, key))
        if prev is not None and prev != out:
            self.viol("construction-outcome-changed", f"create_node({node_type.name}, …) gave {prev} before and {out} now", key=str(key))
        self.outcome[(eid, key)] = out
        if n is None:
            return
        sh = self.shadow[eid]
        if key in sh:
            self.repeats.add((eid, key))
            if sh[key] is not n:
                self.viol("same-key-different-node", f"constructing {n} twice gave two different nodes (ids {sh[key].node_id} and {n.node_id})", key=str(key))
        else:
            if n.node_id in self.ids[eid]:
                self.viol("id-reused", f"new node {n} received the already used id {n.node_id}", key=str(key))
            # a *new* key must not return an old node either
            if id(n) in self.snap:
                self.viol("different-key-same-node", f"structurally different construction returned the existing node {n}", key=str(key))
            sh[key] = n
            self.ids[eid].add(n.node_id)
            self.snap[id(n)] = (n, read_node(n))
            if n.environment.expression_manager is not em:
                self.viol("wrong-environment", f"node {n} belongs to another environment")
            got = read_node(n)
            want_pl = payload_key(payload) if payload is not None else None
            if got[0] != node_type or got[1] != key[1] or (want_pl is not None and got[2] != want_pl and not _payload_equiv(got[2], want_pl)):
                self.viol("node-content-differs-from-request", f"create_node({node_type.name}) returned {n} whose content reads {got[0].name}/{got[2]}", key=str(key))
        if self.events % 500 == 0:
            self.checkpoint()

    def checkpoint(self):
        for nid, (n, s) in self.snap.items():
            self.res.mon()
            if read_node(n) != s:
                self.viol("node-mutated", f"node {n} changed after creation: {s} -> {read_node(n)}")
                return


def _payload_equiv(a, b):
    # payloads given as raw python numbers vs. read through constant_value()
    return a[1:] == b[1:]


def post_conditions(em, rng, pool_bool, pool_num, viol, res):
    """Documented constructor normalisations, judged on random arguments."""
    from unified_planning.model.operators import OperatorKind as OK

    def chk(cond, mech, msg):
        res.mon()
        res.count("postconditions")
        if not cond:
            viol(mech, msg)

    x = rng.choice(pool_bool)
    y = rng.choice(pool_bool)
    a = rng.choice(pool_num)
    c = rng.choice(pool_num)
    chk(em.And() is em.TRUE(), "post:And()", "And() is not TRUE")
    chk(em.Or() is em.FALSE(), "post:Or()", "Or() is not FALSE")
    chk(em.And(x) is x and em.And([x]) is x, "post:And(x)", f"And({x}) is not its argument")
    chk(em.Or(x) is x and em.Or([x]) is x, "post:Or(x)", f"Or({x}) is not its argument")
    p0 = em.Plus()
    chk(p0.is_int_constant() and p0.constant_value() == 0, "post:Plus()", f"Plus() = {p0}")
    t1 = em.Times()
    chk(t1.is_int_constant() and t1.constant_value() == 1, "post:Times()", f"Times() = {t1}")
    chk(em.Plus(a) is a and em.Times(a) is a, "post:Plus(x)/Times(x)", f"Plus({a}) / Times({a}) is not its argument")
    nx = em.Not(x)
    chk(em.Not(nx) is (x if not x.is_not() else em.Not(nx)), "post:Not(Not(x))", f"Not(Not({x})) = {em.Not(nx)}")
    if not x.is_not():
        chk(nx.is_not() and nx.arg(0) is x, "post:Not(x)", f"Not({x}) = {nx}")
    # "exactly their documented normalisations": nothing else is folded at construction time - constants, neutral / absorbing
    # elements and repeated operands stay structural (found missing by seeded change C16-5: Not(TRUE) folded to FALSE)
    T, F = em.TRUE(), em.FALSE()
    i0, i1 = em.Int(0), em.Int(1)
    kb = rng.choice([T, F])
    pyb = kb is T
    structural = [
        ("Not(const)", em.Not(kb), OK.NOT, (kb,)),
        ("Not(python-bool)", em.Not(pyb), OK.NOT, (kb,)),
        ("~const", ~kb, OK.NOT, (kb,)),
        ("And(x,const)", em.And(x, kb), OK.AND, (x, kb)),
        ("Or(const,x)", em.Or(kb, x), OK.OR, (kb, x)),
        ("And(x,x)", em.And(x, x), OK.AND, (x, x)),
        ("Or(x,x)", em.Or(x, x), OK.OR, (x, x)),
        ("Implies(x,x)", em.Implies(x, x), OK.IMPLIES, (x, x)),
        ("Implies(const,x)", em.Implies(kb, x), OK.IMPLIES, (kb, x)),
        ("Iff(x,const)", em.Iff(x, kb), OK.IFF, (x, kb)),
        ("Plus(a,0)", em.Plus(a, 0), OK.PLUS, (a, i0)),
        ("Times(1,a)", em.Times(1, a), OK.TIMES, (i1, a)),
        ("Times(a,0)", em.Times(a, 0), OK.TIMES, (a, i0)),
        ("Minus(a,a)", em.Minus(a, a), OK.MINUS, (a, a)),
        ("Minus(a,0)", em.Minus(a, 0), OK.MINUS, (a, i0)),
        ("Div(a,1)", em.Div(a, 1), OK.DIV, (a, i1)),
        ("Equals(a,a)", em.Equals(a, a), OK.EQUALS, (a, a)),
        ("LE(1,2)", em.LE(1, 2), OK.LE, (i1, em.Int(2))),
        ("LT(a,a)", em.LT(a, a), OK.LT, (a, a)),
        ("Plus(1,2)", em.Plus(1, 2), OK.PLUS, (i1, em.Int(2))),
    ]
    for label, n, nt, args in structural:
        chk(
            n.node_type == nt and len(n.args) == len(args) and all(p is q for p, q in zip(n.args, args)),
            "post:undocumented-normalisation:" + label.split("(")[0].replace("~const", "Not"),
            f"{label} with x={x}, a={a}, const={kb} = {n} ({n.node_type.name}); only And/Or/Plus/Times of 0-1 arguments, double negation, GE/GT mirroring and numeric literals are documented to normalise",
        )
    chk(em.GE(a, c) is em.LE(c, a), "post:GE-mirrors-LE", f"GE({a},{c}) is not LE({c},{a})")
    chk(em.GT(a, c) is em.LT(c, a), "post:GT-mirrors-LT", f"GT({a},{c}) is not LT({c},{a})")
    le = em.LE(a, c)
    chk(le.node_type == OK.LE and le.arg(0) is a and le.arg(1) is c, "post:LE-args", f"LE({a},{c}) = {le}")
    if x is not y:
        n = em.And(x, y)
        chk(n.node_type == OK.AND and len(n.args) == 2 and n.arg(0) is x and n.arg(1) is y, "post:And-keeps-args-in-order", f"And({x},{y}) = {n} args={n.args}")
        n = em.Or(y, x)
        chk(n.node_type == OK.OR and n.arg(0) is y and n.arg(1) is x, "post:Or-keeps-args-in-order", f"Or({y},{x}) = {n}")
    if a is not c:
        n = em.Plus(a, c)
        chk(n.node_type == OK.PLUS and n.arg(0) is a and n.arg(1) is c, "post:Plus-keeps-args-in-order", f"Plus({a},{c}) = {n}")
        n = em.Times(c, a)
        chk(n.node_type == OK.TIMES and n.arg(0) is c and n.arg(1) is a, "post:Times-keeps-args-in-order", f"Times({c},{a}) = {n}")
        n = em.Minus(a, c)
        chk(n.node_type == OK.MINUS and n.arg(0) is a and n.arg(1) is c, "post:Minus-args", f"Minus({a},{c}) = {n}")
    # numeric literals
    lit = rng.choice([0, 1, -7, 2**60 + 1, 0.5, 0.1, -2.75, 3.0, Fraction(1, 3), Fraction(6, 3), Fraction(-10**30, 7), "12", "0.1", "-3/4", "7", "2.0", "-4.00", "1e2", "6/3", "0.50", "-0", "10/4"])
    (n,) = em.auto_promote(lit)
    if isinstance(lit, str):
        exact = Fraction(lit)
    else:
        exact = Fraction(lit)
    if exact.denominator == 1:
        chk(n.is_int_constant() and n.constant_value() == exact.numerator and n is em.Int(exact.numerator), "post:literal-int", f"auto_promote({lit!r}) = {n} ({n.node_type.name})")
    else:
        chk(n.is_real_constant() and n.constant_value() == exact and n is em.Real(exact), "post:literal-real", f"auto_promote({lit!r}) = {n} ({n.node_type.name}), exact value {exact}")
    # the same literal given in another spelling is the same node, also inside an operator
    other = exact.numerator if exact.denominator == 1 else exact
    chk(em.Minus(a, lit) is em.Minus(a, other), "post:literal-spelling-inside-operator", f"Minus({a}, {lit!r}) is not Minus({a}, {other!r})")
    b = rng.random() < 0.5
    chk(em.Bool(b) is (em.TRUE() if b else em.FALSE()) and em.auto_promote(b)[0] is em.Bool(b), "post:Bool", f"Bool({b})")


def twin_fluents(env, rng, viol, res):
    """Structurally different fluents that share a name (and a hash, when the library's hash ignores parameter order / the
    value-type vs parameter-type split) must give distinct expression nodes carrying their own payload."""
    from collections import OrderedDict
    from unified_planning.model import Fluent, Object

    tm, em = env.type_manager, env.expression_manager
    root = tm.UserType("TwinRoot")
    leaf = tm.UserType("TwinLeaf", root)
    l1, l2 = Object("twin_l1", leaf, env), Object("twin_l2", leaf, env)
    fams = [
        (Fluent("twin_in", tm.BoolType(), OrderedDict([("what", root), ("where", leaf)]), env), Fluent("twin_in", tm.BoolType(), OrderedDict([("what", leaf), ("where", root)]), env), (l1, l2)),
        (Fluent("twin_in", tm.BoolType(), OrderedDict([("what", root), ("where", leaf)]), env), Fluent("twin_in", tm.BoolType(), OrderedDict([("where", leaf), ("what", root)]), env), (l1, l2)),
        (Fluent("twin_holder", root, OrderedDict([("of", leaf)]), env), Fluent("twin_holder", leaf, OrderedDict([("of", root)]), env), (l1,)),
        (Fluent("twin_n", tm.IntType(0, 3), OrderedDict([("of", leaf)]), env), Fluent("twin_n", tm.IntType(0, 4), OrderedDict([("of", leaf)]), env), (l2,)),
        (Fluent("twin_r", tm.RealType(), OrderedDict(), env), Fluent("twin_r", tm.IntType(), OrderedDict(), env), ()),
    ]
    for f1, f2, args in fams:
        pair = [f1, f2]
        if rng.random() < 0.5:
            pair.reverse()
        nodes = [em.FluentExp(f, tuple(em.ObjectExp(a) for a in args)) for f in pair]
        again = [em.FluentExp(f, tuple(em.ObjectExp(a) for a in args)) for f in reversed(pair)][::-1]
        res.mon()
        res.count("twin_fluent_pairs")
        if f1 == f2:
            continue  # the library considers them the same fluent: nothing to demand
        if nodes[0] is nodes[1] or nodes[0].node_id == nodes[1].node_id:
            viol("different-fluents-same-node", f"fluent expressions of two different fluents named {f1.name} ({pair[0]!r} / {pair[1]!r}) are one node")
            continue
        for f, n, n2 in zip(pair, nodes, again):
            if n.fluent() is not f and n.fluent() != f:
                viol("fluent-expression-carries-wrong-fluent", f"FluentExp({f!r}) carries {n.fluent()!r}")
            if n.type != f.type:
                viol("fluent-expression-wrong-type", f"FluentExp({f!r}) has type {n.type}")
            if n2 is not n:
                viol("same-expression-different-node", f"building FluentExp({f!r}) twice gave different nodes")


def run_case(key, tier, res):
    from unified_planning.exceptions import UPException

    b = BOUNDS[tier]
    rng = rng_for(key)
    w = ExprWorld(rng)

    def viol(mech, summary, **kw):
        res.violation(mech, summary, {"case_key": key, "tier": tier, **kw})

    mon = Monitor(res, viol)
    envA, envB = _env.fresh_env(), _env.fresh_env()
    mon.install()
    try:
        for e in (envA, envB):
            mon.shadow[id(e.expression_manager)] = {}
            mon.ids[id(e.expression_manager)] = set()
        try:
            pbA, ctxA = instantiate_world(w, envA)
            pbB, ctxB = instantiate_world(w, envB)
        except UPException:
            res.count("rejected_at_build")
            return
        recipes = []
        builtA, builtB = [], []
        for i in range(b["exprs"]):
            if recipes and rng.random() < 0.3:
                er = rng.choice(recipes)  # deliberate repetition
            else:
                er = w.boolean(rng.choice([1, 2, 3])) if rng.random() < 0.6 else w.numeric(rng.choice([1, 2, 3]), huge=0.2)
                recipes.append(er)
            res.case()
            if rng.random() < 0.12:
                # an ill-typed construction, attempted 2-3 times: "structurally equal => same outcome" must also hold for
                # rejections (a node must not be registered by a construction that raises)
                obj = rng.choice(w.g.objects)[0]
                bad = rng.choice(
                    [
                        ["eq", ["i", 5], ["o", obj]],
                        ["plus", ["b", True], ["i", 1]],
                        ["div", w.numeric(1), ["i", 0]],
                        ["and", ["i", 1], w.boolean(1)],
                        ["le", ["o", obj], ["i", 2]],
                        ["not", w.numeric(1)],
                    ]
                )
                outs = []
                for _ in range(rng.choice([2, 3])):
                    try:
                        ctxA.expr(bad)
                        outs.append("node")
                    except (UPException, ZeroDivisionError) as ex:
                        outs.append(type(ex).__name__)
                res.mon()
                res.count("ill_typed_constructions")
                if len(set(outs)) > 1:
                    viol("ill-typed-construction-outcome-changes", f"constructing {bad} repeatedly gave {outs}", recipe=bad)
                continue
            try:
                nA = ctxA.expr(er)
            except (UPException, ZeroDivisionError):
                nA = None
            try:
                nB = ctxB.expr(er) if rng.random() < 0.5 else None
            except (UPException, ZeroDivisionError):
                nB = None
            if nA is not None:
                # the same recipe again, immediately: identical node
                try:
                    again = ctxA.expr(er)
                    res.mon()
                    if again is not nA:
                        viol("same-expression-different-node", f"building {nA} twice gave different nodes")
                except (UPException, ZeroDivisionError):
                    viol("second-construction-raises", f"building {nA} a second time raised")
                builtA.append(nA)
            if nA is not None and nB is not None:
                res.mon()
                if nA is nB or nA.environment is nB.environment:
                    viol("node-shared-between-environments", f"{nA} is shared by two environments")
                builtB.append(nB)
            if i % 10 == 9 and builtA:
                pb_ = [n for n in builtA if n.type.is_bool_type()] or [envA.expression_manager.TRUE()]
                pn_ = [n for n in builtA if n.type.is_int_type() or n.type.is_real_type()] or [envA.expression_manager.Int(3)]
                try:
                    post_conditions(envA.expression_manager, rng, pb_, pn_, viol, res)
                except (UPException, ZeroDivisionError):
                    res.count("postcondition_args_rejected")
        twin_fluents(envA, rng, viol, res)
        mon.checkpoint()
        for eid, sh in mon.shadow.items():
            ids = [n.node_id for n in sh.values()]
            res.mon()
            if len(set(ids)) != len(ids):
                viol("duplicate-node-ids", "two structurally different nodes of one environment share an id")
        for k in mon.repeats:
            res.nt(str(k[1]))
        res.count("create_node_events", mon.events)
        res.count("repeated_keys", len(mon.repeats))
        res.sample({"history_len": b["exprs"], "create_node_events": mon.events, "distinct_keys": sum(len(s) for s in mon.shadow.values()), "repeated_keys": len(mon.repeats), "first_expr": str(builtA[0]) if builtA else None})
    finally:
        mon.uninstall()


def thresholds(m):
    c = m["counters"]
    out = []
    for k, n in (("create_node_events", 5000), ("repeated_keys", 500), ("postconditions", 500), ("ill_typed_constructions", 100), ("twin_fluent_pairs", 100)):
        if c.get(k, 0) < n:
            out.append(f"{k} observed {c.get(k, 0)} < {n}")
    return out

"""C25 — DeltaSimpleTemporalNetwork decides temporal consistency exactly.

Directed monitor: every network produced by a history of add / insert_interval / copy_stn calls is judged at the API
boundary (check_stn, get_stn_model, distances, get_constraints) against vk.ref.stn (Floyd-Warshall consistency + least
non-negative solution by longest paths) applied to *that network's own* list of inserted constraints.

Two workloads:
* exhaustive: every insertion sequence up to a length bound over a tiny event set and integer bound range, with a copy
  taken after every prefix (the copy continues with the rest of the sequence, the original with the transposed rest);
* random: long histories over <= 6 events with integer / rational bounds, repeated and subsumed constraints,
  insert_interval in all its forms, and several interleaved copies.
"""
from fractions import Fraction

from vk import env as _env  # noqa: F401  (wires sys.path to /repo)
from vk.core import rng_for, chunk, h
from vk.ref import stn as ref
from vk.mon import stn_budget

PROPERTY = "C25"
LEVEL = "exploration"
EXHAUSTIVE = True
TECHNIQUE = "runtime monitoring: reference-model judgement (Floyd-Warshall / longest paths) of every network in exhaustive small and random long insert/copy histories"
LEVEL_TEXT = (
    "Every DeltaSimpleTemporalNetwork reached by the enumerated / generated histories is compared, at its public query "
    "interface, with an independent exact reference (negative-cycle test and least non-negative solution) computed from the "
    "list of constraints inserted into that very network. The small space named in the evidence is enumerated completely "
    "(exhaustive: true refers to that bounded space only); beyond it the claim is 'held on the histories observed'."
)
LEVEL_NOTE = (
    "Trusted: CPython, fractions, vk/ref/stn.py (two independent algorithms cross-checked on every oracle call, plus a "
    "brute-force grid search on the 3-event space). epsilon is left at its default 0; float bounds are outside the statement."
)
RULE = (
    "exhaustive part: every sequence of <= L constraints x - y <= b over E events (self-constraints included) and integer "
    "b in [-2,2] (quick: E=3, L<=3, 93,195 sequences; thorough: E=3, L<=4 and E=4, L<=3); for each sequence and each copy "
    "point i in 0..len: build prefix, copy_stn, extend the copy with the rest and the original with the transposed rest, "
    "judge original, copy and a second untouched copy. random part: histories of 20-200 operations (add, insert_interval, "
    "copy_stn) over <= 6 events with int/Fraction bounds drawn around a hidden solution (tight, slack, occasionally "
    "infeasible) or from a small range, <= 4 live networks, each judged after every operation on it and all of them every "
    "8 operations. evaluations = judged (network, constraint list) pairs. distinct_nontrivial = distinct exhaustive "
    "sequences of length <= 3 whose constraint graph contains a cycle (longer ones are only counted in "
    "'exhaustive_cyclic_sequences') + distinct random histories containing a cycle or a copy."
)
ASSUMPTIONS = [
    "oracle vk/ref/stn.py is correct (Floyd-Warshall and longest-path fixpoint agree on every call; brute force agrees on the 3-event grid)",
    "epsilon = 0 (default); bounds are int or Fraction as in the property statement",
    "the model of an inconsistent network and events first mentioned after inconsistency are not judged",
]
SHARD_TIMEOUT = {"quick": 600, "thorough": 3600}

BOUNDS = (-2, -1, 0, 1, 2)
SPACES = {
    # name: (events, max length)
    "E3L3": (3, 3),
    "E3L4": (3, 4),
    "E4L3": (4, 3),
}
TIER_SPACES = {"quick": ["E3L3"], "thorough": ["E3L4", "E4L3"]}
# a cell = all sequences starting with constraint c1 whose second constraint index is = part (mod PARTS); the
# length-1 sequence [c1] belongs to part 0
PARTS = {"E3L3": 1, "E3L4": 3, "E4L3": 1}
N_RANDOM = {"quick": 480, "thorough": 8000}
N_SHARDS = {"quick": 15, "thorough": 16}


def space_constraints(name):
    e, _ = SPACES[name]
    return [(x, y, b) for x in range(e) for y in range(e) for b in BOUNDS]


def space_size(name):
    _, L = SPACES[name]
    k = len(space_constraints(name))
    return sum(k**i for i in range(1, L + 1))


def plan(tier, seed):
    cells = []
    for sp in TIER_SPACES[tier]:
        for c1 in range(len(space_constraints(sp))):
            for part in range(PARTS[sp]):
                cells.append([sp, c1, part])
    keys = [f"{PROPERTY}:{seed}:{i}" for i in range(N_RANDOM[tier])]
    nsh = N_SHARDS[tier]
    cell_chunks = [cells[i::nsh] for i in range(nsh)]
    key_chunks = chunk(keys, nsh)
    specs = []
    for si in range(nsh):
        specs.append(
            {
                "shard": si,
                "tier": tier,
                "seed": seed,
                "cells": cell_chunks[si],
                "cases": key_chunks[si] if si < len(key_chunks) else [],
            }
        )
    return specs


def expected_cells(tier):
    return sum(len(space_constraints(sp)) * PARTS[sp] for sp in TIER_SPACES[tier])


def expected_sequences(tier):
    return sum(space_size(sp) for sp in TIER_SPACES[tier])


# ------------------------------------------------------------------------------------------------------------------
# judging one network against its own constraint list


def enc(v):
    return f"{v.numerator}/{v.denominator}" if isinstance(v, Fraction) else v


def dec(v):
    if isinstance(v, str) and "/" in v:
        return Fraction(v)
    return v


def dec_event(e):
    return tuple(dec_event(x) for x in e) if isinstance(e, list) else e


class Judge:
    """Oracle cache + verdicts. `viol(mech, summary, **extra)` is supplied by the caller (knows the witness)."""

    def __init__(self, res):
        self.res = res
        self.cache = {}

    def oracle(self, events, cons):
        # events first mentioned after the network became inconsistent are not registered by the caller: add them
        # (they cannot turn an inconsistent network consistent, and a consistent one has none of them)
        known = set(events)
        extra = []
        for x, y, _ in cons:
            for e in (x, y):
                if e not in known:
                    known.add(e)
                    extra.append(e)
        if extra:
            events = list(events) + extra
        key = (tuple(events), frozenset(ref.tightest(cons).items()))
        r = self.cache.get(key)
        if r is None:
            r = ref.solve(events, cons)
            if len(self.cache) < 400000:
                self.cache[key] = r
        return r

    def judge(self, net, events, cons, viol, who):
        """events: events mentioned while the reference network was consistent (in order); cons: inserted constraints.
        Returns True when a violation was reported."""
        res = self.res
        res.mon()
        res.case()
        ok, model = self.oracle(events, cons)
        try:
            lib_ok = net.check_stn()
        except Exception as e:  # noqa
            viol(f"check_stn-raises:{type(e).__name__}", f"{who}: check_stn raised {e!r}")
            return True
        if bool(lib_ok) != ok:
            if lib_ok:
                viol(
                    "reports-consistent-but-negative-cycle",
                    f"{who}: check_stn()=True but the inserted constraints {show(cons)} have no solution",
                    expected=False,
                    observed=True,
                )
            else:
                viol(
                    "reports-inconsistent-but-solvable",
                    f"{who}: check_stn()=False but {show(cons)} is satisfied by {show_model(model)}",
                    expected=True,
                    observed=False,
                )
            return True
        if not ok:
            res.count("judged_inconsistent")
            return False
        res.count("judged_consistent")
        got = {}
        try:
            dist = net.distances
            for e in events:
                got[e] = net.get_stn_model(e)
                if dist[e] != -got[e]:
                    viol(
                        "distances-disagree-with-model",
                        f"{who}: distances[{e!r}]={dist[e]} but get_stn_model={got[e]}",
                    )
                    return True
                if e not in net:
                    viol("event-not-contained", f"{who}: event {e!r} was inserted but `in` says False")
                    return True
        except Exception as e:  # noqa
            viol(f"model-raises:{type(e).__name__}", f"{who}: get_stn_model/distances raised {e!r} for an inserted event")
            return True
        if got != model:
            bad = ref.satisfies(got, cons)
            if bad is not None:
                viol(
                    "model-violates-constraint",
                    f"{who}: reported model {show_model(got)} violates inserted constraint {show([bad])}; least solution is {show_model(model)}",
                    expected=show_model(model),
                    observed=show_model(got),
                )
            elif any(v < 0 for v in got.values()):
                viol(
                    "model-negative-time",
                    f"{who}: reported model {show_model(got)} has a negative event time; least non-negative solution is {show_model(model)}",
                    expected=show_model(model),
                    observed=show_model(got),
                )
            else:
                viol(
                    "model-not-least",
                    f"{who}: reported model {show_model(got)} satisfies the constraints but the least non-negative solution is {show_model(model)}",
                    expected=show_model(model),
                    observed=show_model(got),
                )
            return True
        return False


def show(cons):
    return "[" + ", ".join(f"{x!r}-{y!r}<={b}" for x, y, b in cons) + "]"


def show_model(m):
    return None if m is None else {repr(k): str(v) for k, v in m.items()}


def snapshot(net, events):
    """Observable state of a network through its public queries (for independence checks)."""
    ok = net.check_stn()
    model = tuple((e, net.get_stn_model(e)) for e in events if e in net) if ok else None
    gc = net.get_constraints()
    cons = tuple(sorted(((repr(k), tuple(sorted((b, repr(d)) for b, d in v))) for k, v in gc.items())))
    return (ok, model, cons)


# ------------------------------------------------------------------------------------------------------------------
# generic history interpreter (random workload and replay)
#   ops: ["add", net, x, y, b] | ["interval", net, l, r, lb|None, rb|None] | ["copy", src, dst]


class Shadow:
    """Reference-side record of one network: inserted constraints + events registered while it was consistent."""

    __slots__ = ("cons", "events", "alive")

    def __init__(self, cons=(), events=(), alive=True):
        self.cons = list(cons)
        self.events = list(events)
        self.alive = alive  # consistent so far according to the reference

    def copy(self):
        return Shadow(self.cons, self.events, self.alive)

    def touch(self, *evs):
        if self.alive:
            for e in evs:
                if e not in self.events:
                    self.events.append(e)

    def add(self, x, y, b, judge):
        self.touch(x, y)
        was = self.alive
        self.cons.append((x, y, b))
        if was:
            ok, _ = judge.oracle(self.events, self.cons)
            self.alive = ok


def run_history(ops, res, judge, wbase, every=8):
    """Executes ops on real networks and shadows; judges. Returns True iff a violation was reported."""
    from unified_planning.model.delta_stn import DeltaSimpleTemporalNetwork

    nets = {0: DeltaSimpleTemporalNetwork()}
    shadows = {0: Shadow()}
    done = []

    def viol(mech, summary, **extra):
        res.violation(mech, summary, {**wbase, "history": [[enc(v) for v in op] for op in done], **extra})

    for step, op in enumerate(ops):
        done.append(op)
        kind = op[0]
        others = None
        try:
            if kind == "copy":
                _, src, dst = op
                before = snapshot(nets[src], shadows[src].events)
                nets[dst] = nets[src].copy_stn()
                shadows[dst] = shadows[src].copy()
                res.count("op:copy")
                if snapshot(nets[src], shadows[src].events) != before:
                    viol("copy-mutates-original", f"copy_stn changed the observable state of network {src}")
                    return True
                if snapshot(nets[dst], shadows[dst].events) != before:
                    viol("copy-differs-from-original", f"fresh copy {dst} differs observably from network {src}")
                    return True
                target = dst
            else:
                target = op[1]
                # independence: observable state of every other network must not change
                others = {k: snapshot(n, shadows[k].events) for k, n in nets.items() if k != target}
                res.count("ops_on_consistent_network" if shadows[target].alive else "ops_on_inconsistent_network")
                if kind == "add":
                    _, _, x, y, b = op
                    nets[target].add(x, y, b)
                    shadows[target].add(x, y, b, judge)
                    res.count("op:add")
                else:
                    _, _, l, r, lb, rb = op
                    nets[target].insert_interval(l, r, left_bound=lb, right_bound=rb)
                    # documented meaning: lb <= t[r] - t[l] <= rb
                    if lb is not None:
                        shadows[target].add(l, r, -lb, judge)
                    if rb is not None:
                        shadows[target].add(r, l, rb, judge)
                    if lb is None and rb is None:
                        shadows[target].touch(l, r)
                    res.count("op:interval:" + ("L" if lb is not None else "-") + ("R" if rb is not None else "-"))
        except stn_budget.StepBudgetExceeded as e:
            viol("add-does-not-terminate", f"step {step} {op!r}: {e} (network of {len(shadows[target].events)} events)")
            return True
        except Exception as e:  # noqa
            viol(f"{kind}-raises:{type(e).__name__}", f"step {step} {op!r} raised {e!r}")
            return True
        if others:
            for k, snap in others.items():
                if snapshot(nets[k], shadows[k].events) != snap:
                    viol(
                        "operation-on-one-network-changes-another",
                        f"step {step} {op!r} on network {target} changed the observable state of network {k}",
                    )
                    return True
        sh = shadows[target]
        if judge.judge(nets[target], sh.events, sh.cons, viol, f"network {target} after step {step}"):
            return True
        if step == len(ops) - 1:
            res.count("history_ends_with_consistent_networks", sum(1 for k in shadows if shadows[k].alive))
            if all(sh.alive for sh in shadows.values()):
                res.count("history_all_networks_consistent_to_end")
        if step % every == every - 1 or step == len(ops) - 1:
            for k in nets:
                if k != target:
                    if judge.judge(nets[k], shadows[k].events, shadows[k].cons, viol, f"network {k} after step {step}"):
                        return True
    return False


# ------------------------------------------------------------------------------------------------------------------
# random histories

EVENT_POOLS = [
    ["e0", "e1", "e2", "e3", "e4", "e5"],
    [0, 1, 2, 3, 4, 5],
    [("s", 0), ("e", 0), ("s", 1), ("e", 1), ("s", 2), ("e", 2)],
]


def gen_history(rng, tier):
    n_ev = rng.choice([2, 3, 4, 4, 5, 6, 6])
    events = list(rng.choice(EVENT_POOLS)[:n_ev])
    numeric = rng.choice(["int", "frac", "mixed"])
    mode = rng.choice(["hidden", "hidden", "hidden", "small"])
    length = rng.randint(20, 200) if mode == "hidden" else rng.randint(8, 40)

    def num(lo, hi):
        if numeric == "int" or (numeric == "mixed" and rng.random() < 0.5):
            return rng.randint(lo, hi)
        return Fraction(rng.randint(lo * 6, hi * 6), rng.choice([1, 2, 3, 4, 6, 7]))

    hidden = {e: num(0, 12) for e in events}
    p_neg = rng.choice([0.0, 0.01, 0.03])
    p_self = 0.05

    def constraint():
        x = rng.choice(events)
        y = x if rng.random() < p_self else rng.choice(events)
        if mode == "small":
            return x, y, num(-3, 4)
        base = hidden[x] - hidden[y]
        u = rng.random()
        if u < p_neg:
            slack = -abs(num(1, 3))
        elif u < 0.4:
            slack = 0
        else:
            slack = abs(num(0, 6))
        return x, y, base + slack

    ops = []
    live = [0]
    next_id = 1
    recent = []
    for _ in range(length):
        u = rng.random()
        if u < 0.06 and len(live) < 4:
            src = rng.choice(live)
            ops.append(["copy", src, next_id])
            live.append(next_id)
            next_id += 1
            continue
        net = rng.choice(live)
        if u < 0.30:
            # insert_interval  lb <= t[r] - t[l] <= rb
            l, r = rng.choice(events), rng.choice(events)
            if mode == "small":
                lb, rb = num(-3, 2), num(-2, 4)
            else:
                d = hidden[r] - hidden[l]
                lb = d - (0 if rng.random() < 0.4 else abs(num(0, 5)))
                rb = d + (0 if rng.random() < 0.4 else abs(num(0, 5)))
                if rng.random() < p_neg:
                    lb, rb = rb + 1, lb
            form = rng.random()
            if form < 0.2:
                lb = None
            elif form < 0.4:
                rb = None
            elif form < 0.45:
                lb = rb = None
            ops.append(["interval", net, l, r, lb, rb])
            continue
        if recent and u < 0.45:
            # repeat / loosen / tighten an earlier constraint (subsumption paths)
            x, y, b = rng.choice(recent)
            v = rng.random()
            if v < 0.4:
                pass
            elif v < 0.7:
                b = b + abs(num(0, 3))
            else:
                if mode == "small" or rng.random() < 10 * p_neg:
                    b = b - abs(num(0, 2))
        else:
            x, y, b = constraint()
        recent.append((x, y, b))
        ops.append(["add", net, x, y, b])
    return ops, {"events": n_ev, "numeric": numeric, "mode": mode}


def history_features(ops):
    """(has_copy, has_cycle) computed on the constraint graph of all ops (independent of the library)."""
    has_copy = any(op[0] == "copy" for op in ops)
    succ = {}
    for op in ops:
        if op[0] == "add":
            succ.setdefault(op[2], set()).add(op[3])
        elif op[0] == "interval":
            if op[4] is not None:
                succ.setdefault(op[2], set()).add(op[3])
            if op[5] is not None:
                succ.setdefault(op[3], set()).add(op[2])
    return has_copy, graph_has_cycle(succ)


def graph_has_cycle(succ):
    nodes = set(succ) | {v for vs in succ.values() for v in vs}
    reach = {n: set(succ.get(n, ())) for n in nodes}
    changed = True
    while changed:
        changed = False
        for n in nodes:
            new = set()
            for m in reach[n]:
                new |= reach[m]
            if not new <= reach[n]:
                reach[n] |= new
                changed = True
    return any(n in reach[n] for n in nodes)


def run_random_case(key, tier, res, judge):
    rng = rng_for(key)
    ops, feats = gen_history(rng, tier)
    has_copy, has_cycle = history_features(ops)
    res.count("random_histories")
    res.count("random:mode:" + feats["mode"])
    res.count("random:numeric:" + feats["numeric"])
    if has_copy:
        res.count("random_with_copy")
    if has_cycle:
        res.count("random_with_cycle")
    n_inc_before = res.counters.get("judged_inconsistent", 0)
    bad = run_history(ops, res, judge, {"case_key": key, "tier": tier, "kind": "random"})
    if res.counters.get("judged_inconsistent", 0) > n_inc_before:
        res.count("random_reaching_inconsistency")
    if has_copy or has_cycle:
        res.nt(("rnd", h([[enc(v) for v in op] for op in ops])))
    if not bad and res.counters["random_histories"] <= 2:
        res.sample({"kind": "random", "case_key": key, "features": feats, "n_ops": len(ops), "first_ops": [[enc(v) for v in op] for op in ops[:6]], "verdict": "agree"})
    return bad


# ------------------------------------------------------------------------------------------------------------------
# exhaustive enumeration


def run_cell(space, c1, part, tier, res, judge, selfcheck):
    from unified_planning.model.delta_stn import DeltaSimpleTemporalNetwork as STN

    n_ev, L = SPACES[space]
    C = space_constraints(space)
    events_all = list(range(n_ev))
    state = {"stop": False}

    def events_of(cons):
        # events registered while consistent, in insertion order (reference side)
        evs = []
        pref = []
        for x, y, b in cons:
            for e in (x, y):
                if e not in evs:
                    evs.append(e)
            pref.append((x, y, b))
            ok, _ = judge.oracle(evs, pref)
            if not ok:
                break
        return evs

    def experiment(seq):
        """All copy points of one sequence."""
        res.count("exhaustive_sequences")
        n = len(seq)
        cyc = graph_has_cycle({x: {y for a, y, _ in seq if a == x} for x, _, _ in seq})
        if cyc:
            res.count("exhaustive_cyclic_sequences")
            if n <= 3:
                res.nt(f"{space}:" + ".".join(str(C.index(c)) for c in seq))
        if selfcheck and n_ev == 3 and n <= 3:
            ok, model = judge.oracle(events_all, seq)
            bok, bmodel = ref.brute_least_int(events_all, seq, 2 * (n_ev - 1))
            res.count("oracle_selfcheck_bruteforce")
            if ok != bok or (ok and bmodel != model):
                raise ref.OracleBug(f"brute force disagrees with the oracle on {seq!r}: {bok},{bmodel} vs {ok},{model}")
        for i in range(n + 1):
            prefix, rest = seq[:i], seq[i:]
            other = [(y, x, b) for x, y, b in rest]
            hist = [["add", 0, x, y, b] for x, y, b in prefix] + [["copy", 0, 1], ["copy", 0, 2]]
            hist += [["add", 1, x, y, b] for x, y, b in rest] + [["add", 0, x, y, b] for x, y, b in other]

            def viol(mech, summary, **extra):
                res.violation(
                    mech,
                    summary,
                    {"case_key": f"{PROPERTY}:cell:{space}:{c1}:{part}", "tier": tier, "kind": "exhaustive", "space": space, "sequence": seq, "copy_point": i, "history": hist, **extra},
                )
                state["stop"] = True

            try:
                net = STN()
                for x, y, b in prefix:
                    net.add(x, y, b)
                cp = net.copy_stn()
                frozen = net.copy_stn()
                ev_p = events_of(prefix)
                snap = snapshot(frozen, ev_p)
                if snapshot(net, ev_p) != snap or snapshot(cp, ev_p) != snap:
                    viol("copy-differs-from-original", f"copy taken after {show(prefix)} differs observably from its original")
                    return
                for x, y, b in rest:
                    cp.add(x, y, b)
                if rest and snapshot(net, ev_p) != snap:
                    viol("operation-on-one-network-changes-another", f"adding {show(rest)} to a copy changed the original built from {show(prefix)}")
                    return
                for x, y, b in other:
                    net.add(x, y, b)
                if rest and snapshot(frozen, ev_p) != snap:
                    viol("operation-on-one-network-changes-another", f"adding to the original / a sibling copy changed an untouched copy of {show(prefix)}")
                    return
            except stn_budget.StepBudgetExceeded as e:
                viol("add-does-not-terminate", f"sequence {show(seq)} copy point {i}: {e}")
                return
            except Exception as e:  # noqa
                viol(f"history-raises:{type(e).__name__}", f"sequence {show(seq)} copy point {i} raised {e!r}")
                return
            res.count("copies_taken", 2)
            full_o = prefix + other
            if judge.judge(cp, events_of(seq), seq, viol, f"copy extended with {show(rest)}"):
                return
            if rest:
                if judge.judge(net, events_of(full_o), full_o, viol, f"original extended with {show(other)}"):
                    return
                if judge.judge(frozen, ev_p, prefix, viol, "untouched copy"):
                    return

    def rec(seq):
        if state["stop"]:
            return
        experiment(seq)
        if len(seq) < L:
            for c in C:
                rec(seq + [c])
                if state["stop"]:
                    return

    nparts = PARTS[space]
    if part == 0:
        experiment([C[c1]])
    if L >= 2:
        for i2, c2 in enumerate(C):
            if i2 % nparts == part:
                rec([C[c1], c2])
    if not state["stop"]:
        res.count("exhaustive_cells_done")
        res.count("exhaustive_cells_done:" + space)


def run_shard(spec, res):
    tier = spec["tier"]
    stn_budget.install()
    judge = Judge(res)
    for space, c1, part in spec.get("cells", []):
        run_cell(space, c1, part, tier, res, judge, selfcheck=True)
    complete = res.counters.get("exhaustive_cells_done", 0) == len(spec.get("cells", []))
    if spec.get("cells") and spec["shard"] == 0:
        sp, c1, _ = spec["cells"][0]
        res.sample({"kind": "exhaustive", "space": sp, "events": SPACES[sp][0], "max_len": SPACES[sp][1], "first_constraint": space_constraints(sp)[c1], "verdict": "agree"})
    judge.cache.clear()
    for key in spec["cases"]:
        run_random_case(key, tier, res, judge)
    if complete:
        res.count("exhaustive_space_complete")


def replay(witness, res):
    stn_budget.install()
    judge = Judge(res)
    ops = []
    for op in witness["history"]:
        ops.append([op[0]] + [dec_event(dec(v)) for v in op[1:]])
    run_history(ops, res, judge, {"case_key": witness.get("case_key"), "tier": witness.get("tier", "quick"), "kind": "replay"}, every=1)


def thresholds(m):
    c = m["counters"]
    out = []
    # the tier is recoverable from which spaces were enumerated
    tier = "thorough" if c.get("exhaustive_cells_done:E3L4", 0) or c.get("exhaustive_cells_done:E4L3", 0) else "quick"
    if not m["violations"]:
        if c.get("exhaustive_cells_done", 0) != expected_cells(tier):
            out.append(f"exhaustive enumeration incomplete: {c.get('exhaustive_cells_done', 0)} of {expected_cells(tier)} cells")
        if c.get("exhaustive_sequences", 0) != expected_sequences(tier):
            out.append(f"exhaustive enumeration incomplete: {c.get('exhaustive_sequences', 0)} of {expected_sequences(tier)} sequences")
    for k, n in [
        ("judged_inconsistent", 1000),
        ("judged_consistent", 1000),
        ("random_with_copy", 50),
        ("random_with_cycle", 50),
        ("random_reaching_inconsistency", 20),
        ("history_all_networks_consistent_to_end", 50),
        ("ops_on_consistent_network", 10000),
        ("op:interval:LR", 50),
        ("op:interval:L-", 20),
        ("op:interval:-R", 20),
        ("op:interval:--", 5),
        ("random:numeric:frac", 20),
        ("random:numeric:int", 20),
        ("oracle_selfcheck_bruteforce", 1000),
    ]:
        if c.get(k, 0) < n:
            out.append(f"fewer than {n} observations of class {k} ({c.get(k, 0)})")
    if len(m["nontrivial"]) < 1000:
        out.append("fewer than 1000 distinct non-trivial histories")
    return out


def extra_coverage(m):
    c = m["counters"]
    tier = "thorough" if c.get("exhaustive_cells_done:E3L4", 0) or c.get("exhaustive_cells_done:E4L3", 0) else "quick"
    return {
        "exhaustive_space": {
            sp: {"events": SPACES[sp][0], "max_len": SPACES[sp][1], "bounds": list(BOUNDS), "sequences": space_size(sp)} for sp in TIER_SPACES[tier]
        },
        "exhaustive_sequences_enumerated": c.get("exhaustive_sequences", 0),
    }

"""C38 — the names chosen by the PDDL and ANML writers are valid identifiers of the target language, never keywords,
injective per namespace, and the PDDL writer's item<->name lookups are inverses of each other.

Monitor: after PDDLWriter.get_domain()/get_problem() every model item is looked up with get_pddl_name / get_item_named and
the two texts are re-lexed; for ANML the (item, name) pairs flowing through the module-level `_get_anml_name` are captured
by a pass-through wrapper and the text is re-lexed.  Oracle: vk.ref.names (grammars / keyword tables transcribed from the
language definitions).  Every problem is written twice: with the module-level PDDL keyword set as in a fresh process, and
after "history" writers (temporal / trajectory-constraint problems) have been created in the same process.

Writer exceptions: documented rejections and internal exceptions raised by the *rest* of the writer (unsupported metrics,
Boolean constants, ...) mean "no names to judge" (counted); an internal exception raised inside the name-choosing functions
themselves (`_get_mangled_name`, `_get_pddl_name`, `_get_anml_name`, ... — e.g. their own uniqueness / validity assertions)
is a violation `<writer>:naming-raises:<Type>:<function>`: the property promises a name for every item of every problem.
ANML `invalid-identifier` mechanisms say how the name escaped: `unmangled|mangled` x shape of the emitted name."""
import copy

from vk import env as _env  # noqa: F401
from vk.core import rng_for, simple_plan, h
from vk.gen.problem import gen_problem
from vk.gen import idents_pn
from vk.gen.proto_c20 import G20
from vk.recipe import instantiate_problem
from vk.ref import names as N

PROPERTY = "C38"
LEVEL = "exploration"
TECHNIQUE = "runtime monitoring: lexical oracle (language grammar, keyword tables, injectivity, inverse lookups) over the names observed at the writers' API"
LEVEL_TEXT = (
    "Every name the real PDDLWriter / ANMLWriter chose for a model item of a generated problem with adversarial identifiers "
    "is judged against the target language's identifier grammar and keyword list, for per-namespace distinctness "
    "(case-insensitive for PDDL) and, for PDDL, for get_item_named / get_pddl_name being mutually inverse; the written "
    "texts are re-lexed so that names that bypass the lookup tables are seen too.  In the thorough tier the repository's own "
    "test-suite is re-run with pass-through wrappers on PDDLWriter._write_domain/_write_problem and ANMLWriter._write_problem and "
    "every output is judged by the same oracle on the writer object that produced it.  Held on the problems observed."
)
LEVEL_NOTE = (
    "Trusted: vk/ref/names.py (grammar + keyword tables transcribed from the PDDL 3.1 BNF and the ANML manual; PDDL words "
    "are enforced per language fragment actually used by the file, words that benchmark domains use as symbols such as "
    "'at' outside durative actions are observations only), the read-only accessors of the model, a small S-expression lexer. "
    "Suite monitor (vk/mon/universal.install_names): trusted are also pytest/xdist and the monkey-patched wrappers (the text is "
    "written to a buffer and passed through); a PDDL writer is judged after each of its two files (a domain judged alone is "
    "held to the reserved words of the fragments that file uses); writers of non-`Problem` classes (MA-PDDL) are counted as unjudged."
)
RULE = (
    "cases = generated problems (vk.gen.problem grammar restricted to what the writers accept; every 3rd with durative "
    "actions / timed effects) whose types, objects, fluents, actions, parameters and quantified variables are named by "
    "vk.gen.idents_pn (case variants of one another, PDDL/ANML keywords, symbols, leading digits, names equal to mangled "
    "forms of other names); each case is written by PDDLWriter under two keyword-set histories and by ANMLWriter. "
    "evaluations = judged (writer, history, problem) outputs; distinct_nontrivial = distinct (recipe, writer) pairs in "
    "which >= 2 items of one namespace collide under naive sanitisation (lower-casing / replacing illegal characters). "
    "Thorough tier only: one run of unified_planning/test under M-names; one evaluation = one written file judged "
    "(suite:M-names:judged); witnesses carry the test id (\"suite\": true) and are replayed by re-running that test file under "
    "the monitor; inconclusive if the suite ran and fewer than 150 files were judged."
)
ASSUMPTIONS = [
    "the PDDL 3.1 BNF / ANML manual word lists in vk/ref/names.py are the languages' keywords",
    "namespaces: types; predicates+functions; actions; objects+constants; parameters and variables within one action",
]
SHARD_TIMEOUT = {"quick": 600, "thorough": 7200}
N_CASES = {"quick": 420, "thorough": 25600}

PROFILE = dict(
    object_fluents=False,
    interpreted_functions=0.0,
    int_params=0.0,
    undefined_init=0.0,
    invariants=0.0,
    bool_fluent_assign=False,
    metric=None,
    traj=0.0,
)


def plan(tier, seed):
    return simple_plan(PROPERTY, tier, seed, N_CASES["quick"], N_CASES["thorough"], shards_quick=4, shards_thorough=16)  # (quick tier work ~6 CPU-s; every shard costs ~2.5 CPU-s of imports)


SUITE = (("names",), "M-names:judged")


def run_shard(spec, res):
    if spec["tier"] == "thorough" and spec["shard"] == 1:
        # the repository's own test-suite re-run with the universal monitor M-names installed (DESIGN §4): every PDDL / ANML
        # text the tests (and the PDDL-based engines they drive) write is judged on the writer object that wrote it
        from vk.mon import suite as _suite

        _suite.feed(res, PROPERTY, _suite.run_suite(SUITE[0]), SUITE[1])
    for key in spec["cases"]:
        run_case(key, spec["tier"], res)
    if spec["shard"] == 0:
        run_examples(spec["tier"], res)


def replay(witness, res):
    if witness.get("suite"):
        from vk.mon import suite as _suite

        _suite.replay_suite(res, PROPERTY, SUITE[0], SUITE[1], witness)
        return
    if witness.get("example"):
        run_examples(witness.get("tier", "quick"), res, only=witness["example"])
    else:
        run_case(witness["case_key"], witness.get("tier", "quick"), res)


# ---- keyword-set history emulation ------------------------------------------------------------------------------
_PRISTINE = None


def _kw_sets():
    import unified_planning.io.pddl_writer as pw

    global _PRISTINE
    if _PRISTINE is None:
        # the module has just been imported or — if writers were already created in this process — may be polluted:
        # re-derive the pristine value from the source text, not from the live object
        import ast
        import inspect

        src = inspect.getsource(pw)
        tree = ast.parse(src)
        for node in tree.body:
            if isinstance(node, ast.Assign) and getattr(node.targets[0], "id", None) == "GENERAL_PDDL_KEYWORDS":
                _PRISTINE = set(ast.literal_eval(node.value))
        assert _PRISTINE is not None
    return pw, _PRISTINE


def set_history(mode):
    """'fresh': the module-level keyword set as in a new process; 'polluted': as after writers for a temporal problem,
    a problem with trajectory constraints, processes and a contingent problem were created earlier in the process
    (what PDDLWriter.__init__'s in-place `|=` leaves behind)."""
    pw, pristine = _kw_sets()
    g = pw.GENERAL_PDDL_KEYWORDS
    g.clear()
    g.update(pristine)
    if mode == "polluted":
        for extra in ("TEMPORAL_PDDL_KEYWORDS", "PDDL3_KEYWORDS", "PDDL_PLUS_KEYWORDS", "CONTINGENT_PDDL_KEYWORDS"):
            g.update(getattr(pw, extra, set()))


# ---- generation ---------------------------------------------------------------------------------------------------
class G38(G20):
    """The C01 grammar restricted to what the PDDL writer accepts: no Boolean constants as atoms, and a temporal layer
    without intermediate conditions / effects (start / end / over-all only)."""

    def atom(self, scope, use_fluents=True):
        for _ in range(6):
            a = super().atom(scope, use_fluents)
            if a[0] != "b":
                return a
        return a

    def make_durative(self, a):
        r = self.rng
        k = r.choice(["fixed", "fixed", "closed"])
        lo = r.choice([1, 2, 5])
        dur = ["fixed", ["i", lo]] if k == "fixed" else ["closed", ["i", lo], ["i", lo + r.choice([1, 3])]]
        ivs = [["point", ["start", "0"]], ["point", ["end", "0"]], ["closed", ["start", "0"], ["end", "0"]], ["open", ["start", "0"], ["end", "0"]]]
        conds = [[r.choice(ivs), c] for c in a.get("pre", [])]
        effs = [[r.choice([["start", "0"], ["end", "0"]]), e] for e in a.get("effects", [])]
        return {"name": a["name"], "params": a["params"], "duration": dur, "conds": conds, "effects": effs}


def make_recipe(key):
    i = int(key.split(":")[2])
    rng = rng_for(key)
    nm = idents_pn.namer(rng, adversarial=0.8)
    prof = dict(PROFILE, names=nm)
    temporal = i % 3 == 2
    if i % 5 == 0:
        prof.update(traj=1.0)
    if i % 7 == 0 and not temporal:
        prof.update(metric="any")
    g = G38(rng, prof)
    rec = g.gen()
    rec["name"] = rng.choice(["gen", "Gen Problem", "1st", "and", "domain", "a-b", None, "x.y", "é"])
    # goals / trajectory constraints that mention no fluent fold to a constant, which the PDDL writer refuses
    bf = [f for f in g.fluents if f["type"] == "bool"]
    for k in ("goals", "traj"):
        for j, ge in enumerate(rec.get(k, [])):
            if '"f"' not in __import__("json").dumps(ge):
                fe = g.fluent_exp(rng.choice(bf), {}) if bf else None
                if fe is not None:
                    rec[k][j] = fe if k == "goals" else ["sometime", fe]
    if temporal:
        rec.pop("traj", None)
        g.add_temporal(rec)
        rec["timed_goals"] = []
        rec.pop("metric", None)
    rec = idents_pn.rename_locals(rec, rng, nm)
    if i % 14 == 0 and rec.get("metric") and not any(f["name"].lower() == "total-cost" for f in rec["fluents"]):
        # directed: a user fluent carrying the name PDDL's :action-costs convention (and the writer) uses for the cost function
        old = rng.choice(rec["fluents"])["name"]
        rec = _rename_fluent(rec, old, rng.choice(["total-cost", "total-cost", "Total-Cost"]))
        nm.classes.add("pddl-keyword")
    return rec, sorted(g.feat), sorted(nm.classes), temporal


def _rename_fluent(o, old, new):
    if isinstance(o, list):
        if len(o) >= 2 and o[0] == "f" and o[1] == old:
            return ["f", new] + [_rename_fluent(x, old, new) for x in o[2:]]
        return [_rename_fluent(x, old, new) for x in o]
    if isinstance(o, dict):
        out = {k: _rename_fluent(v, old, new) for k, v in o.items()}
        if out.get("name") == old and "sig" in out and "type" in out:
            out["name"] = new
        return out
    return o


def naive(n):
    import re

    return re.sub(r"[^a-z0-9_-]", "_", n.lower())


def naive_collisions(groups):
    """groups: dict namespace -> list of original names.  True iff some namespace has 2 items that collide naively."""
    for ns, names in groups.items():
        seen = {}
        for n in names:
            k = naive(n)
            if k in seen and seen[k] != n:
                return True
            seen[k] = n
    return False


def recipe_local_names(rec):
    """action name -> (param names, variable names) from the recipe."""
    out = {}
    for a in rec.get("actions", []):
        vs = set()
        idents_pn._collect_vars(a, vs)
        out[a["name"]] = ([p for p, _ in a.get("params", [])], sorted(vs))
    return out


# ---- the case -----------------------------------------------------------------------------------------------------
def run_case(key, tier, res):
    from unified_planning.exceptions import UPException

    rec, feats, classes, temporal = make_recipe(key)
    e = _env.fresh_env()
    try:
        pb, ctx = instantiate_problem(rec, e)
    except UPException:
        res.count("rejected_at_build")
        return
    except (ValueError, KeyError) as ex:
        # the recipe layer keys items by name: adversarial names that coincide across kinds are not expressible
        res.count("rejected_at_build")
        res.count("rejected_by_recipe_layer:" + type(ex).__name__)
        return
    if temporal and rng_for(key, "time-model").random() < 0.5:
        # the time model is a setting of the problem, independent of its actions: a discrete-time temporal problem is written
        # with :durative-action as well, so the temporal words are keywords of its PDDL text too
        try:
            pb.discrete_time = True
            res.count("temporal_discrete_time")
        except Exception:
            pass
    for c in classes:
        res.count("identifier_class:" + c)
    wbase = {"case_key": key, "tier": tier, "recipe": rec}
    groups = item_groups(pb, rec)
    coll = naive_collisions({k: [n for _, n in v] for k, v in groups.items()})
    pid = h(rec)
    outs = {}
    for hist in ("fresh", "polluted"):
        set_history(hist)
        names = judge_pddl(pb, rec, groups, dict(wbase, history=hist), res, temporal)
        if names is not None:
            outs[hist] = names
            if coll:
                res.nt((pid, "pddl"))
    set_history("fresh")
    if len(outs) == 2:
        res.count("pddl_written_under_both_histories")
        if outs["fresh"] != outs["polluted"]:
            res.count("observation:pddl_names_depend_on_writer_history")
    if judge_anml(pb, rec, groups, wbase, res) and coll:
        res.nt((pid, "anml"))
    res.sample({"names": {k: [n for _, n in v] for k, v in groups.items()}, "classes": classes, "pddl": outs.get("fresh"), "verdict": "see violations" if res.violations else "ok"})


def item_groups(pb, rec):
    """namespace -> [(item, original name)]"""
    g = {
        "type": [(t, t.name) for t in pb.user_types],
        "fluent": [(f, f.name) for f in pb.fluents],
        "action": [(a, a.name) for a in pb.actions],
        "object": [(o, o.name) for o in pb.all_objects],
    }
    for a in pb.actions:
        g["params:" + a.name] = [(p, p.name) for p in a.parameters]
    return g


NAMING_FUNCTIONS = {
    "_get_mangled_name", "_get_pddl_name", "get_pddl_name", "get_item_named",
    "_get_anml_name", "_get_anml_valid_name", "_is_valid_anml_name",
}  # fmt: skip


def naming_site(ex):
    """Name of the writers' name-choosing function in which `ex` was raised (innermost library frame), else None."""
    import traceback

    tb = [f for f in traceback.extract_tb(ex.__traceback__) if f.filename.endswith(("pddl_writer.py", "anml_writer.py"))]
    if tb and tb[-1].name in NAMING_FUNCTIONS:
        # (the wrapper of anml_capture is not a library frame; the innermost frame must be the raise site itself)
        last = traceback.extract_tb(ex.__traceback__)[-1]
        if last.filename == tb[-1].filename and last.name == tb[-1].name:
            return tb[-1].name
    return None


# ---- PDDL ---------------------------------------------------------------------------------------------------------
def judge_pddl(pb, rec, groups, wbase, res, temporal):
    from unified_planning.io import PDDLWriter
    from unified_planning.exceptions import UPException

    def viol(mech, summary, **w):
        res.violation("pddl:" + mech, "PDDLWriter: " + summary, {**wbase, "writer": "pddl", **w})

    try:
        w = PDDLWriter(pb)
        dom = w.get_domain()
        prob = w.get_problem()
    except UPException as ex:
        res.count("pddl_writer_rejected")
        res.count("pddl_writer_rejected:" + type(ex).__name__)
        return None
    except _env.INTERNAL_EXC as ex:
        site = naming_site(ex)
        if site is not None:
            # the property promises a name for every item of every problem: an internal exception raised by the
            # name-choosing code itself (not by the rest of the writer) breaks it
            res.case()
            res.mon()
            viol(f"naming-raises:{type(ex).__name__}:{site}", f"the name-choosing code raised {type(ex).__name__}: {str(ex)[:120]} in {site}", observed=f"{type(ex).__name__}: {str(ex)[:200]}", site=site)
            return None
        res.count("pddl_writer_rejected")
        res.count("pddl_writer_internal_exception:" + type(ex).__name__)
        return None
    return judge_pddl_output(w, dom, prob, groups, wbase, res, temporal)


def judge_pddl_output(w, dom, prob, groups, wbase, res, temporal):
    """Judges the names a PDDLWriter `w` chose while it wrote the texts `dom` / `prob` (also used by the universal monitor
    M-names on the writers the repository's test-suite creates)."""
    from unified_planning.exceptions import UPException

    def viol(mech, summary, **kw):
        res.violation("pddl:" + mech, "PDDLWriter: " + summary, {**wbase, "writer": "pddl", **kw})

    res.case()
    res.mon()
    res.count("judged:pddl:" + wbase["history"])
    if temporal:
        res.count("judged:pddl:temporal")
    reserved = N.pddl_reserved(dom, prob)
    chosen = {}
    ok = True
    for ns, items in groups.items():
        nsk = "type" if ns == "type" else ("variable" if ns.startswith("params:") else "symbol")
        got = []
        for item, orig in items:
            try:
                n = w.get_pddl_name(item)
            except UPException:
                res.count("pddl_item_not_named(unused)")
                continue
            res.count("pddl_names_judged")
            got.append((item, orig, n))
            chosen.setdefault(ns, []).append(n)
            if n != orig:
                res.count("pddl_renamed")
            if not N.pddl_valid_symbol(n, nsk == "variable"):
                viol(f"invalid-identifier:{nsk}", f"{ns} item {orig!r} is written as {n!r}, not a PDDL {'variable' if nsk == 'variable' else 'name'}", namespace=ns, original=orig, observed=n)
                ok = False
            if N.pddl_keyword_violation(n, nsk, reserved):
                viol(f"keyword:{n.lstrip('?').lower()}", f"{ns} item {orig!r} is written as {n!r}, a reserved word of the PDDL fragment used by the file", namespace=ns, original=orig, observed=n)
                ok = False
            elif n.lstrip("?").lower() in N.PDDL_SOFT:
                res.count("observation:pddl_soft_keyword_as_name:" + n.lstrip("?").lower())
            # inverse lookups
            try:
                back = w.get_item_named(n)
            except UPException:
                back = None
            if back is None or not (back == item):
                viol("inverse:item->name->item", f"get_item_named(get_pddl_name(x)) != x for {ns} item {orig!r} (name {n!r}, got {back!r})", namespace=ns, original=orig, observed=str(back))
                ok = False
        # injectivity (case-insensitive)
        seen = {}
        for item, orig, n in got:
            k = n.lower()
            if k in seen and not (seen[k][0] == item):
                viol(f"collision:{'params' if ns.startswith('params:') else ns}", f"distinct {ns} items {seen[k][1]!r} and {orig!r} are both written as {n!r} (case-insensitively)", namespace=ns, originals=[seen[k][1], orig], observed=n)
                ok = False
            seen.setdefault(k, (item, orig))
    # the texts: declared names
    decl = N.pddl_declared(dom, prob)
    for ns, names in decl.items():
        nsk = "type" if ns == "type" else ("variable" if ns.startswith("params:") else "symbol")
        low = {}
        for n in names:
            res.count("pddl_declared_names_judged")
            if not N.pddl_valid_symbol(n, nsk == "variable"):
                viol(f"text-invalid-identifier:{ns.split(':')[0]}", f"the written text declares {n!r} in namespace {ns}, not a PDDL {'variable' if nsk == 'variable' else 'name'}", namespace=ns, observed=n)
                ok = False
            if ns not in ("domain-name", "problem-name") and N.pddl_keyword_violation(n, nsk, reserved):
                if not any(n in v for v in chosen.values()):  # (already reported above otherwise)
                    viol(f"text-keyword:{n.lstrip('?').lower()}", f"the written text declares the reserved word {n!r} in namespace {ns}", namespace=ns, observed=n)
                    ok = False
            if ns in ("type", "object", "fluent", "action") or ns.startswith("params:"):
                k = n.lower()
                if k in low:
                    special = ":total-cost" if k == "total-cost" else ""
                    viol(f"text-duplicate-declaration:{ns.split(':')[0]}{special}", f"the written text declares {n!r} twice in namespace {ns}", namespace=ns, observed=n)
                    ok = False
                low[k] = n
            # name -> item -> name
            if ns in ("type", "object", "fluent", "action") or (ns.startswith("params:") and not ns.startswith("params:fluent:")):
                try:
                    item = w.get_item_named(n)
                except UPException:
                    res.count("observation:pddl_declared_name_without_item:" + (n if n in ("total-cost", "object") else ns.split(":")[0]))
                    continue
                try:
                    n2 = w.get_pddl_name(item)
                except UPException:
                    n2 = None
                if n2 != n:
                    viol("inverse:name->item->name", f"get_pddl_name(get_item_named({n!r})) = {n2!r}", namespace=ns, observed=n2, expected=n)
                    ok = False
    if ok:
        res.count("pddl_outputs_clean")
    return {k: v for k, v in chosen.items()}


# ---- ANML ---------------------------------------------------------------------------------------------------------
class anml_capture:
    """Pass-through recorder around the module-level _get_anml_name."""

    def __enter__(self):
        import unified_planning.io.anml_writer as aw

        self.aw = aw
        self.orig = aw._get_anml_name
        self.pairs = []

        def wrapped(item, names_mapping):
            n = self.orig(item, names_mapping)
            self.pairs.append((item, n))
            return n

        aw._get_anml_name = wrapped
        return self

    def __exit__(self, *a):
        self.aw._get_anml_name = self.orig
        return False


def judge_anml(pb, rec, groups, wbase, res):
    from unified_planning.io import ANMLWriter
    from unified_planning.exceptions import UPException
    from unified_planning.model import Parameter, Variable
    from unified_planning.model.types import Type

    def viol(mech, summary, **w):
        res.violation("anml:" + mech, "ANMLWriter: " + summary, {**wbase, "writer": "anml", **w})

    with anml_capture() as cap:
        try:
            text = ANMLWriter(pb).get_problem()
        except UPException as ex:
            res.count("anml_writer_rejected")
            res.count("anml_writer_rejected:" + type(ex).__name__)
            return False
        except _env.INTERNAL_EXC as ex:
            site = naming_site(ex)
            if site is not None:
                res.case()
                res.mon()
                viol(f"naming-raises:{type(ex).__name__}:{site}", f"the name-choosing code raised {type(ex).__name__}: {str(ex)[:120]} in {site}", observed=f"{type(ex).__name__}: {str(ex)[:200]}", site=site)
                return False
            res.count("anml_writer_rejected")
            res.count("anml_writer_internal_exception:" + type(ex).__name__)
            return False
    return judge_anml_output(cap.pairs, text, groups, rec, wbase, res)


def judge_anml_output(pairs, text, groups, rec, wbase, res):
    """Judges the (item, name) pairs that flowed through `_get_anml_name` while an ANMLWriter wrote `text` (also used by the
    universal monitor M-names)."""
    from unified_planning.model import Parameter, Variable
    from unified_planning.model.types import Type

    def viol(mech, summary, **w):
        res.violation("anml:" + mech, "ANMLWriter: " + summary, {**wbase, "writer": "anml", **w})

    res.case()
    res.mon()
    res.count("judged:anml")
    name_of = {}
    items = []
    for item, n in pairs:
        if isinstance(item, Type) and not item.is_user_type():
            continue
        if any(item is it or (type(item) is type(it) and item == it) for it, _ in items):
            prev = next(nn for it, nn in items if item is it or (type(item) is type(it) and item == it))
            if prev != n:
                viol("unstable-name", f"one item is given two names {prev!r} and {n!r}", observed=[prev, n])
            continue
        items.append((item, n))
    ok = True
    for item, n in items:
        res.count("anml_names_judged")
        orig = item.name
        if n != orig:
            res.count("anml_renamed")
        if not N.anml_valid_name(n):
            kind = type(item).__name__.lstrip("_")
            # one string per way of escaping the mangling: (was the name changed at all?) x (shape of the emitted name)
            how = ("unmangled" if n == orig else "mangled") + ":" + N.anml_invalid_shape(n)
            res.count("anml_invalid_char_class:" + N.anml_invalid_char_class(n))
            viol(f"invalid-identifier:{how}", f"{kind} {orig!r} is written as {n!r}, which is not an ANML identifier", original=orig, observed=n, item_kind=kind, char_class=N.anml_invalid_char_class(n))
            ok = False
        elif N.anml_is_keyword(n):
            viol(f"keyword:{n}", f"{type(item).__name__} {orig!r} is written as the ANML keyword {n!r}", original=orig, observed=n)
            ok = False
    # injectivity per namespace
    by_item = lambda it: next((n for i2, n in items if i2 is it or (type(i2) is type(it) and i2 == it)), None)  # noqa: E731
    locs = recipe_local_names(rec)
    for ns, members in groups.items():
        named = [(it, orig, by_item(it)) for it, orig in members]
        if ns.startswith("params:"):
            # quantified variables used inside the action share the action's scope
            _, vnames = locs.get(ns[len("params:") :], ([], []))
            for it, n in items:
                if isinstance(it, Variable) and it.name in vnames:
                    named.append((it, it.name, n))
        seen = {}
        for it, orig, n in named:
            if n is None:
                continue
            if n in seen and not (seen[n][0] == it and type(seen[n][0]) is type(it)):
                viol(f"collision:{'params' if ns.startswith('params:') else ns}", f"distinct {ns} items {seen[n][1]!r} and {orig!r} are both written as {n!r}", namespace=ns, originals=[seen[n][1], orig], observed=n)
                ok = False
            seen.setdefault(n, (it, orig))
    # global symbol table of an ANML file: types, fluents, actions and instances live in one scope (observation only)
    allg = {}
    for ns in ("type", "fluent", "action", "object"):
        for it, orig in groups.get(ns, []):
            n = by_item(it)
            if n is not None:
                if n in allg and allg[n] != ns:
                    res.count("observation:anml_cross_namespace_same_name")
                allg[n] = ns
    # the text: every identifier token must be a chosen name, a keyword, or a known builtin of the writer's output
    if ok:
        chosen = {n for _, n in items}
        unknown = sorted({t for t in N.anml_identifier_tokens(text) if t not in chosen and t not in N.ANML_KEYWORDS and t not in ("InstantaneousAction",)})
        if unknown:
            viol("text-token-not-a-chosen-name", f"identifier tokens {unknown[:6]} of the written text are neither chosen names nor keywords", observed=unknown[:20])
            ok = False
    if ok:
        res.count("anml_outputs_clean")
    return True


# ---- corpus -------------------------------------------------------------------------------------------------------
def run_examples(tier, res, only=None):
    from unified_planning.test.examples import get_example_problems
    from unified_planning.model import Problem

    for name, ex in sorted(get_example_problems().items()):
        if only and name != only:
            continue
        pb = ex.problem
        if type(pb) is not Problem:
            continue
        res.count("examples")
        groups = item_groups(pb, {})
        wbase = {"example": name, "tier": tier, "case_key": "example:" + name}
        set_history("fresh")
        judge_pddl(pb, {}, groups, dict(wbase, history="fresh"), res, False)
        judge_anml(pb, {}, groups, wbase, res)


# ---- coverage -----------------------------------------------------------------------------------------------------
REQUIRED = {
    "judged:pddl:fresh": 100,
    "judged:pddl:polluted": 100,
    "judged:pddl:temporal": 20,
    "judged:anml": 100,
    "pddl_renamed": 200,
    "anml_renamed": 100,
    "identifier_class:case-variant": 30,
    "identifier_class:pddl-keyword": 30,
    "identifier_class:anml-keyword": 30,
    "identifier_class:symbols": 30,
    "identifier_class:leading-digit-or-punct": 30,
    "identifier_class:mangled-form-of-another": 30,
}


def thresholds(m):
    c = m["counters"]
    out = []
    for k, n in REQUIRED.items():
        if c.get(k, 0) < n:
            out.append(f"class {k}: {c.get(k, 0)} observations < {n}")
    if len(m["nontrivial"]) < 50:
        out.append(f"fewer than 50 distinct non-trivial (problem, writer) pairs ({len(m['nontrivial'])})")
    judged = c.get("judged:pddl:fresh", 0)
    if c.get("pddl_writer_rejected", 0) > 2 * max(judged, 1) * 2:
        out.append("the PDDL writer rejected most problems")
    from vk.mon import suite as _suite

    out.extend(_suite.thresholds(c, SUITE[1], 150))
    return out

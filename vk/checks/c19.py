"""C19 - ANML write/read round trip preserves problem semantics.

Monitor: every ANMLWriter.get_problem / ANMLReader.parse_problem_string call made on generated problems (and on the repo's ANML
files: parsed, written, re-parsed) is judged at the API boundary: the re-read problem must be behaviourally equivalent to the
original under the writer's own renaming (captured by wrapping the module-level _get_anml_name): vk.ref.bisim over vk.ref.seqsem
for the classical/numeric part, per-time-class projection + durations by value for the temporal part."""
import glob
import os

from vk import env as _env  # noqa: F401
from vk.core import rng_for, simple_plan, h
from vk.gen import iofrag
from vk.mon import io_rt
from vk.ref import bisim, seqsem
from vk.ref.evalx import Unsupported

PROPERTY = "C19"
LEVEL = "exploration"
TECHNIQUE = "runtime monitoring: ANML write -> re-read, bounded bisimulation of original and re-read problem under the writer's renaming with a reference semantics; temporal structure compared per time class and durations by value"
LEVEL_TEXT = (
    "Each generated problem is written by the real ANMLWriter and re-read by the real ANMLReader; original and re-read problem "
    "are explored in lock-step by an independent reference semantics (objects per type, initial state, applicability and "
    "successors of every ground instance, goal status). Durative actions are projected onto one pseudo transition per time "
    "class (time points start+d / end-d, open intervals between two time points), timed effects and timed goals likewise, and "
    "durations are compared by value with their open/closed flags. Held on the executions observed within the bounds."
)
LEVEL_NOTE = (
    "Trusted: CPython, fractions, read-only accessors of the model classes, vk/ref/evalx.py + seqsem.py + bisim.py. No temporal "
    "plan is executed (no temporal executor is available to this check); the temporal part is a structural comparison made "
    "semantic per time class."
)
RULE = (
    "cases = recipes from vk.gen.problem (bounded int/real types, object fluents, hierarchical types, quantified / conditional / "
    "forall constructs) extended by vk.gen.iofrag with adversarial identifiers (ANML keywords, case variants, leading digits, "
    "symbols, names equal to mangled forms), nested non-commutative arithmetic, Real constants with finite non-dyadic decimal "
    "expansions (1/10, 1/5, 3/10, 7/20: every other case, in initial values, effect values, conditions, durations, type bounds; "
    "a planted counter that is raised / lowered by such a step under a guard on a multiple of it; values compared exactly as "
    "Fractions, also along two lock-step walks of up to 6 state-changing steps), durative actions with all duration-interval "
    "forms, conditions on points / open / closed / half-open intervals incl. intermediate time points, effects at start / end / "
    "intermediate points, timed effects, timed goals; plus the ANML files of the repository (parsed, written, re-parsed). One "
    "evaluation = one judged comparison. distinct_nontrivial = distinct problems with >= 1 durative action or >= 1 renamed item "
    "on which the product judged >= 1 applicable, state-changing (pseudo) transition. The case index stratifies variant, duration "
    "form, condition-interval form, timed effects / goals (the ANML reader costs seconds per text, the quick tier runs ~32 texts). "
    "Problems for which the writer emits a name that is no ANML identifier are property C38's subject and are not judged "
    "(counter rejected-by-C38-defect:invalid-identifier)."
)
ASSUMPTIONS = [
    "vk/ref/seqsem.py + vk/ref/bisim.py implement DESIGN 3.2 / 3.5 faithfully; accessors of the model classes do not lie",
    "don't-care classes of the reference semantics are excluded; state invariants are outside the generated fragment",
]
SHARD_TIMEOUT = {"quick": 900, "thorough": 5400}
# The ANML reader costs 0.5 - 3 CPU-seconds per text of 20-30 lines (nested pyparsing infix_notation grammars): the quick tier can
# afford ~32 texts; vk.gen.iofrag.gen_anml_case stratifies them by case index so that every class is still covered.
BOUNDS = {
    "quick": dict(n=32, shards=4, depth=2, max_states=8, max_inst=10, walks=2, walk_len=6, read_timeout=30, files=("basic.anml", "durative_goals.anml", "tils.anml")),
    "thorough": dict(n=1600, shards=16, depth=3, max_states=40, max_inst=24, walks=3, walk_len=8, read_timeout=60, files=None),
}
ANML_DIR = os.path.join(_env.REPO, "unified_planning", "test", "anml")


def plan(tier, seed):
    b = BOUNDS[tier]
    return simple_plan(PROPERTY, tier, seed, b["n"], b["n"], shards_quick=b["shards"], shards_thorough=BOUNDS["thorough"]["shards"])


def run_shard(spec, res):
    for key in spec["cases"]:
        run_case(key, spec["tier"], res)
    if spec["shard"] == 0:
        run_files(spec["tier"], res)
    elif spec["tier"] == "thorough" and spec["shard"] == 1:
        run_files(spec["tier"], res, second_half=True)


def replay(witness, res):
    if witness.get("file"):
        run_files(witness.get("tier", "quick"), res, only=witness["file"])
    else:
        run_case(witness["case_key"], witness.get("tier", "quick"), res)


def run_case(key, tier, res):
    b = BOUNDS[tier]
    res.count("tier:" + tier)
    rng = rng_for(key)
    rec, info = iofrag.gen_anml_case(rng, int(key.rsplit(":", 1)[1]))
    explicit_env = rng.random() < 0.1
    e = _env.fresh_env()
    try:
        pb, ctx = io_rt.instantiate(rec, e)
    except io_rt.UPException:
        res.count("rejected_at_build")
        return
    check_problem(pb, rec, info, {"case_key": key, "tier": tier, "recipe": rec, "info": info}, b, res, explicit_env)


def _renamed(problem, names):
    n = 0
    items = list(problem.user_types) + list(problem.fluents) + list(problem.actions) + list(problem.all_objects)
    for a in problem.actions:
        items += list(a.parameters)
    for it in items:
        if it in names and names[it] != it.name:
            n += 1
    return n


def check_problem(pb, rec, info, wbase, b, res, explicit_env=False):
    from unified_planning.exceptions import ANMLSyntaxError
    from unified_planning.model import DurativeAction

    def viol(mech, summary, **w):
        res.violation(mech, summary, {**wbase, **w})

    res.count("variant:" + str(info.get("variant")))
    res.mon()
    names, wout = io_rt.write_anml(pb)
    res.case()
    if not wout.ok:
        ex = wout.exc
        if isinstance(ex, io_rt.DOCUMENTED_REJECTIONS):
            res.count("rejected_by_writer:" + type(ex).__name__)
            return
        viol("writer-raises:" + io_rt.exc_class(ex) + ":" + io_rt.origin(ex, "anml_writer.py"), f"ANMLWriter.get_problem raised {ex!r}")
        return
    text = wout.value
    bad = io_rt.anml_invalid_identifiers(names)
    if bad:
        # the writer chose a name that is no ANML identifier (e.g. `a:b`, `x-y`: io/anml_writer.py `_is_valid_anml_name` is not
        # anchored) - that is property C38's subject ("names ... are valid identifiers of the target language") and reported
        # there; the text is not ANML, so C19 has nothing to judge
        res.count("rejected-by-C38-defect:invalid-identifier")
        return
    tags = io_rt.anml_problem_tags(pb, names)
    for t in tags:
        res.count("tag:" + t)
    sfx = ("[" + io_rt.anml_primary_tag(tags) + "]") if tags else ""
    res.mon()
    rout = io_rt.read_anml(text, _env.fresh_env(), explicit_env, timeout=b.get("read_timeout", 20))
    res.case()
    res.count("read_attempts")
    if explicit_env:
        res.count("read_with_explicit_environment")
    if not rout.ok:
        ex = rout.exc
        if isinstance(ex, io_rt.CallTimeout):
            res.count("skipped_reader_timeout")
            return
        if isinstance(ex, io_rt.UPConflictingEffectsException):
            # two effects on one ground fluent whose conditions are non-constant tautologies in the original (accepted by the
            # model's syntactic conflict check) come back as `when true {..}`, i.e. unconditional, and the model's own
            # documented conflict check refuses them: the original action is inapplicable wherever the values differ -
            # a degenerate input, counted, not judged (same class as in C18)
            res.count("rejected_by_reader:UPConflictingEffectsException")
            return
        if isinstance(ex, io_rt.UPUnsupportedProblemTypeError):
            # the reader documents constructs it does not support, but here the text is the library's own writer's output for a
            # problem of the ANML fragment: the round trip fails (never observed on the unchanged tree for the generated grammar)
            res.count("rejected_by_reader:UPUnsupportedProblemTypeError")
            viol(f"reader-rejects-writer-output:{io_rt.exc_class(ex)}{sfx}", f"ANMLReader refused the writer's output: {ex!r}", anml=text)
            return
        if explicit_env and "environment" in str(ex):
            # one root cause (ANMLReader(env) builds fluents / objects / actions / variables in the global environment),
            # whichever assertion trips first
            mech = f"reader-raises:{type(ex).__name__}:explicit-environment"
        elif sfx:  # one string per known root cause, whatever token the parser tripped over
            mech = f"reader-raises:{type(ex).__name__}[{io_rt.anml_failure_tag(ex, tags)}]"
        else:
            mech = f"reader-raises:{io_rt.exc_class(ex)}"
        viol(mech, f"ANMLReader.parse_problem_string raised {ex!r} on the writer's output", anml=text, explicit_env=explicit_env)
        if explicit_env and "environment" in str(ex):
            rout = io_rt.read_anml(text, _env.fresh_env(), False)
            if not rout.ok:
                return
        else:
            return
    pb2 = rout.value
    res.count("read_ok")

    def name_of(item):
        try:
            return names[item]
        except KeyError:
            raise bisim.Mismatch("writer-name-missing", f"the writer never named {type(item).__name__} {getattr(item, 'name', item)!r}")

    renamed = _renamed(pb, names)
    durative = any(isinstance(a, DurativeAction) for a in pb.actions)
    try:
        st, corr = bisim.bisimulate(pb, pb2, bisim.FnNameMap(name_of), depth=b["depth"], max_states=b["max_states"], max_inst=b["max_inst"], case_sensitive=True, walks=b.get("walks", 0), walk_len=b.get("walk_len", 0))
    except bisim.Mismatch as m:
        res.mon()
        res.case()
        viol(m.mechanism, m.summary, anml=text, text_tags=tags, **m.details)  # the text was read: its tags caused nothing
        return
    except Unsupported:
        res.count("skipped_unsupported_by_oracle")
        return
    res.mon(st.judged)
    res.case(st.judged)
    for k, v in st.counters.items():
        res.count(k, v)
    res.count("bisimulated")
    if st.nontrivial:
        res.count("bisimulated_with_changes")
        if durative or renamed:
            res.nt(h(rec))
    if st.judged:
        # feature classes of problems whose product was judged (applicability of every pseudo transition, durations, goal
        # status in every reached state pair); distinct_nontrivial above additionally asks for a state-changing transition
        if renamed:
            res.count("class:renamed-items")
        if durative:
            res.count("class:durative")
            forms = set()
            for a in pb.actions:
                if isinstance(a, DurativeAction):
                    d = a.duration
                    forms.add("duration:" + ("fixed" if d.lower == d.upper and not d.is_left_open() and not d.is_right_open() else ("L(" if d.is_left_open() else "L[") + ("R)" if d.is_right_open() else "R]")))
                    for iv in a.conditions:
                        if iv.lower == iv.upper:
                            forms.add("cond:point")
                        else:
                            forms.add("cond:" + ("(" if iv.is_left_open() else "[") + (")" if iv.is_right_open() else "]"))
                        if iv.lower.delay != 0 or iv.upper.delay != 0:
                            forms.add("cond:intermediate")
                    for t in a.effects:
                        forms.add("effect:intermediate" if t.delay != 0 else ("effect:start" if t.is_from_start() else "effect:end"))
            for f in forms:
                res.count("class:" + f)
        if pb.timed_effects:
            res.count("class:timed-effects")
        if pb.timed_goals:
            res.count("class:timed-goals")
        if "recipe" in wbase:
            nested = iofrag.nested_noncommutative(rec)
            if "minus" in nested:
                res.count("class:nested-minus")
            if "div" in nested:
                res.count("class:nested-div")
            if any(f["type"] != "bool" and f["type"][0] in ("int", "real") and (f["type"][1] is not None or f["type"][2] is not None) for f in rec["fluents"]):
                res.count("class:bounded-types")
            if any(f["type"] != "bool" and f["type"][0] == "user" for f in rec["fluents"]):
                res.count("class:object-fluents")
            if iofrag.has_non_dyadic_decimals(rec):
                res.count("class:non-dyadic-decimal-constants")
                if st.counters.get("state-pairs-with-non-dyadic-decimal-values"):
                    # such a constant made it into a judged state (initial value, or added / assigned by an effect)
                    res.count("class:non-dyadic-decimal-values-in-states")
        res.sample({"problem": rec if "recipe" in wbase else wbase.get("file"), "renamed_items": renamed, "durative": durative, "judged": st.judged, "state_pairs": st.pairs, "verdict": "equivalent within bounds"})


def run_files(tier, res, only=None, second_half=False):
    b = dict(BOUNDS[tier], depth=2, max_states=6 if tier == "quick" else 12, max_inst=20)
    files = sorted(glob.glob(os.path.join(ANML_DIR, "*.anml")))
    if only is None:
        if b.get("files"):
            files = [f for f in files if os.path.basename(f) in b["files"]]
        else:  # thorough: the corpus is split over two shards (parsing the larger files costs 10-25 CPU-seconds each)
            files = files[len(files) // 2 :] if second_half else files[: len(files) // 2]
    for f in files:
        rel = os.path.basename(f)
        if only and rel != only:
            continue
        with open(f, encoding="utf-8-sig") as fh:
            text = fh.read()
        res.count("files_tried")
        first = io_rt.read_anml(text, _env.fresh_env(), False, timeout=120)
        if not first.ok:
            res.count("files_not_parsed:" + type(first.exc).__name__)
            continue
        pb = first.value
        try:
            if len(seqsem.ground_fluents(pb)) > 400 or pb.state_invariants:
                res.count("files_skipped_too_large")
                continue
        except Unsupported:
            res.count("files_skipped_unsupported")
            continue
        before = res.counters.get("bisimulated", 0)
        try:
            check_problem(pb, {"file": rel}, {"variant": "file"}, {"file": rel, "tier": tier}, dict(b, read_timeout=120), res)
        except Unsupported:
            res.count("files_skipped_unsupported")
        if res.counters.get("bisimulated", 0) > before:
            res.count("files_bisimulated")


# Coverage demanded from a run. The ANML reader needs 0.5 - 3 CPU-seconds per text, so the quick tier can afford ~32 generated
# texts: it demands every *family* of classes (a (label, counters, minimum) row sums the listed counters); the thorough tier
# demands every single form.
DUR_IV = ["class:duration:L[R]", "class:duration:L(R)", "class:duration:L(R]", "class:duration:L[R)"]
COND_IV = ["class:cond:()", "class:cond:[]", "class:cond:(]", "class:cond:[)"]
REQUIRED = [
    ("renamed items", ["class:renamed-items"], 5),
    ("durative actions", ["class:durative"], 8),
    ("fixed durations", ["class:duration:fixed"], 2),
    ("duration intervals (closed / open / half-open)", DUR_IV, 4),
    ("conditions at time points", ["class:cond:point"], 3),
    ("conditions over intervals (open / closed / half-open)", COND_IV, 4),
    ("intermediate time points (start+d / end-d) in conditions or effects", ["class:cond:intermediate", "class:effect:intermediate"], 3),
    ("effects at start", ["class:effect:start"], 2),
    ("effects at end", ["class:effect:end"], 3),
    ("timed effects", ["class:timed-effects"], 3),
    ("timed goals", ["class:timed-goals"], 1),
    ("nested non-commutative arithmetic", ["class:nested-minus", "class:nested-div"], 2),
    ("bounded numeric types", ["class:bounded-types"], 3),
    ("Real constants with finite non-dyadic decimal expansions (1/10, 3/10, 7/20 ..)", ["class:non-dyadic-decimal-constants"], 6),
    ("problems where such constants reach judged states (initial values / effect values)", ["class:non-dyadic-decimal-values-in-states"], 4),
    ("lock-step walk steps beyond the breadth-first depth (accumulated effects)", ["walk-steps-beyond-depth"], 10),
    ("conditional effects applied", ["feature:conditional"], 12),
    ("forall effects applied", ["feature:forall"], 3),
    ("durations compared", ["durations-compared"], 30),
    ("problems with a judged state-changing transition", ["bisimulated_with_changes"], 8),
    ("repository ANML files round-tripped", ["files_bisimulated"], 3),
]
REQUIRED_THOROUGH = (
    [(k, [k], 20) for k in DUR_IV + COND_IV + ["class:cond:intermediate", "class:effect:intermediate", "class:nested-minus", "class:nested-div", "class:object-fluents", "class:timed-goals"]]
    + [(lab, keys, need * 20) for lab, keys, need in REQUIRED if not keys[0].startswith("files")]
    + [("repository ANML files round-tripped", ["files_bisimulated"], 10)]
)


def thresholds(m):
    c = m["counters"]
    thorough = bool(c.get("tier:thorough"))
    out = []
    for lab, keys, need in REQUIRED_THOROUGH if thorough else REQUIRED:
        got = sum(c.get(k, 0) for k in keys)
        if got < need:
            out.append(f"fewer than {need} observations of {lab} ({got})")
    if len(m["nontrivial"]) < (8 if not thorough else 400):
        out.append(f"too few distinct non-trivial problems ({len(m['nontrivial'])})")
    att = c.get("read_attempts", 0)
    if att and c.get("rejected_by_reader:UPUnsupportedProblemTypeError", 0) * 2 > att:
        out.append("more than half of the written texts were rejected by the reader as unsupported")
    return out

"""C27 - deordering a valid sequential plan keeps every linearisation valid.

Directed experiment: every valid plan (bounded length, own exhaustive search over the reference semantics) of generated
problems is deordered by the real SequentialPlan.convert_to(PARTIAL_ORDER_PLAN); every topological ordering produced by
the real PartialOrderPlan.all_sequential_plans() is executed under vk.ref.seqsem and must be valid and end in the same
state; the partial order (own transitive closure of get_adjacency_list) must keep the original order of every pair
where one instance writes a ground fluent (reference write set) that the other reads or writes (reference read set)."""
from vk import env as _env  # noqa: F401
from vk.core import rng_for, simple_plan, h
from vk.gen.problem import gen_problem
from vk.recipe import instantiate_problem
from vk.ref import seqsem
from vk.ref.bfs_cm import Space, plans_upto
from vk.ref.evalx import Unsupported, const_value, domain_of
from vk.ref.rwsets_cm import rw_sets
from vk.ref.seqsem import OKAY, INAPP, DONTCARE

PROPERTY = "C27"
LEVEL = "exploration"
TECHNIQUE = (
    "runtime monitoring: every linearisation of every deordered plan is executed under a reference semantics; the partial "
    "order is compared with reference read/write sets"
)
LEVEL_TEXT = (
    "All valid plans up to a length bound (own exhaustive search) of generated problems are deordered by the real code; all "
    "linearisations (cap 5000) of each partial-order plan are executed by an independent reference semantics and the order "
    "relation is compared with independently computed read/write sets. Held on the executions observed only."
)
LEVEL_NOTE = (
    "Trusted: CPython, vk/ref/seqsem.py + evalx.py + rwsets_cm.py + bfs_cm.py, read-only accessors of the model and plan "
    "classes. A missing read-after-write order is only reported when varying the written fluent changes the reader's outcome "
    "in a sampled state (a purely syntactic read that simplification may legitimately remove is a counted don't-care)."
)
RULE = (
    "cases = generated C01-grammar problems (conditional / forall / numeric effects, quantified conditions, optional state "
    "invariants; goals dropped in 2/3 of the cases so that every executable sequence is a valid plan) plus two directed families "
    "(forall effects whose condition / value read a fluent of the quantified variable next to writers of those ground fluents; "
    "fluents with a bounded-int parameter addressed with arithmetic over an int action parameter next to pure readers); per problem all valid "
    "plans of length 2..k (k=4 quick, 5 thorough; DFS over ground instances under vk.ref.seqsem, capped per problem, a "
    "deterministic sample when more) are deordered. evaluations = judged linearisations + judged ordered pairs. "
    "distinct_nontrivial = distinct (problem, plan) whose partial order has >= 2 linearisations."
)
ASSUMPTIONS = [
    "oracle vk/ref/seqsem.py implements the documented sequential semantics (DESIGN 3.2); accessors do not lie",
    "plans contain pairwise distinct ActionInstance objects (repeated ground instances are separate objects)",
    "linearisations whose reference execution hits a don't-care class (undefined reads etc.) are not judged",
]
SHARD_TIMEOUT = {"quick": 600, "thorough": 5400}

PROFILE = dict(undefined_init=0.04, invariants=0.12, interpreted_functions=0.0, int_params=0.15, max_actions=3)
BOUNDS = {
    "quick": dict(n=400, k=4, plans=14, node_cap=2500, lin_cap=5000),
    "thorough": dict(n=9000, k=5, plans=30, node_cap=12000, lin_cap=5000),
}


# directed families (own key range, indices >= DIRECTED_BASE: the generated C01-grammar cases do not depend on them)
DIRECTED_BASE = 1000000
N_DIRECTED = {"quick": 120, "thorough": 900}
FAMILIES = ["forall-dependency", "int-indexed"]


def plan(tier, seed):
    from vk.core import chunk

    b = BOUNDS[tier]
    specs = simple_plan(PROPERTY, tier, seed, b["n"], b["n"], shards_quick=8, shards_thorough=16)
    extra = [f"{PROPERTY}:{seed}:{DIRECTED_BASE + j}" for j in range(N_DIRECTED[tier])]
    for spec, ch in zip(specs, chunk(extra, len(specs))):
        spec["cases"] = spec["cases"] + ch
    return specs


def run_shard(spec, res):
    for key in spec["cases"]:
        try:
            run_case(key, spec["tier"], res)
        except Unsupported:
            res.count("skipped_unsupported_by_oracle")


def replay(witness, res):
    run_case(witness["case_key"], witness.get("tier", "quick"), res, only_plan=witness.get("plan"))


def _build(key):
    from unified_planning.exceptions import UPException

    rng = rng_for(key)
    idx = int(key.rsplit(":", 1)[1])
    if idx >= DIRECTED_BASE:
        fam = FAMILIES[(idx - DIRECTED_BASE) % len(FAMILIES)]
        rec = _forall_dependency_family(rng) if fam == "forall-dependency" else _int_indexed_family(rng)
        feats = ["directed-" + fam + "-family"]
        e = _env.fresh_env()
        try:
            pb, _ = instantiate_problem(rec, e)
        except UPException:
            return rec, feats, None, rng
        return rec, feats, pb, rng
    if rng.random() < 0.07:
        rec, feats = _invariant_family(rng), ["relational-invariant", "directed-invariant-family"]
    else:
        rec, feats = gen_problem(rng, PROFILE)
    if rng.random() < 0.66:
        rec["goals"] = []
    if rng.random() < 0.12:
        inv = _relational_invariant(rec, rng)
        if inv is not None:
            rec["invariants"] = list(rec.get("invariants", [])) + [inv]
            feats = sorted(set(feats) | {"relational-invariant"})
    e = _env.fresh_env()
    try:
        pb, _ = instantiate_problem(rec, e)
    except UPException:
        return rec, feats, None, rng
    return rec, feats, pb, rng


def _eff(kind, fluent, value, cond=None, forall=None):
    return {"kind": kind, "fluent": fluent, "value": value, "cond": cond, "forall": forall or []}


def _forall_dependency_family(rng):
    """Directed family: forall effects whose condition and / or value read a fluent *of the quantified variable*
    (`forall v. when armed(v): done(v) := true`, `forall v. copy(v) := level(v) + 1`), together with ordinary actions that
    write ground instances of those fluents (arm(o), fill(o), ...).  No goals: every executable sequence is a valid plan."""
    T = ["user", "T0"]
    no = rng.choice([2, 2, 3])
    objs = [[f"o{i}", T] for i in range(no)]
    V = ["v", T]
    v = ["v", "v", T]
    fl = [
        {"name": "armed", "type": "bool", "sig": [["x", T]], "default": ["b", False]},
        {"name": "done", "type": "bool", "sig": [["x", T]], "default": ["b", False]},
        {"name": "level", "type": ["int", 0, 6], "sig": [["x", T]], "default": ["i", 1]},
        {"name": "copy", "type": ["int", 0, 20], "sig": [["x", T]], "default": ["i", 0]},
        {"name": "flag", "type": "bool", "sig": [], "default": ["b", rng.random() < 0.5]},
    ]
    init = []
    for o, _ in objs:
        if rng.random() < 0.3:
            init.append([["f", "armed", ["o", o]], ["b", True]])
        if rng.random() < 0.4:
            init.append([["f", "level", ["o", o]], ["i", rng.choice([0, 2, 3])]])
    y = ["p", "y"]
    writers = [
        {"name": "arm", "params": [["y", T]], "pre": [], "effects": [_eff("assign", ["f", "armed", y], ["b", True])]},
        {"name": "disarm", "params": [["y", T]], "pre": [["f", "armed", y]] if rng.random() < 0.5 else [], "effects": [_eff("assign", ["f", "armed", y], ["b", False])]},
        {"name": "fill", "params": [["y", T]], "pre": [["lt", ["f", "level", y], ["i", 5]]], "effects": [_eff(rng.choice(["inc", "assign"]), ["f", "level", y], ["i", rng.choice([1, 2])])]},
        {"name": "drain", "params": [["y", T]], "pre": [], "effects": [_eff("assign", ["f", "level", y], ["i", 0])]},
        {"name": "toggle", "params": [], "pre": [], "effects": [_eff("assign", ["f", "flag"], ["not", ["f", "flag"]])]},
    ]
    conds = [
        ["f", "armed", v],
        ["not", ["f", "armed", v]],
        ["gt", ["f", "level", v], ["i", rng.choice([0, 1])]],
        ["and", ["f", "armed", v], ["f", "flag"]],
        ["or", ["f", "armed", v], ["ge", ["f", "level", v], ["i", 3]]],
    ]
    vals = [["f", "level", v], ["plus", ["f", "level", v], ["i", 1]], ["times", ["f", "level", v], ["i", 2]], ["i", rng.choice([1, 4])]]
    readers = []
    for i in range(rng.choice([1, 2, 2])):
        shape = rng.choice(["cond", "cond", "value", "value", "both", "param"])
        if shape == "cond":
            eff = _eff("assign", ["f", "done", v], ["b", rng.random() < 0.8], rng.choice(conds), [V])
        elif shape == "value":
            eff = _eff(rng.choice(["assign", "assign", "inc"]), ["f", "copy", v], rng.choice(vals[:3]), None, [V])
        elif shape == "both":
            eff = _eff("assign", ["f", "copy", v], rng.choice(vals), rng.choice(conds), [V])
        else:
            eff = _eff("assign", ["f", "done", v], ["b", True], ["and", ["f", "armed", v], ["not", ["eq", v, ["p", "z"]]]], [V])
        a = {"name": f"sweep{i}", "params": [["z", T]] if shape == "param" else [], "pre": [], "effects": [eff]}
        if rng.random() < 0.3:
            a["effects"].append(_eff("assign", ["f", "flag"], ["b", rng.random() < 0.5]))
        readers.append(a)
    acts = rng.sample(writers, rng.choice([2, 2, 3])) + readers
    return {"name": "foralldep", "types": [["T0", None]], "objects": objs, "fluents": fl, "actions": acts, "init": init, "goals": [], "invariants": []}


def _int_indexed_family(rng):
    """Directed family: fluents with a bounded-int parameter whose effects / conditions address them with arithmetic over an
    int action parameter (`cell(i + 1) := true`, `load(i + 1) := 2 * load(i)`, precondition `cell(i - 1)`), together with pure
    readers of the same ground fluents (`probe(i)`: precondition cell(i); `tally(i)`: total += load(i))."""
    n = rng.choice([2, 3])  # indexes 0..n
    I = ["int", 0, n]
    lo = ["int", 0, n - 1]
    hi = ["int", 1, n]
    i = ["p", "i"]
    ip, im = ["plus", i, ["i", 1]], ["minus", i, ["i", 1]]
    fl = [
        {"name": "cell", "type": "bool", "sig": [["k", I]], "default": ["b", False]},
        {"name": "load", "type": ["int", 0, 40], "sig": [["k", I]], "default": ["i", 1]},
        {"name": "total", "type": ["int", 0, 400], "sig": [], "default": ["i", 0]},
        {"name": "seen", "type": "bool", "sig": [], "default": ["b", False]},
    ]
    init = [[["f", "cell", ["i", 0]], ["b", True]]]
    for k in range(1, n + 1):
        if rng.random() < 0.3:
            init.append([["f", "cell", ["i", k]], ["b", True]])
        if rng.random() < 0.4:
            init.append([["f", "load", ["i", k]], ["i", rng.choice([0, 2, 3])]])
    pool = [
        {"name": "shift", "params": [["i", lo]], "pre": [["f", "cell", i]], "effects": [_eff("assign", ["f", "cell", i], ["b", False]), _eff("assign", ["f", "cell", ip], ["b", True])]},
        {"name": "mark", "params": [["i", lo]], "pre": [], "effects": [_eff("assign", ["f", "cell", ip], ["b", True])]},
        {"name": "back", "params": [["i", hi]], "pre": [["f", "cell", i]] if rng.random() < 0.5 else [], "effects": [_eff("assign", ["f", "cell", im], ["b", rng.random() < 0.7])]},
        {"name": "pour", "params": [["i", lo]], "pre": [], "effects": [_eff(rng.choice(["assign", "inc"]), ["f", "load", ip], rng.choice([["times", ["i", 2], ["f", "load", i]], ["f", "load", i], ["plus", ["f", "load", i], ["i", 1]]]))]},
        {"name": "reset", "params": [["i", hi]], "pre": [], "effects": [_eff("assign", ["f", "load", im], ["i", 0], rng.choice([None, ["f", "cell", i]]))]},
    ]
    readers = [
        {"name": "probe", "params": [["i", I]], "pre": [["f", "cell", i]], "effects": [_eff("assign", ["f", "seen"], ["b", True])]},
        {"name": "tally", "params": [["i", I]], "pre": [], "effects": [_eff("inc", ["f", "total"], ["f", "load", i])]},
        {"name": "peek", "params": [["i", lo]], "pre": [["not", ["f", "cell", ip]]], "effects": [_eff("assign", ["f", "seen"], ["b", False])]},
        {"name": "note", "params": [["i", hi]], "pre": [], "effects": [_eff("assign", ["f", "total"], ["f", "load", im], ["f", "cell", i])]},
    ]
    acts = rng.sample(pool, 2) + rng.sample(readers, rng.choice([1, 2]))
    return {"name": "intidx", "types": [["T0", None]], "objects": [["o0", ["user", "T0"]]], "fluents": fl, "actions": acts, "init": init, "goals": [], "invariants": []}


def _invariant_family(rng):
    """Directed family: independent single-fluent actions (inc / dec / set) under a state invariant relating two fluents."""
    nx, nb = rng.choice([2, 2, 3]), rng.choice([0, 1, 2])
    fl, init, acts = [], [], []
    for i in range(nx):
        fl.append({"name": f"x{i}", "type": ["int", 0, 4], "sig": [], "default": None})
        init.append([["f", f"x{i}"], ["i", rng.choice([0, 1, 1, 2])]])
        for kind, nm in (("inc", "up"), ("dec", "down")):
            if rng.random() < 0.75:
                pre = [["lt", ["f", f"x{i}"], ["i", 3]]] if kind == "inc" and rng.random() < 0.3 else []
                acts.append({"name": f"{nm}{i}", "params": [], "pre": pre, "effects": [{"kind": kind, "fluent": ["f", f"x{i}"], "value": ["i", 1], "cond": None, "forall": []}]})
    for i in range(nb):
        fl.append({"name": f"p{i}", "type": "bool", "sig": [], "default": None})
        init.append([["f", f"p{i}"], ["b", rng.random() < 0.5]])
        for val in (True, False):
            if rng.random() < 0.75:
                acts.append({"name": f"set{i}{'t' if val else 'f'}", "params": [], "pre": [], "effects": [{"kind": "assign", "fluent": ["f", f"p{i}"], "value": ["b", val], "cond": None, "forall": []}]})
    if not acts:
        acts.append({"name": "up0", "params": [], "pre": [], "effects": [{"kind": "inc", "fluent": ["f", "x0"], "value": ["i", 1], "cond": None, "forall": []}]})
    rec = {"name": "invfam", "types": [["T0", None]], "objects": [["o0", ["user", "T0"]]], "fluents": fl, "actions": acts[:5], "init": init, "goals": [], "invariants": []}
    inv = _relational_invariant(rec, rng)
    rec["invariants"] = [inv] if inv is not None else []
    if nb and rng.random() < 0.5:
        rec["goals"] = [["f", "p0"]]
    return rec


def _relational_invariant(rec, rng):
    """A state invariant relating two different ground fluents that holds in the initial state (x <= y + c, p -> q)."""
    from fractions import Fraction

    known = {}
    for fe, v in rec["init"]:
        known[str(fe)] = (fe, v)
    for f in rec["fluents"]:
        if f["default"] is not None and not f["sig"]:
            known.setdefault(str(["f", f["name"]]), (["f", f["name"]], f["default"]))
    nums = sorted((x for x in known.values() if x[1][0] in ("i", "r")), key=str)
    bools = sorted((x for x in known.values() if x[1][0] == "b"), key=str)
    if len(nums) >= 2 and (rng.random() < 0.7 or len(bools) < 2):
        (fx, vx), (fy, vy) = rng.sample(nums, 2)
        c = Fraction(vx[1]) - Fraction(vy[1]) + rng.choice([0, 0, 1])
        return ["le", fx, ["plus", fy, ["r", str(c)]]]
    if len(bools) >= 2:
        (fp, vp), (fq, vq) = rng.sample(bools, 2)
        lp = fp if vp[1] else ["not", fp]
        lq = fq if vq[1] else ["not", fq]
        return rng.choice([["or", ["not", lp], lq], ["or", lp, lq], ["or", ["not", lq], lp]])
    return None


def _closure(nodes, adj):
    """own transitive closure: dict node-id -> set of reachable node-ids"""
    reach = {}

    def go(u):
        if u in reach:
            return reach[u]
        reach[u] = set()
        acc = set()
        for v in adj.get(u, ()):
            acc.add(v)
            acc |= go(v)
        reach[u] = acc
        return acc

    for n in nodes:
        go(n)
    return reach


def _alt_values(pb, key, cur):
    try:
        fl = pb.fluent(key[0])
    except Exception:
        return []
    d = domain_of(pb, fl.type, int_cap=8)
    if d is None:
        lb, ub = fl.type.lower_bound, fl.type.upper_bound
        d = [v for v in (-2, -1, 0, 1, 2, 3, 5) if (lb is None or v >= lb) and (ub is None or v <= ub)]
    return [v for v in d if v != cur]


def _relevant(pb, sample_states, reader, g):
    """Does the value of ground fluent g change the outcome of `reader` in some sampled state?"""
    a, args = reader
    for s in sample_states:
        if g not in s:
            continue
        r1 = seqsem.succ(pb, s, a, args)
        if r1.status == DONTCARE:
            continue
        for v in _alt_values(pb, g, s[g]):
            s2 = dict(s)
            s2[g] = v
            r2 = seqsem.succ(pb, s2, a, args)
            if r2.status == DONTCARE:
                continue
            if r1.status != r2.status:
                return True
            if r1.status == OKAY:
                k1 = {k: v_ for k, v_ in r1.state.items() if k != g}
                k2 = {k: v_ for k, v_ in r2.state.items() if k != g}
                if k1 != k2:
                    return True
    return False


def run_case(key, tier, res, only_plan=None):
    b = BOUNDS[tier]
    rec, feats, pb, rng = _build(key)
    if pb is None:
        res.count("rejected_at_build")
        return
    # a problem whose initial state violates a bounded type or a state invariant is not a legal problem (the simulator and the
    # validator reject it with the documented UPProblemDefinitionError): "valid plan" is meaningless there (same rule as C03)
    rs0 = seqsem.initial_state(pb)
    if not seqsem.bounds_ok(pb, rs0)[0] or (pb.state_invariants and seqsem.invariants_status(pb, rs0) is not True):
        res.count("rejected_initial_state_illegal_or_dontcare")
        return
    space = Space(pb)
    if not space.insts or len(space.insts) > 40:
        res.count("skipped_no_or_too_many_instances")
        return
    seqs, exhausted = plans_upto(space, b["k"], node_cap=b["node_cap"], goal_only=True, distinct=False, min_len=2)
    if not exhausted:
        res.count("plan_enumeration_capped")
    if not seqs:
        res.count("no_valid_plan")
        return
    # mostly plans without repeated ground instances, some with repetitions (those are distinct ActionInstance objects)
    if len(seqs) > b["plans"]:
        dist = [s for s in seqs if len(set(s)) == len(s)]
        rep = [s for s in seqs if len(set(s)) < len(s)]
        n_rep = min(len(rep), max(1, b["plans"] // 4))
        n_dist = min(len(dist), b["plans"] - n_rep)
        dist.sort(key=lambda s: -len(s))
        # longest distinct plans first (more linearisations), the rest sampled
        head = dist[: n_dist // 2]
        tail = rng.sample(dist[n_dist // 2 :], n_dist - len(head)) if len(dist) > n_dist else dist[n_dist // 2 : n_dist]
        seqs = head + tail + rng.sample(rep, min(len(rep), b["plans"] - len(head) - len(tail)))
    pid = h(rec)
    rw = {}
    for seq in seqs:
        steps = space.steps(seq)
        if only_plan is not None and steps != only_plan:
            continue
        judge_plan(pb, rec, feats, space, seq, steps, rw, pid, key, tier, b, res)


def judge_plan(pb, rec, feats, space, seq, steps, rw, pid, key, tier, b, res):
    from unified_planning.plans import ActionInstance, SequentialPlan, PlanKind
    from unified_planning.exceptions import UPUsageError, UPException

    def viol(mech, summary, **w):
        res.violation(mech, summary, {"case_key": key, "tier": tier, "recipe": rec, "plan": steps, "repeated_ground_instance": len(set(seq)) < len(seq), **w})

    st, path, _, _ = space.run(seq)
    assert st == OKAY
    final = path[-1]
    ais = [ActionInstance(space.insts[ii][0], seqsem.param_exprs(pb, *space.insts[ii])) for ii in seq]
    pos = {id(ai): i for i, ai in enumerate(ais)}
    sp = SequentialPlan(ais, pb.environment)
    repeated = len(set(seq)) < len(seq)
    tag = ""  # one mechanism string per root cause; `repeated` is recorded in the witness instead
    try:
        po = sp.convert_to(PlanKind.PARTIAL_ORDER_PLAN, pb)
        adj = po.get_adjacency_list
    except UPUsageError:
        res.count("rejected_nested_fluents")
        return
    except _env.INTERNAL_EXC as e:
        viol(f"convert-raises:{type(e).__name__}{tag}", f"convert_to(PARTIAL_ORDER_PLAN) raised {e!r} on plan {steps}")
        return
    res.count("plans_deordered")
    if repeated:
        res.count("plans_with_repeated_ground_instance")
    # -- structure: same nodes, edges forward in the original order -----------------------------------
    nodes = list(adj.keys())
    if sorted(pos.get(id(n), -1) for n in nodes) != list(range(len(ais))):
        viol("nodes-differ" + tag, f"partial-order plan nodes are not exactly the plan's action instances: {nodes}")
        return
    iadj = {pos[id(u)]: [pos[id(v)] for v in vs] for u, vs in adj.items()}
    for u, vs in iadj.items():
        for v in vs:
            if not u < v:
                viol("order-reversed" + tag, f"edge {steps[u]} -> {steps[v]} contradicts the original order", edge=[u, v])
                return
    reach = _closure(range(len(ais)), iadj)
    # -- linearisations ----------------------------------------------------------------------------------
    nlin = 0
    sample_states = {}
    for i in path:
        sample_states[i] = space.states[i]
    ok = True
    for lin in po.all_sequential_plans():
        nlin += 1
        if nlin > b["lin_cap"]:
            res.count("linearisation_cap_hit")
            break
        try:
            order = [pos[id(ai)] for ai in lin.actions]
        except KeyError:
            viol("linearisation-foreign-instance" + tag, "a linearisation contains an action instance that is not in the plan")
            ok = False
            break
        if sorted(order) != list(range(len(ais))):
            viol("linearisation-not-a-permutation" + tag, f"linearisation {order} is not a permutation of the plan")
            ok = False
            break
        lseq = [seq[i] for i in order]
        res.mon()
        st, lpath, fpos, reason = space.run(lseq)
        for i in lpath:
            sample_states.setdefault(i, space.states[i])
        if st == DONTCARE:
            res.count("dontcare_linearisation:" + str(reason)[:40])
            continue
        res.case()
        lsteps = space.steps(lseq)
        if st == INAPP:
            viol(
                f"linearisation-inapplicable:{reason}{tag}",
                f"original plan {steps} is valid, its linearisation {lsteps} fails at step {fpos} ({reason})",
                linearisation=lsteps,
                failing_step=fpos,
                adjacency=iadj,
            )
            ok = False
            break
        if lpath[-1] != final:
            viol(
                "linearisation-final-state-differs" + tag,
                f"linearisation {lsteps} of {steps} ends in {seqsem.show_state(space.states[lpath[-1]])}, "
                f"the plan in {seqsem.show_state(space.states[final])}",
                linearisation=lsteps,
                adjacency=iadj,
            )
            ok = False
            break
        if space.goal(lpath[-1]) is False:
            viol("linearisation-misses-goal" + tag, f"linearisation {lsteps} does not reach the goals", linearisation=lsteps)
            ok = False
            break
    if nlin >= 2:
        res.nt((pid, tuple(seq)))
        res.count("plans_with_2plus_linearisations")
    if nlin == 0:
        viol("no-linearisation" + tag, "all_sequential_plans() produced nothing")
        return
    if not ok:
        return
    # -- order relation vs reference read/write sets ------------------------------------------------------------
    sets = []
    for ii in seq:
        if ii not in rw:
            rw[ii] = rw_sets(pb, *space.insts[ii])
        sets.append(rw[ii])
    acts = {space.insts[ii][0].name: space.insts[ii][0] for ii in seq}
    for a in acts.values():
        for eff in a.effects:
            if eff.is_conditional():
                res.count("feature:conditional-effect")
            if eff.forall:
                res.count("feature:forall-effect")
            if not eff.is_assignment() or eff.fluent.fluent().type.is_int_type() or eff.fluent.fluent().type.is_real_type():
                res.count("feature:numeric-effect")
    if any(f in feats for f in ("exists", "forall")):
        res.count("feature:quantified-condition-in-problem")
    if pb.state_invariants:
        res.count("feature:state-invariants")
    samples = list(sample_states.values())
    for i in range(len(seq)):
        Ri, Wi, _ = sets[i]
        for j in range(i + 1, len(seq)):
            Rj, Wj, _ = sets[j]
            ww = Wi & Wj
            rw_ij = (Wi & Rj) - ww  # i writes, j reads
            rw_ji = (Wj & Ri) - ww  # j writes, i reads
            if not (ww or rw_ij or rw_ji):
                res.count("pairs_independent")
                continue
            res.mon()
            res.case()
            res.count("pairs_dependent")
            for (w_, r_) in ((i, j), (j, i)):
                if sets[w_][1] & sets[r_][2]["forall_reads"]:
                    res.count("pairs_dependent:write->read-through-forall-variable")
                if sets[w_][2]["arith_writes"] & (sets[r_][0] - sets[r_][1]):
                    res.count("pairs_dependent:arithmetic-target-write->pure-read")
                if sets[w_][1] & sets[r_][2]["arith_reads"]:
                    res.count("pairs_dependent:write->arithmetic-argument-read")
            if j in reach[i]:
                continue
            if ww:
                g = sorted(ww, key=str)[0]
                viol(
                    "order-missing:write-write" + tag,
                    f"{steps[i]} and {steps[j]} both write {g} but are unordered in the partial-order plan",
                    pair=[i, j],
                    fluent=g,
                    adjacency=iadj,
                )
                return
            hit = None
            for g in sorted(rw_ij, key=str):
                if _relevant(pb, samples, space.insts[seq[j]], g):
                    hit = (g, i, j)
                    break
            if hit is None:
                for g in sorted(rw_ji, key=str):
                    if _relevant(pb, samples, space.insts[seq[i]], g):
                        hit = (g, j, i)
                        break
            if hit is None:
                res.count("dontcare_unordered_read_irrelevant_on_samples")
                continue
            g, w_, r_ = hit
            where = []
            info = sets[r_][2]
            for nm in ("pre_reads", "cond_reads", "value_reads"):
                if g in info[nm]:
                    where.append(nm.split("_")[0])
            viol(
                "order-missing:read-write:" + "+".join(where) + tag,
                f"{steps[w_]} writes {g}, {steps[r_]} reads it ({'/'.join(where)}) and its outcome depends on it, "
                f"but the two are unordered in the partial-order plan",
                pair=[i, j],
                fluent=g,
                adjacency=iadj,
            )
            return
    if nlin >= 2:
        res.sample({"problem": rec, "plan": steps, "adjacency": iadj, "linearisations": nlin, "verdict": "all valid, same final state"})


REQUIRED = [
    ("plans_with_2plus_linearisations", 20),
    ("feature:conditional-effect", 20),
    ("feature:forall-effect", 10),
    ("feature:numeric-effect", 20),
    ("feature:quantified-condition-in-problem", 10),
    ("pairs_dependent", 50),
    ("pairs_independent", 50),
    ("pairs_dependent:write->read-through-forall-variable", 40),
    ("pairs_dependent:arithmetic-target-write->pure-read", 40),
    ("pairs_dependent:write->arithmetic-argument-read", 20),
]


def thresholds(m):
    c = m["counters"]
    out = []
    for k, n in REQUIRED:
        if c.get(k, 0) < n:
            out.append(f"fewer than {n} observations of class {k} ({c.get(k, 0)})")
    if len(m["nontrivial"]) < 20:
        out.append("fewer than 20 distinct plans with >= 2 linearisations")
    if c.get("plans_deordered", 0) and c.get("rejected_nested_fluents", 0) > c.get("plans_deordered", 0):
        out.append("more plans rejected (nested fluents) than deordered")
    return out

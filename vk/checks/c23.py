"""C23 — the model only stores type-correct values.

Per case one Problem (+ one instantaneous and one durative action) is built through a history of model-building calls whose
values are drawn from a pool of every type (matching and mismatching): Problem(initial_defaults=...), add_fluent(...,
default_initial_value=...), set_initial_value, add_effect/add_increase_effect/add_decrease_effect on actions, durative
action timings and problem timed effects, ActionInstance(...).  After every *accepted* call the monitor vk/mon/modeltypes.py
scans everything the model stores: every value must be compatible with its target (constants: own bounds / Boolean /
ancestor check, independent of the library's type lattice; non-constant expressions: Type.is_compatible) and every stored
initial / default value must be a constant.  After every *rejected* call the accessor-based snapshot of the model must be unchanged.

"Leave the model unchanged" is also observed through behaviour: a twin problem / twin actions (same names, same signature,
same environment) receive every call of the history except the calls that were rejected for an ill-typed value. Every other
call must have the same outcome (accepted / exception class) on the model and on the twin, and at the end both have the same
accessor snapshot. Right after a call rejected for its value, a legal edit of the same target (other admissible constant;
assignment / increase / decrease, unconditional) is issued on both, so that hidden bookkeeping left behind by the rejected
call (e.g. the conflicting-effects tables) shows up as a divergence.

ActionInstance is exercised with history: two pairs of different actions with the same name and differently typed
parameters (owned by two agents of one multi-agent problem in a third of the calls); an instance of one is followed by an
instance of its namesake with the very same actual-parameter expressions.
"""
from fractions import Fraction

from vk import env as _env  # noqa: F401
from vk.core import rng_for, simple_plan
from vk.mon import modeltypes as mt

PROPERTY = "C23"
LEVEL = "exploration"
TECHNIQUE = "runtime monitoring: post-call scan of all stored values (is_compatible / is_constant) + unchanged-on-reject snapshots + twin objects that never see the rejected calls (same outcome of all later calls, directed legal follow-up edits) over generated model-building histories"
LEVEL_TEXT = (
    "Every model-building call observed (generated histories with matching and mismatching values for Boolean, bounded and "
    "unbounded numeric, and hierarchical user-typed fluents and parameters) is followed by a scan of all values the model "
    "stores; held on the calls observed only."
)
LEVEL_NOTE = (
    "Trusted: CPython, FNode.type / is_constant / constant_value, Type bounds and .father accessors; Type.is_compatible only for "
    "non-constant expressions (for constants the monitor decides membership itself: bounds, Boolean, ancestor walk), "
    "read-only accessors fluents_defaults / initial_defaults / explicit_initial_values / initial_values / effects / "
    "timed_effects / actual_parameters. Whether a compatible value must be accepted is not judged (don't-care, counted)."
)
RULE = (
    "case = history of ~30 calls on one problem: Problem(initial_defaults) ; add_fluent for 18 fluents (Boolean, int[0,5], int, "
    "real[0,7/2], real, one-sided int[0,inf] / int[-inf,3] / real[0,inf] / real[-inf,100], user types T > S and sibling U, two parameterised) with / without default_initial_value ; then 10 random "
    "calls of set_initial_value / add_effect / add_increase_effect / add_decrease_effect (instantaneous action, durative action "
    "timing, problem timed effect) / ActionInstance. Values: Python and FNode constants of every type (inside / outside "
    "bounds, sub / super / sibling objects), fluent expressions, arithmetic / Boolean expressions, parameters, raw Fluent / "
    "Object values. evaluations = judged calls. distinct_nontrivial = distinct (call kind, target type, value type, "
    "constant?) with an incompatible value type or a non-constant value for an initial / default value. Every call rejected "
    "for its value on set_initial_value / add_*effect is followed by one legal edit of the same target (rng of its own), "
    "compared with the twin: distinct (follow-up kind, target type, rejected kind) are non-trivial too. ActionInstance: actions "
    "inst / dur and their same-named siblings with parameter types (S, T, int[1,3], int[-inf,3]) instead of (T, S, int[0,2], "
    "int[0,inf]); 75 % of the instances are followed by the sibling's instance with the same parameters."
)
ASSUMPTIONS = [
    "'type-compatible' for a constant = membership in the target type (bounds; int constants fit real targets, real constants never fit int targets; an object fits its type and its ancestors); for a non-constant expression = the library's own Type.is_compatible (overlapping numeric intervals, int->real, subtype objects)",
    "a rejection is any exception raised by the call; its class is counted, not judged",
    "acceptance of compatible values is not demanded by the statement (don't-care)",
    "'leave the model unchanged' is behavioural: the model building API is deterministic in the state of the object it is called on, so after a rejected call every later call has the same outcome as on a twin object that received the same accepted calls but never the rejected one (same environment, so environment-level caches are shared by both)",
]
SHARD_TIMEOUT = {"quick": 600, "thorough": 3600}
N = {"quick": 400, "thorough": 32000}

TYPES = {
    "bool": "bool",
    "int05": ["int", 0, 5],
    "int": ["int", None, None],
    "real0_72": ["real", "0", "7/2"],
    "real": ["real", None, None],
    "int0_": ["int", 0, None],  # bounded on one side only
    "int_3": ["int", None, 3],
    "real0_": ["real", "0", None],
    "real_100": ["real", None, "100"],
    "T": ["user", "T"],
    "S": ["user", "S"],
    "U": ["user", "U"],
}
FLUENTS = [
    ("b", "bool", []),
    ("b2", "bool", []),
    ("k", "int05", []),
    ("k2", "int05", []),
    ("n", "int", []),
    ("n2", "int", []),
    ("r", "real0_72", []),
    ("q", "real", []),
    ("h", "int0_", []),
    ("h2", "int_3", []),
    ("g", "real0_", []),
    ("g2", "real_100", []),
    ("t", "T", []),
    ("t2", "T", []),
    ("s", "S", []),
    ("u", "U", []),
    ("bp", "bool", [["x", "T"]]),
    ("kp", "int05", [["x", "S"]]),
]
PARAMS = [("pT", "T"), ("pS", "S"), ("pI", ["int", 0, 2]), ("pH", ["int", 0, None])]
# parameters of the same-named sibling actions: neither signature is a refinement of the other
PARAMS_ALT = [("pT", "S"), ("pS", "T"), ("pI", ["int", 1, 3]), ("pH", ["int", None, 3])]
# actual parameters admitted by (variant, parameter): an "all good" instance draws from these
AI_GOOD = {
    "": {
        "pT": [["obj", "oT"], ["obj", "oS"], ["e", ["o", "oS"]], ["e", ["o", "oT"]]],
        "pS": [["obj", "oS"], ["e", ["o", "oS"]]],
        "pI": [["py", 0], ["py", 1], ["py", 2]],
        "pH": [["py", 0], ["py", 1], ["py", 3], ["py", 7], ["py", 250]],
    },
    "_alt": {
        "pT": [["obj", "oS"], ["e", ["o", "oS"]]],
        "pS": [["obj", "oT"], ["obj", "oS"], ["e", ["o", "oS"]]],
        "pI": [["py", 1], ["py", 2], ["py", 3]],
        "pH": [["py", 0], ["py", 1], ["py", 3], ["py", -1], ["py", -4]],
    },
}
SIBLING = {"inst": "inst_alt", "inst_alt": "inst", "dur": "dur_alt", "dur_alt": "dur"}
NUMERIC = ("int05", "int", "real0_72", "real", "int0_", "int_3", "real0_", "real_100")

CONSTS = [
    ["py", True], ["py", False], ["py", 0], ["py", 3], ["py", 5], ["py", 7], ["py", -1], ["frac", "1/2"], ["frac", "7/2"],
    ["frac", "5"], ["float", 2.5], ["obj", "oT"], ["obj", "oS"], ["obj", "oU"], ["e", ["o", "oT"]], ["e", ["o", "oS"]],
    ["e", ["i", 4]], ["e", ["r", "3/2"]], ["e", ["b", True]], ["py", 250], ["py", -4], ["frac", "-3/2"], ["frac", "301/2"], ["e", ["i", -2]],
    ["e", ["r", "-1/4"]],
]
EXPRS = [
    ["e", ["f", "b2"]], ["e", ["f", "k2"]], ["e", ["f", "n2"]], ["e", ["f", "q"]], ["e", ["f", "t2"]], ["e", ["f", "s"]],
    ["e", ["f", "u"]], ["e", ["f", "bp", ["o", "oT"]]], ["e", ["f", "kp", ["o", "oS"]]], ["e", ["plus", ["f", "n2"], ["i", 1]]],
    ["e", ["plus", ["f", "k2"], ["i", 1]]], ["e", ["not", ["f", "b2"]]], ["e", ["times", ["f", "q"], ["i", 2]]],
    ["fluent", "b2"], ["fluent", "n2"], ["fluent", "t2"],
]
PARAM_EXPRS = [["e", ["p", "pT"]], ["e", ["p", "pS"]], ["e", ["p", "pI"]], ["e", ["p", "pH"]]]
MATCHING = {
    "bool": [["py", True], ["py", False], ["e", ["f", "b2"]], ["e", ["not", ["f", "b2"]]], ["e", ["b", False]]],
    "int05": [["py", 0], ["py", 3], ["py", 5], ["e", ["f", "k2"]], ["e", ["plus", ["f", "k2"], ["i", 1]]], ["e", ["i", 2]]],
    "int": [["py", 0], ["py", 7], ["py", -1], ["e", ["f", "n2"]], ["e", ["plus", ["f", "n2"], ["i", 1]]]],
    "real0_72": [["frac", "1/2"], ["frac", "7/2"], ["py", 3], ["py", 0], ["e", ["f", "k2"]], ["float", 2.5]],
    "real": [["frac", "1/2"], ["py", 7], ["e", ["f", "q"]], ["e", ["f", "n2"]], ["float", 2.5]],
    "int0_": [["py", 0], ["py", 7], ["py", 250], ["e", ["f", "k2"]], ["e", ["i", 4]]],
    "int_3": [["py", 3], ["py", -1], ["py", -4], ["e", ["i", -2]], ["e", ["f", "h2"]]],
    "real0_": [["py", 0], ["frac", "1/2"], ["frac", "301/2"], ["py", 250], ["float", 2.5]],
    "real_100": [["py", 100], ["frac", "-3/2"], ["py", -4], ["e", ["r", "-1/4"]], ["e", ["f", "k2"]]],
    "T": [["obj", "oT"], ["obj", "oS"], ["e", ["o", "oS"]], ["e", ["f", "t2"]], ["e", ["f", "s"]]],
    "S": [["obj", "oS"], ["e", ["o", "oS"]], ["e", ["f", "s"]]],
    "U": [["obj", "oU"], ["e", ["f", "u"]]],
}
MATCHING_PARAMS = {"int0_": [["e", ["p", "pH"]], ["e", ["p", "pI"]]], "int05": [["e", ["p", "pI"]]], "T": [["e", ["p", "pT"]], ["e", ["p", "pS"]]], "S": [["e", ["p", "pS"]]], "int": [["e", ["p", "pI"]]]}


def plan(tier, seed):
    return simple_plan(PROPERTY, tier, seed, N["quick"], N["thorough"])


def run_shard(spec, res):
    for key in spec["cases"]:
        run_case(key, spec["tier"], res)
    if spec["shard"] == 0:
        run_examples(res, spec["tier"])


def replay(witness, res):
    if witness.get("example"):
        run_examples(res, witness.get("tier", "quick"), only=witness["example"])
    else:
        run_case(witness["case_key"], witness.get("tier", "quick"), res)


# ---------------------------------------------------------------------------------------------------------------------
class World:
    def __init__(self, env):
        from collections import OrderedDict
        from unified_planning.model import Fluent, Object, InstantaneousAction, DurativeAction
        from vk.recipe import Ctx

        self.env = env
        c = self.ctx = Ctx(env)
        c.types["T"] = c.tm.UserType("T")
        c.types["S"] = c.tm.UserType("S", c.types["T"])
        c.types["U"] = c.tm.UserType("U")
        for name, t in (("oT", "T"), ("oS", "S"), ("oU", "U")):
            c.objects[name] = Object(name, c.types[t], env)
        for name, t, sig in FLUENTS:
            c.fluents[name] = Fluent(name, self.type(t), OrderedDict((n, self.type(pt)) for n, pt in sig), env)
        ps = OrderedDict((n, self.type(t)) for n, t in PARAMS)
        self.inst = InstantaneousAction("inst", ps, env)
        self.dur = DurativeAction("dur", OrderedDict(ps), env)
        self.dur.set_fixed_duration(3)
        # twins: same name / signature; they receive every call except the calls rejected for an ill-typed value
        self.inst_twin = InstantaneousAction("inst", OrderedDict(ps), env)
        self.dur_twin = DurativeAction("dur", OrderedDict(ps), env)
        self.dur_twin.set_fixed_duration(3)
        # siblings: different actions with the SAME names and differently typed parameters (as in two agents of one
        # multi-agent problem, or two problems of one process)
        ps_alt = OrderedDict((n, self.type(t)) for n, t in PARAMS_ALT)
        self.inst_alt = InstantaneousAction("inst", ps_alt, env)
        self.dur_alt = DurativeAction("dur", OrderedDict(ps_alt), env)
        self.dur_alt.set_fixed_duration(3)
        self.actions = {"inst": self.inst, "dur": self.dur, "inst_alt": self.inst_alt, "dur_alt": self.dur_alt}
        self._agents = None

    def agent_of(self, aname):
        """The two agents of one multi-agent problem owning the same-named actions (built on first use)."""
        if self._agents is None:
            from unified_planning.model.multi_agent import MultiAgentProblem, Agent

            ma = MultiAgentProblem("ma", self.env)
            a1, a2 = Agent("a1", ma), Agent("a2", ma)
            a1.add_action(self.inst), a1.add_action(self.dur)
            a2.add_action(self.inst_alt), a2.add_action(self.dur_alt)
            ma.add_agent(a1), ma.add_agent(a2)
            self._agents = (a1, a2)
        return self._agents[1 if aname.endswith("_alt") else 0]

    def type(self, t):
        return self.ctx.type(TYPES[t] if isinstance(t, str) else t)

    def value(self, spec, action=None):
        """Python / FNode value handed to the library."""
        k = spec[0]
        if k == "py":
            return spec[1]
        if k == "frac":
            return Fraction(spec[1])
        if k == "float":
            return float(spec[1])
        if k == "obj":
            return self.ctx.objects[spec[1]]
        if k == "fluent":
            return self.ctx.fluents[spec[1]]
        if k == "e":
            self.ctx.params = {p.name: p for p in action.parameters} if action is not None else {}
            try:
                return self.ctx.expr(spec[1])
            finally:
                self.ctx.params = {}
        raise ValueError(spec)


def pick_value(rng, tname, action_scope):
    r = rng.random()
    if r < 0.42 and isinstance(tname, str):
        pool = list(MATCHING[tname]) + (MATCHING_PARAMS.get(tname, []) if action_scope else [])
        return rng.choice(pool)
    if r < 0.78:
        return rng.choice(CONSTS)
    return rng.choice(EXPRS + (PARAM_EXPRS * 2 if action_scope else []))


def target_exp(rng, fname, action_scope):
    sig = next(f[2] for f in FLUENTS if f[0] == fname)
    args = []
    for _, pt in sig:
        if pt == "T":
            args.append(rng.choice([["o", "oT"], ["o", "oS"]] + ([["p", "pT"], ["p", "pS"]] if action_scope else [])))
        else:
            args.append(rng.choice([["o", "oS"]] + ([["p", "pS"]] if action_scope else [])))
    return ["f", fname] + args


def gen_history(rng):
    hist = []
    idf = []
    if rng.random() < 0.6:
        for tn in rng.sample(list(TYPES), rng.choice([1, 1, 2])):
            idf.append([tn, pick_value(rng, tn, False)])
    hist.append({"call": "Problem", "initial_defaults": idf})
    order = list(FLUENTS)
    rng.shuffle(order)
    for name, t, sig in order:
        d = pick_value(rng, t, False) if rng.random() < 0.6 else None
        hist.append({"call": "add_fluent", "fluent": name, "default": d})
    for _ in range(10):
        r = rng.random()
        if r < 0.3:
            name, t, sig = rng.choice(FLUENTS)
            hist.append({"call": "set_initial_value", "target": target_exp(rng, name, False), "value": pick_value(rng, t, False)})
        elif r < 0.8:
            cont = rng.choice(["inst", "dur", "prob"])
            name, t, sig = rng.choice(FLUENTS)
            numeric = t in NUMERIC
            kind = rng.choice(["assign", "assign", "inc", "dec"]) if numeric or rng.random() < 0.1 else "assign"
            hist.append(
                {
                    "call": "effect",
                    "container": cont,
                    "kind": kind,
                    "target": target_exp(rng, name, cont != "prob"),
                    "value": pick_value(rng, t, cont != "prob"),
                    "cond": rng.choice([None, None, None, ["f", "b2"]]),
                    "t": rng.choice([0, 1]),
                }
            )
        else:
            aname = rng.choice(["inst", "dur", "inst_alt", "dur_alt"])
            variant = "_alt" if aname.endswith("_alt") else ""
            ps = []
            allgood = rng.random() < 0.5
            for pn, pt in PARAMS_ALT if variant else PARAMS:
                if allgood:
                    ps.append(rng.choice(AI_GOOD[variant][pn]))
                else:
                    ps.append(pick_value(rng, pt if isinstance(pt, str) else "int05", False))
            agent = rng.random() < 0.35
            hist.append({"call": "ActionInstance", "action": aname, "params": ps, "agent": agent})
            if rng.random() < 0.75:
                # the very same actual parameters for the different action with the same name
                hist.append({"call": "ActionInstance", "action": SIBLING[aname], "params": ps, "agent": agent, "sibling_of_previous": True})
    return hist


def tclass(t):
    return str(t)


def classify(ttype, raw, env, need_const):
    """(value type text, is_constant, intended_bad) using auto_promote + the monitor's compatibility oracle (independent of the
    library's type lattice for constants, Type.is_compatible for non-constant expressions)."""
    try:
        (v,) = env.expression_manager.auto_promote(raw)
        vt = v.type
    except Exception:
        return "unpromotable", None, None
    bad = (not mt.compatible(ttype, v)) or (need_const and not v.is_constant())
    return str(vt), v.is_constant(), bad


def followup_for(rng, call):
    """A well-typed edit of the target of a call that was rejected for its value: same container / fluent expression,
    constant value admitted by the fluent's type, unconditional."""
    fname = call["target"][1]
    tname = next(f[1] for f in FLUENTS if f[0] == fname)
    consts = [v for v in MATCHING[tname] if v[0] in ("py", "frac", "float", "obj") or (v[0] == "e" and v[1][0] in ("i", "r", "o", "b"))]
    other = [v for v in consts if v != call["value"]] or consts
    if call["call"] == "set_initial_value":
        return {"call": "set_initial_value", "target": call["target"], "value": rng.choice(other), "followup": True}
    kind = rng.choice(["assign", "assign", "inc", "dec"]) if tname in NUMERIC else "assign"
    return {**call, "kind": kind, "value": rng.choice(other), "cond": None, "followup": True}


def run_case(key, tier, res):
    from unified_planning.model import Problem
    from unified_planning.model.timing import StartTiming, EndTiming, GlobalStartTiming
    from unified_planning.plans import ActionInstance

    rng = rng_for(key)
    hist = gen_history(rng)
    rng_fu = rng_for(key, "followup")
    env = _env.fresh_env()
    w = World(env)
    wbase = {"case_key": key, "tier": tier}
    known_bad = set()
    pb = None
    pb_twin = None
    twin = {"ok": True, "rejected": []}  # ok: the twin saw the same accepted history so far
    done = []

    def viol(mech, summary, **kw):
        res.violation(mech, summary, {**wbase, "history": done, **kw})

    def run(thunk):
        try:
            return thunk(), "accepted"
        except Exception as e:  # "rejected with an error": any exception is a rejection; the class is counted
            return None, "rejected:" + type(e).__name__

    def judge(call, callkind, thunk, targets, with_model=True, twin_thunk=None):
        """targets: [(target type, raw value, need_const)] of this call; thunk performs it; twin_thunk performs it on the
        twin objects, which never see a call rejected for its value."""
        info = [classify(tt, raw, env, nc) for tt, raw, nc in targets]
        intended_bad = any(i[2] for i in info)
        before = mt.snapshot(pb, [w.inst, w.dur]) if (with_model and pb is not None) else None
        res.mon()
        res.case()
        out, outcome = run(thunk)
        done.append({**call, "outcome": outcome})
        res.count(f"{callkind}:{'bad' if intended_bad else 'good'}:{outcome.split(':')[0]}")
        if outcome != "accepted":
            res.count(f"rejection_class:{callkind}:{outcome.split(':', 1)[1]}")
        if any(i[0] == "unpromotable" for i in info):
            res.count("value_not_promotable")
        for (tt, raw, nc), i in zip(targets, info):
            if i[2]:
                res.nt((callkind, tclass(tt), i[0], i[1]))
                if (tt.is_int_type() or tt.is_real_type()) and (tt.lower_bound is None) != (tt.upper_bound is None) and i[1]:
                    res.count("half_bounded_target_with_bad_constant:" + outcome.split(":")[0])
        # ---- twin: "leave the model unchanged" observed through behaviour. The twin never sees a call that was rejected
        # for its value; every other call must have the same outcome on the model and on the twin.
        if twin_thunk is not None and twin["ok"]:
            if outcome != "accepted" and intended_bad:
                twin["rejected"].append(callkind)
                res.count("twin_skipped_rejected_ill_typed_call")
            else:
                _, outcome2 = run(twin_thunk)
                res.count("twin_compared_calls")
                if twin["rejected"]:
                    res.count("twin_compared_calls_after_a_rejected_call")
                if call.get("followup"):
                    res.count(f"followup:{callkind}:twin_{outcome2.split(':')[0]}")
                    res.nt(("followup", callkind, tclass(targets[0][0]), twin["rejected"][-1]))
                if outcome2 != outcome:
                    twin["ok"] = False
                    res.count("twin_diverged")
                    if twin["rejected"]:
                        viol(
                            f"rejected-call-left-trace:{callkind}:{outcome}:twin-{outcome2}",
                            f"after {len(twin['rejected'])} calls rejected for an ill-typed value (last: {twin['rejected'][-1]}), {callkind} is {outcome} "
                            f"on the model but {outcome2} on a twin that never saw the rejected calls",
                            call=call,
                            rejected_calls=[d for d in done if d["outcome"] != "accepted"][-4:],
                        )
                    else:
                        viol(f"nondeterministic-outcome:{callkind}", f"{callkind} is {outcome} on the model but {outcome2} on an identically built twin", call=call)
        if outcome == "accepted":
            return out, True
        if not intended_bad:
            res.count("dontcare_compatible_value_rejected:" + callkind)
        if before is not None:
            after = mt.snapshot(pb, [w.inst, w.dur])
            if after != before:
                viol(
                    "rejected-call-changed-model:" + callkind,
                    f"{callkind} was rejected ({outcome}) but the model changed",
                    call=call,
                    before=mt.show(before),
                    after=mt.show(after),
                )
                twin["ok"] = False
                # whatever the rejected call left behind is attributed to it, not to the next accepted call
                left = mt.scan_problem(pb)
                mt.scan_action(w.inst, left)
                mt.scan_action(w.dur, left)
                known_bad.update(left)
        return None, False

    def scan(call, callkind, extra=()):
        """After an accepted call: everything stored must be compatible / constant. Reports only entries that are new."""
        found = mt.scan_problem(pb) if pb is not None else []
        mt.scan_action(w.inst, found)
        mt.scan_action(w.dur, found)
        found.extend(extra)
        primary = {(d, v) for s, d, t, v in found if s in ("fluents_defaults", "explicit_initial_values")}
        for site, defect, target, value in found:
            ent = (site, defect, target, value)
            if ent in known_bad:
                continue
            known_bad.add(ent)
            if site == "initial_values" and (defect, value) in primary:
                continue  # same stored value seen through the derived accessor
            if callkind == "add_fluent(no default)" and any(kb[0] == "initial_defaults" and kb[1] == defect and kb[3] == value for kb in known_bad):
                res.count("propagated_bad_type_default")
                continue
            viol(
                f"accepted-{defect}:{callkind}",
                f"{callkind} was accepted and the model now stores {value} for {target} ({site}: {defect})",
                call=call,
                site=site,
                target=target,
                value=value,
            )

    timings = {"dur": [StartTiming(), EndTiming()], "prob": [GlobalStartTiming(2), GlobalStartTiming(4)]}
    last_ai = [None]

    def perform(call):
        """-> True iff the call was rejected and its value was ill-typed (a follow-up edit is then due)."""
        nonlocal pb, pb_twin
        k = call["call"]
        if k == "Problem":
            idf = {}
            targets = []
            for tn, vs in call["initial_defaults"]:
                raw = w.value(vs)
                idf[w.type(tn)] = raw
                targets.append((w.type(tn), raw, True))
            if idf:
                out, ok = judge(call, "Problem(initial_defaults)", lambda: Problem("p", env, initial_defaults=idf), targets, with_model=False)
            else:
                out, ok = None, False
            pb = out if ok else Problem("p", env)
            pb.add_objects(list(w.ctx.objects.values()))
            pb_twin = Problem("p", env, initial_defaults=idf) if ok else Problem("p", env)
            pb_twin.add_objects(list(w.ctx.objects.values()))
            if ok:
                scan(call, "Problem(initial_defaults)")
        elif k == "add_fluent":
            fl = w.ctx.fluents[call["fluent"]]
            if call["default"] is None:
                pb.add_fluent(fl)
                pb_twin.add_fluent(fl)
                done.append({**call, "outcome": "accepted"})
                scan(call, "add_fluent(no default)")
                return False
            raw = w.value(call["default"])
            out, ok = judge(
                call,
                "add_fluent(default_initial_value)",
                lambda: pb.add_fluent(fl, default_initial_value=raw),
                [(fl.type, raw, True)],
                twin_thunk=lambda: pb_twin.add_fluent(fl, default_initial_value=raw),
            )
            if ok:
                scan(call, "add_fluent(default_initial_value)")
            elif not pb.has_fluent(fl.name):
                pb.add_fluent(fl)
            if not pb_twin.has_fluent(fl.name):
                pb_twin.add_fluent(fl)
        elif k == "set_initial_value":
            tgt = w.value(["e", call["target"]])
            raw = w.value(call["value"])
            n_rej = len(twin["rejected"])
            out, ok = judge(
                call,
                "set_initial_value",
                lambda: pb.set_initial_value(tgt, raw),
                [(tgt.type, raw, True)],
                twin_thunk=lambda: pb_twin.set_initial_value(tgt, raw),
            )
            if ok:
                scan(call, "set_initial_value")
            return len(twin["rejected"]) > n_rej
        elif k == "effect":
            cont = call["container"]
            obj = {"inst": w.inst, "dur": w.dur, "prob": pb}[cont]
            obj2 = {"inst": w.inst_twin, "dur": w.dur_twin, "prob": pb_twin}[cont]
            act = obj if cont != "prob" else None
            tgt = w.value(["e", call["target"]], act)
            raw = w.value(call["value"], act)
            cond = w.value(["e", call["cond"]], act) if call["cond"] is not None else True
            pre = () if cont == "inst" else (timings[cont][call["t"]],)
            mname = ("add_timed_effect" if cont == "prob" else "add_effect") if call["kind"] == "assign" else ("add_increase_effect" if call["kind"] == "inc" else "add_decrease_effect")
            ck = f"{mname}[{cont}]"
            n_rej = len(twin["rejected"])
            out, ok = judge(
                call,
                ck,
                lambda: getattr(obj, mname)(*pre, tgt, raw, cond),
                [(tgt.type, raw, False)],
                twin_thunk=lambda: getattr(obj2, mname)(*pre, tgt, raw, cond),
            )
            if ok:
                scan(call, ck)
            return len(twin["rejected"]) > n_rej
        elif k == "ActionInstance":
            act = w.actions[call["action"]]
            agent = w.agent_of(call["action"]) if call.get("agent") else None
            raws = [w.value(vs) for vs in call["params"]]
            targets = [(p.type, raw, False) for p, raw in zip(act.parameters, raws)]
            out, ok = judge(call, "ActionInstance", lambda: ActionInstance(act, tuple(raws), agent), targets, with_model=False)
            bad = any(classify(tt, raw, env, nc)[2] for tt, raw, nc in targets)
            if call.get("sibling_of_previous") and last_ai[0] is not None:
                # history-dependence: the same-named action was just instantiated with the very same parameters
                first_ok, first_name = last_ai[0]
                res.count(f"ActionInstance_same_name_same_params:first_{'accepted' if first_ok else 'rejected'}:{'bad' if bad else 'good'}")
                if first_ok and bad:
                    res.count(f"ActionInstance_ill_typed_after_valid_same_name:{'alt_first' if first_name.endswith('_alt') else 'base_first'}")
                    if call.get("agent"):
                        res.count("ActionInstance_ill_typed_after_valid_same_name:other_agent")
                    res.nt(("ActionInstance-after-same-name", first_name, tuple(str(r) for r in raws)))
            last_ai[0] = (ok, call["action"])
            if ok:
                scan(call, "ActionInstance", extra=mt.scan_action_instance(out))
        return False

    for call in hist:
        if perform(call) and twin["ok"]:
            # the rejected call must have left no trace: a legal edit of the same target behaves as on the twin
            perform(followup_for(rng_fu, call))
    if twin["ok"] and pb is not None:
        res.count("twin_final_comparisons")
        s1 = mt.snapshot(pb, [w.inst, w.dur])
        s2 = mt.snapshot(pb_twin, [w.inst_twin, w.dur_twin])
        if s1 != s2:
            viol(
                "model-differs-from-twin-at-end",
                f"after {len(twin['rejected'])} rejected ill-typed calls the model differs from a twin that never saw them",
                model=mt.show(s1),
                twin=mt.show(s2),
            )
    if int(key.rsplit(":", 1)[1]) < 2:
        res.sample({"history": done[:8] + done[-4:], "n_calls": len(done)})


def run_examples(res, tier, only=None):
    """Extra workload for the universal monitor: everything the bundled example problems store."""
    from unified_planning.test.examples import get_example_problems

    for name, ex in sorted(get_example_problems().items()):
        if only and name != only:
            continue
        pb = ex.problem
        if not hasattr(pb, "fluents_defaults"):
            res.count("examples_skipped_no_fluent_set")
            continue
        try:
            n_ground = sum(1 for _ in pb.explicit_initial_values)
        except Exception:
            n_ground = 0
        res.mon()
        res.case()
        res.count("examples_scanned")
        found = mt.scan_problem(pb, with_initial_values=n_ground < 2000)
        for p in getattr(ex, "valid_plans", []) or []:
            ais = getattr(p, "actions", None)
            if not isinstance(ais, (list, tuple)):
                ta = getattr(p, "timed_actions", None)
                ais = [x[1] for x in ta] if isinstance(ta, (list, tuple)) else []
            for ai in ais:
                if hasattr(ai, "actual_parameters") and hasattr(ai, "action"):
                    res.count("example_action_instances_scanned")
                    mt.scan_action_instance(ai, found)
        for site, defect, target, value in found[:3]:
            res.violation(
                f"example-stores-{defect}:{site}",
                f"example problem {name} stores {value} for {target} ({site}: {defect})",
                {"example": name, "tier": tier, "case_key": "example", "site": site, "target": target, "value": value},
            )


# ---------------------------------------------------------------------------------------------------------------------
CALLKINDS = [
    "Problem(initial_defaults)",
    "add_fluent(default_initial_value)",
    "set_initial_value",
    "add_effect[inst]",
    "add_effect[dur]",
    "add_timed_effect[prob]",
    "add_increase_effect[inst]",
    "add_increase_effect[dur]",
    "add_increase_effect[prob]",
    "add_decrease_effect[inst]",
    "add_decrease_effect[dur]",
    "add_decrease_effect[prob]",
    "ActionInstance",
]


def thresholds(m):
    c = m["counters"]
    out = []
    for ck in CALLKINDS:
        bad = c.get(f"{ck}:bad:accepted", 0) + c.get(f"{ck}:bad:rejected", 0)
        good = c.get(f"{ck}:good:accepted", 0)
        if bad < 15:
            out.append(f"fewer than 15 {ck} calls with an incompatible / non-constant value ({bad})")
        if good < 15:
            out.append(f"fewer than 15 accepted {ck} calls with a compatible value ({good})")
    hb = c.get("half_bounded_target_with_bad_constant:accepted", 0) + c.get("half_bounded_target_with_bad_constant:rejected", 0)
    if hb < 40:
        out.append(f"fewer than 40 calls storing an inadmissible constant into a numeric target bounded on one side only ({hb})")
    # behavioural "unchanged": legal follow-up edits of a target whose last edit was rejected for its value, compared with a twin
    for ck, lo in [
        ("add_effect[inst]", 60), ("add_effect[dur]", 60), ("add_timed_effect[prob]", 60), ("set_initial_value", 200),
        ("add_increase_effect[inst]", 10), ("add_increase_effect[dur]", 10), ("add_increase_effect[prob]", 10),
        ("add_decrease_effect[inst]", 10), ("add_decrease_effect[dur]", 10), ("add_decrease_effect[prob]", 10),
    ]:
        n = c.get(f"followup:{ck}:twin_accepted", 0)
        if n < lo:
            out.append(f"fewer than {lo} legal {ck} follow-ups (accepted by the twin) right after a call on the same target rejected for its value ({n})")
    if c.get("twin_final_comparisons", 0) < 300:
        out.append(f"fewer than 300 histories compared with their twin at the end ({c.get('twin_final_comparisons', 0)})")
    # history dependence of ActionInstance: ill-typed parameters right after a valid instance of a same-named action with the same parameters
    for k, lo in [("base_first", 30), ("alt_first", 30), ("other_agent", 20)]:
        n = c.get(f"ActionInstance_ill_typed_after_valid_same_name:{k}", 0)
        if n < lo:
            out.append(f"fewer than {lo} ill-typed ActionInstance calls right after an accepted instance of a different same-named action with the same actual parameters [{k}] ({n})")
    if c.get("examples_scanned", 0) < 40:
        out.append("fewer than 40 example problems scanned")
    if len(m["nontrivial"]) < 60:
        out.append("fewer than 60 distinct non-trivial (call kind, target type, value type) triples")
    return out

"""C09 — the declared resulting problem kind over-approximates the compiled problem's kind; factory pipelines accept
their intermediates.

Monitor M-compile-wf (vk/mon/compile_wf.py), kind half: for every `compile` that returns on a generated problem inside the
compiler's supported kind, `type(compiler).resulting_problem_kind(P.kind, ck)` must return (an internal-class exception
means no declared kind exists) and `result.problem.kind <= declared` (the library's own `<=`).  For factory pipelines over
ordered subsets (size <= 3) of the compilation kinds, `Factory.Compiler(problem_kind=P.kind, compilation_kinds=...)` must
not fail with an internal error and running the selected pipeline on P must never be refused by one of its own stages
("cannot handle this kind of problem").  Pipeline requests are ordered pairs / triples over *all* compilation kinds that
have a registered single-agent compiler (the nine classical removers/grounder plus TIMED_TO_SEQUENTIAL,
DURATIVE_ACTIONS_TO_PROCESSES, INTERPRETED_FUNCTIONS_REMOVING); every ordered pair is requested at least twice per quick run, on
classical and durative problems drawn for the request (mostly inside the supported kind of every requested stage, with the
features that give the stages work - object fluents, conditional effects, undefined numerics - forced in part of the cases)."""
from vk import env as _env  # noqa: F401
from vk.core import rng_for, simple_plan, h
from vk.mon import compile_wf as W

PROPERTY = "C09"
LEVEL = "exploration"
TECHNIQUE = "runtime monitoring: post-condition kind(compiled) <= declared resulting kind on every compile; factory pipelines run on their input and watched for stage refusals"
LEVEL_TEXT = (
    "Every returning compile call of the ten compilers on generated problems inside their supported kind is judged by "
    "kind(compiled) <= resulting_problem_kind(kind(input)); every factory pipeline selected from a generated problem's kind "
    "(ordered subsets of <= 3 compilation kinds) is run on that problem and must not be refused by one of its own stages; "
    "held on the compilations observed only."
)
LEVEL_NOTE = (
    "Trusted: CPython, Problem.kind (C10 monitors it independently), ProblemKind.<= (C33), the recipe instantiation. "
    "Compilations that raise (documented rejections, or the defects C08 reports) carry no compiled kind and are only counted."
)
RULE = (
    "case = (compiler, generated problem recipe inside the compiler's supported_kind(), adversarial identifiers) or (ordered subset of "
    "<= 3 compilation kinds, generated problem). evaluations = compile calls / pipeline runs judged. distinct_nontrivial = distinct "
    "(compiler, input kind) pairs with a returned compilation, plus distinct (compilation-kind sequence, input kind) pairs of pipelines "
    "that were selected and run (requests: every ordered pair of the 12 compilation kinds with a registered single-agent compiler, "
    "walked through in turn, plus random ordered triples; inputs: classical and durative problems drawn for the request); thorough additionally runs every example problem of unified_planning.test.examples through every "
    "compiler that supports it."
)
ASSUMPTIONS = [
    "Problem.kind reports the features of a problem truthfully (C10) and ProblemKind.<= is feature inclusion after version equalisation (C33)",
    "a compilation that raises has no compiled kind: it is outside this property (C08 judges it)",
]

SLOTS = W.TARGET_ORDER + ["pipeline", "pipeline", "pipeline", "qurm", "gcrm"]  # F25/F26 anchors get a double share
N = {"quick": 1500, "thorough": 48000}
CASE_TIME_LIMIT = 60  # seconds per generated case (vk.shard watchdog): 2^n ConditionalEffectsRemover variants after a quantifier expansion
# pipeline requests: ordered pairs and triples over *all* compilation kinds with a registered single-agent compiler
KINDS = W.ALL_PIPELINE_KINDS
PAIRS = [(a, b) for a in KINDS for b in KINDS if a != b]
# a second range of case keys (indices >= EXTRA_BASE) holds additional pipeline requests only, so that every ordered pair
# is requested at least twice per quick run (once from each range) without changing the single-compiler cases
EXTRA_BASE = 1000000
N_EXTRA = {"quick": len(PAIRS), "thorough": 8 * len(PAIRS)}
SHARD_TIMEOUT = {"quick": 600, "thorough": 5400}


def plan(tier, seed):
    from vk.core import chunk

    specs = simple_plan(PROPERTY, tier, seed, N["quick"], N["thorough"], shards_quick=8)
    extra = [f"{PROPERTY}:{seed}:{EXTRA_BASE + j}" for j in range(N_EXTRA[tier])]
    for spec, ch in zip(specs, chunk(extra, len(specs))):
        spec["cases"] = spec["cases"] + ch
    return specs


def run_shard(spec, res):
    for key in spec["cases"]:
        run_case(key, spec["tier"], res)
    if spec["tier"] == "thorough" and spec["shard"] == 0:
        run_examples(res)


def replay(witness, res):
    if witness.get("example"):
        run_examples(res, only=(witness["example"], witness["target"]))
    else:
        run_case(witness["case_key"], witness.get("tier", "quick"), res)


def target_of(key):
    i = int(key.rsplit(":", 1)[1])
    if i >= EXTRA_BASE:
        return "pipeline"
    return SLOTS[i % len(SLOTS)]


def pipeline_request(key):
    """The compilation-kind sequence requested by a pipeline case.  Pipeline cases are numbered (ordinal q); three out of
    five are ordered pairs taken in turn from the list of all ordered pairs (rotated by the seed), so that a run walks through
    every ordered pair; the others are random ordered triples.  The extra key range walks through the pairs once more."""
    _, seed, i = key.rsplit(":", 2)
    i = int(i)
    rot = 37 * (int(seed) if seed.lstrip("-").isdigit() else 0)
    if i >= EXTRA_BASE:
        return list(PAIRS[(i - EXTRA_BASE + rot + 61) % len(PAIRS)])
    per = [k for k, t in enumerate(SLOTS) if t == "pipeline"]
    q = (i // len(SLOTS)) * len(per) + per.index(i % len(SLOTS))
    if q % 5 < 3:
        return list(PAIRS[((q // 5) * 3 + q % 5 + rot) % len(PAIRS)])
    return rng_for(key, "pipeline").sample(KINDS, 3)


def judge_single(res, label, comp_cls, ck_name, pb, in_kind, wbase, id_for_nt):
    from unified_planning.engines.mixins.compiler import CompilationKind

    ck = CompilationKind[ck_name]
    res.mon()
    # the declared kind is judged for every supported input kind, whether or not compile goes through
    try:
        comp_cls.resulting_problem_kind(in_kind, ck)
        declared_ok = True
    except Exception as e:
        declared_ok = False
        res.violation(
            f"declared-kind-raises:{type(e).__name__}:{label}",
            f"{comp_cls.__name__}.resulting_problem_kind raised {e!r} on a supported input kind ({sorted(in_kind.features)})",
            dict(wbase, input_kind=sorted(in_kind.features)),
        )
    ocs = W.observe_compile(comp_cls(), pb)
    res.case()
    oc = ocs[-1]
    res.count(f"compile:{label}:{oc[0]}")
    if oc[0] != "returned":
        res.count(f"no_compiled_kind:{label}:{oc[1] if isinstance(oc[1], str) else 'documented-rejection'}")
        return
    if not declared_ok:
        return
    cp = oc[1].problem
    viols, declared, ckind = W.kind_violations(comp_cls, ck, in_kind, cp, label=label, pb_in=pb)
    if ckind is not None:
        res.nt((label, sorted(in_kind.features)))
        for f in sorted(set(ckind.features) - set(in_kind.features)):
            res.count(f"feature_added:{label}:{f}")
        for f in sorted(set(in_kind.features) - set(ckind.features)):
            res.count(f"feature_removed:{label}:{f}")
        if set(ckind.features) != set(in_kind.features):
            res.count(f"kind_changed:{label}")
    # degenerate input: a trajectory constraint / invariant that is unsatisfiable by itself (it, or its rewriting by the compiler,
    # simplifies to the constant false; the model then records it as Always(false)). The kind of such a constant constraint is not
    # something the statement constrains: counted, not judged.
    em = pb.environment.expression_manager
    unsat = [c for c in list(cp.trajectory_constraints) if c.is_always() and c.arg(0).is_false()]
    if unsat and any(d.endswith(("STATE_INVARIANTS", "TRAJECTORY_CONSTRAINTS")) or "STATE_INVARIANTS" in d.split(",")[0] for _, d in viols):
        res.count("dontcare:unsatisfiable-constant-constraint")
        viols = [(c, d) for c, d in viols if "STATE_INVARIANTS" not in c and "TRAJECTORY_CONSTRAINTS" not in c]
    for cls, detail in viols:
        res.violation(
            cls,
            f"{label}: {detail}",
            dict(wbase, input_kind=sorted(in_kind.features), declared=sorted(declared.features) if declared else None, compiled=sorted(ckind.features) if ckind else None),
        )
    if not viols and res.evaluations % 60 == 0:
        res.sample({"compiler": label, "input_kind": sorted(in_kind.features), "compiled_kind": sorted(ckind.features), "declared": sorted(declared.features), "verdict": "compiled <= declared"})


def run_case(key, tier, res):
    target = target_of(key)
    cks = pipeline_request(key) if target == "pipeline" else None
    case = W.build_case(key, target, require=cks)
    res.count("regenerated_outside_kind", case["rejected"])
    if case["pb"] is None:
        res.count("no_recipe_inside_kind:" + target)
        return
    pb, rec, env, kind = case["pb"], case["rec"], case["env"], case["kind"]
    wbase = {"case_key": key, "tier": tier, "target": target, "recipe": rec}
    if target != "pipeline":
        judge_single(res, target, W.compiler_class(target), W.TARGETS[target][2], pb, kind, wbase, h(rec))
        return
    res.count("pipeline_input:every-stage-supports-input-kind" if case.get("all_stages_support") else "pipeline_input:some-stage-only-fits-chained-kind")
    if any(a.__class__.__name__ == "DurativeAction" for a in pb.actions):
        res.count("pipeline_input:durative")
    judge_pipeline(res, key, pb, env, kind, wbase, cks)


def judge_pipeline(res, key, pb, env, kind, wbase, cks):
    from unified_planning.engines.mixins.compiler import CompilationKind
    from unified_planning.exceptions import UPNoSuitableEngineAvailableException, UPUsageError
    from vk.mon.c32_factory import innermost_site

    wbase = dict(wbase, compilation_kinds=cks, input_kind=sorted(kind.features))
    res.mon()
    res.case()
    res.count(f"pipeline_len:{len(cks)}")
    for x in range(len(cks)):
        for y in range(x + 1, len(cks)):
            res.count(f"pipeline_requested:{cks[x]}>{cks[y]}")
    try:
        pipe = env.factory.Compiler(problem_kind=kind, compilation_kinds=[CompilationKind[c] for c in cks])
    except UPNoSuitableEngineAvailableException:
        res.count("pipeline:no-suitable-engine")
        return
    except Exception as e:
        res.count("pipeline:selection-raised")
        site = innermost_site(e)
        if site.endswith(".resulting_problem_kind"):  # same root cause as the direct call: one mechanism string
            mech = f"declared-kind-raises:{type(e).__name__}:{W.LABEL_OF_CLASS.get(site.split('.')[0], site.split('.')[0])}"
        else:
            mech = f"pipeline-selection-raises:{type(e).__name__}@{site}"
        res.violation(
            mech,
            f"Factory.Compiler(problem_kind, compilation_kinds={cks}) raised {e!r}: no pipeline and no declared intermediate kind",
            wbase,
        )
        return
    res.count("pipeline:selected")
    for a, b in zip(cks, cks[1:]):
        res.count("pipeline_adjacent:" + a + ">" + b)
    stages = [c.name for c in pipe._compilers]
    ocs = W.observe_compile(pipe, pb)
    oc = ocs[-1]
    if oc[0] == "returned":
        res.count("pipeline:ran")
        res.nt(("pipeline", cks, sorted(kind.features)))
        try:
            fk = oc[1].problem.kind
            for f in sorted(set(fk.features) - set(kind.features)):
                res.count(f"feature_added:pipeline:{f}")
        except Exception:
            pass
        if len(cks) >= 2 and res.evaluations % 25 == 0:
            res.sample({"pipeline": stages, "compilation_kinds": cks, "input_kind": sorted(kind.features), "verdict": "every stage accepted its input"})
        return
    e = oc[2]
    if isinstance(e, UPUsageError) and "cannot handle this kind of problem" in str(e):
        stage = str(e).split(" cannot handle")[0]
        # root cause: when an earlier stage produced a feature it does not declare (first half of the property, judged per
        # compiler with its own mechanism string) and the refusing stage lacks exactly that feature, the refusal is that
        # defect seen through the pipeline; otherwise the stages honour their declarations and the chaining itself is at fault
        hits, missing = attribute_rejection(pipe, cks, pb)
        if hits:
            res.count("pipeline:refusal-caused-by-undeclared-feature-of-a-stage")
            for label, f, mech in hits:
                res.violation(
                    mech,
                    f"{label}: compiled problem has {f}, declared resulting kind does not; seen through pipeline {stages}: {e}",
                    dict(wbase, stages=stages, refused_features=missing),
                )
            return
        res.violation(
            f"pipeline-rejects-intermediate:{stage}",
            f"pipeline {stages} selected by the factory for this problem kind refused an intermediate problem: {e}",
            dict(wbase, stages=stages),
        )
        return
    # anything else (documented rejections, C08 defects) happens *inside* a stage that accepted its input
    res.count("pipeline:stage-failed-after-accepting")
    res.count(f"pipeline_other:{oc[1] if isinstance(oc[1], str) else 'documented-rejection'}")
    res.nt(("pipeline-partial", cks, sorted(kind.features)))


def attribute_rejection(pipe, cks, pb):
    """Re-runs the stages of a refused pipeline one by one. -> ([(stage label, feature, mechanism)] for the features that a
    stage's compiled problem has beyond that stage's declared resulting kind *and* that the refusing stage does not support,
    features the refusing stage lacks)."""
    from unified_planning.engines.mixins.compiler import CompilationKind

    cur = pb
    undeclared = []
    try:
        for eng, ckn in zip(pipe._compilers, cks):
            C = type(eng)
            kin = cur.kind
            if not C.supports(kin):
                missing = set(kin.features) - set(C.supported_kind().features)
                seen, hits = set(), []
                for label, f, mech in undeclared:
                    if f in missing and mech not in seen:
                        seen.add(mech)
                        hits.append((label, f, mech))
                return hits, sorted(missing)
            oc = W.observe_compile(C(), cur)[-1]
            if oc[0] != "returned" or oc[1].problem is None:
                return [], []
            cp = oc[1].problem
            label = W.LABEL_OF_CLASS.get(C.__name__, C.__name__)
            declared = C.resulting_problem_kind(kin, CompilationKind[ckn])
            for f in sorted(set(cp.kind.features) - set(declared.features)):
                undeclared.append((label, f, W.feature_mechanism(label, f, kin, cur)))
            cur = cp
    except Exception:
        pass
    return [], []


def run_examples(res, only=None):
    from unified_planning.test.examples import get_example_problems
    from unified_planning.model import Problem

    for name, ex in sorted(get_example_problems().items()):
        pb = ex.problem
        if type(pb) is not Problem:
            continue
        try:
            kind = pb.kind
        except Exception:
            continue
        for t in W.TARGET_ORDER:
            if only and (name, t) != tuple(only):
                continue
            Comp = W.compiler_class(t)
            if not Comp.supports(kind):
                continue
            res.count("examples_compiled")
            judge_single(res, t, Comp, W.TARGETS[t][2], pb, kind, {"example": name, "target": t, "tier": "thorough"}, name)


def thresholds(m):
    c = m["counters"]
    out = []
    for t in W.TARGET_ORDER:
        if c.get(f"compile:{t}:returned", 0) < 30:
            out.append(f"fewer than 30 returned compilations for {t} ({c.get(f'compile:{t}:returned', 0)})")
    for t in ("cerm", "ncrm", "qurm", "utfr", "btrm", "gcrm", "tcrm", "uinrm", "dcrm"):
        if c.get(f"kind_changed:{t}", 0) < 5:
            out.append(f"fewer than 5 compilations where {t} changed the kind ({c.get(f'kind_changed:{t}', 0)})")
    if c.get("pipeline:selected", 0) < 40:
        out.append(f"fewer than 40 factory pipelines selected ({c.get('pipeline:selected', 0)})")
    if c.get("pipeline:ran", 0) < 20:
        out.append(f"fewer than 20 factory pipelines ran to the end ({c.get('pipeline:ran', 0)})")
    adjacent = len([k for k in c if k.startswith("pipeline_adjacent:")])
    if adjacent < 90:
        out.append(f"fewer than 90 distinct ordered pairs of adjacent compilation kinds among the selected pipelines ({adjacent} of {len(PAIRS)})")
    if c.get("pipeline_input:durative", 0) < 40:
        out.append(f"fewer than 40 pipeline requests on durative problems ({c.get('pipeline_input:durative', 0)})")
    for first in ("USERTYPE_FLUENTS_REMOVING", "QUANTIFIERS_REMOVING", "CONDITIONAL_EFFECTS_REMOVING"):
        for second in W.TEMPORAL_KINDS:
            if c.get(f"pipeline_requested:{first}>{second}", 0) < 1:
                out.append(f"no pipeline request with {first} before {second}")
    if c.get("pipeline_len:2", 0) + c.get("pipeline_len:3", 0) < 60:
        out.append("fewer than 60 pipeline requests of length >= 2")
    if len(m["nontrivial"]) < 200:
        out.append(f"fewer than 200 distinct (compiler, input kind) pairs ({len(m['nontrivial'])})")
    return out

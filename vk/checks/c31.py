"""C31 - meta-engines return only valid plans and truthful statuses.

Directed experiment: the harness planner "vk-bfs" (exact breadth-first search over vk.ref.seqsem, registered with
factory.add_engine on a fresh Environment) is wrapped by the real meta-engines
"interpreted_functions_planning[vk-bfs]" and "oversubscription[vk-bfs]".  Oracle: an independent exhaustive exploration
of the original problem's (finite) reachable state space under the reference semantics with the interpreted functions
evaluated for real: validity of every returned plan, solvability, and the maximal oversubscription gain."""
from fractions import Fraction

from vk import env as _env  # noqa: F401
from vk.core import rng_for, simple_plan, h
from vk.gen.problem import gen_problem
from vk.recipe import instantiate_problem
from vk.ref import seqsem
from vk.ref.bfs_cm import Space, explore, best_value
from vk.ref.evalx import Interp, Unsupported, const_value, holds
from vk.ref.seqsem import OKAY, INAPP, DONTCARE

PROPERTY = "C31"
LEVEL = "exploration"
TECHNIQUE = "runtime monitoring: real meta-engines over an exact harness planner, judged by exhaustive reference state-space exploration"
LEVEL_TEXT = (
    "Every result of the interpreted-functions and oversubscription meta-engines (wrapped around an exact breadth-first "
    "harness planner) on generated finite problems is compared with an exhaustive exploration of the original problem under "
    "an independent reference semantics. Held on the executions observed only."
)
LEVEL_NOTE = (
    "Trusted: CPython, vk/ref/seqsem.py, evalx.py, bfs_cm.py and the harness engine vk/mon/vkbfs_cm.py (the 'valid and "
    "complete underlying planner' of the statement). Cases in which the harness planner hit its state cap or a don't-care "
    "class of the reference semantics (so the assumption of the statement is not met) are counted and not judged."
)
RULE = (
    "cases alternate between (a) C01-grammar problems with interpreted functions in conditions and effect values (all "
    "numeric types bounded so the state space is finite) and two directed families (one application per expression; 2-3 "
    "applications of the same / different functions on different arguments in ONE precondition, guard or effect value, over "
    "counters of which some cannot move, so that learning leaves the expression partially known) solved through "
    "interpreted_functions_planning[vk-bfs] and (b) "
    "problems with an oversubscription metric (1..3 weighted goals, int/real weights incl. negative and ties) solved through "
    "oversubscription[vk-bfs]. evaluations = judged solve() results. distinct_nontrivial = distinct problems where (a) the "
    "returned plan is non-empty or the problem is unsolvable although the relaxation needed >= 2 planner calls, (b) two "
    "reachable hard-goal states have different gains."
)
ASSUMPTIONS = [
    "vk-bfs returns only plans valid under vk.ref.seqsem and is complete below its state cap; capped / don't-care cases are not judged",
    "oracle vk/ref/seqsem.py implements the documented sequential semantics; interpreted functions are the pure functions of vk.recipe.IF_TABLE",
]
SHARD_TIMEOUT = {"quick": 900, "thorough": 5400}
BOUNDS = {"quick": dict(n=480, max_states=1500), "thorough": dict(n=9000, max_states=4000)}

PROFILE_IF = dict(interpreted_functions=0.7, undefined_init=0.0, invariants=0.0, forall_effects=False, int_params=0.0, max_actions=3, max_fluents=4)
PROFILE_OS = dict(interpreted_functions=0.0, undefined_init=0.0, invariants=0.0, forall_effects=False, int_params=0.0, metric="oversub", max_actions=3, max_fluents=4)
POSITIVE = ("SOLVED_SATISFICING", "SOLVED_OPTIMALLY")
# Every FRESH_ENV_EVERY-th interpreted-functions case runs in a fresh Environment, the others in the global one (see build()).
# Set to 1 for fresh-only once InterpretedFunctionsRemover creates its objects in the problem's environment
# (out/patches/c31_ifrm_env.diff); oversubscription cases always use a fresh Environment.
FRESH_ENV_EVERY = 1


def plan(tier, seed):
    b = BOUNDS[tier]
    return simple_plan(PROPERTY, tier, seed, b["n"], b["n"], shards_quick=8, shards_thorough=16)


def run_shard(spec, res):
    for key in spec["cases"]:
        try:
            run_case(key, spec["tier"], res)
        except Unsupported:
            res.count("skipped_unsupported_by_oracle")


def replay(witness, res):
    run_case(witness["case_key"], witness.get("tier", "quick"), res)


def _finite(rec):
    """Bound every numeric fluent type (superset of the generated bounds) so that the reachable state space is finite."""
    for f in rec["fluents"]:
        t = f["type"]
        if t == "bool" or t[0] == "user":
            continue
        if t[0] == "int":
            lo, hi = t[1], t[2]
            if lo is None and hi is None:
                lo, hi = -3, 6
            elif lo is None:
                lo = hi - 6
            elif hi is None:
                hi = lo + 6
            f["type"] = ["int", lo, hi]
        else:
            if t[1] is None:
                f["type"] = ["real", "-2", "5"]
    return rec


def _directed_if(rng):
    """Directed family that needs the learning loop: the relaxation (unknown interpreted function => condition true / fluent
    unknown) yields plans that the validation refutes until enough values are learnt."""
    hi = rng.choice([4, 5, 6])
    x0 = rng.choice([0, 0, 1, 2])
    fl = [
        {"name": "x", "type": ["int", 0, hi], "sig": [], "default": None},
        {"name": "done", "type": "bool", "sig": [], "default": ["b", False]},
        {"name": "gate", "type": "bool", "sig": [], "default": ["b", rng.random() < 0.5]},
    ]
    init = [[["f", "x"], ["i", x0]]]
    acts = [{"name": "inc", "params": [], "pre": [], "effects": [{"kind": "inc", "fluent": ["f", "x"], "value": ["i", rng.choice([1, 1, 2])], "cond": None, "forall": []}]}]
    if rng.random() < 0.4:
        acts.append({"name": "dec", "params": [], "pre": [], "effects": [{"kind": "dec", "fluent": ["f", "x"], "value": ["i", 1], "cond": None, "forall": []}]})
    if rng.random() < 0.4:
        acts.append({"name": "open", "params": [], "pre": [["not", ["f", "gate"]]], "effects": [{"kind": "assign", "fluent": ["f", "gate"], "value": ["b", True], "cond": None, "forall": []}]})
    c = rng.choice([1, 2, 3, 4])
    t = rng.random()
    feats = ["interpreted_function", "directed-if"]
    goals = [["f", "done"]]
    if t < 0.4:
        # threshold precondition through an interpreted predicate
        pre = rng.choice(
            [
                [["if", "if_pos", ["minus", ["f", "x"], ["i", c]]]],
                [["not", ["if", "if_lt", ["f", "x"], ["i", c]]]],
                [["if", "if_lt", ["i", c], ["f", "x"]], ["f", "gate"]],
                [["eq", ["if", "if_double", ["f", "x"]], ["i", 2 * c]]],
                [["gt", ["if", "if_sq", ["f", "x"]], ["i", c * c]]],
            ]
        )
        acts.append({"name": "go", "params": [], "pre": pre, "effects": [{"kind": "assign", "fluent": ["f", "done"], "value": ["b", True], "cond": None, "forall": []}]})
        feats.append("if-in-precondition")
    elif t < 0.75:
        # interpreted function in an effect value; the goal constrains the computed value
        fn = rng.choice(["if_double", "if_succ", "if_sq"])
        acts.append({"name": "calc", "params": [], "pre": [["f", "gate"]] if rng.random() < 0.4 else [], "effects": [{"kind": "assign", "fluent": ["f", "x"], "value": ["if", fn, ["f", "x"]], "cond": None, "forall": []}]})
        goals = [rng.choice([["eq", ["f", "x"], ["i", rng.choice([2, 3, 4, hi])]], ["ge", ["f", "x"], ["i", hi - 1]]])]
        if rng.random() < 0.4:
            acts.append({"name": "go", "params": [], "pre": [["ge", ["f", "x"], ["i", c]]], "effects": [{"kind": "assign", "fluent": ["f", "done"], "value": ["b", True], "cond": None, "forall": []}]})
            goals = [["f", "done"]]
        feats.append("if-in-effect-value")
    else:
        # both: the value computed by an interpreted function feeds an interpreted predicate
        acts.append({"name": "calc", "params": [], "pre": [], "effects": [{"kind": "assign", "fluent": ["f", "x"], "value": ["if", rng.choice(["if_double", "if_succ"]), ["f", "x"]], "cond": None, "forall": []}]})
        acts.append({"name": "go", "params": [], "pre": [["if", "if_pos", ["minus", ["f", "x"], ["i", c]]]], "effects": [{"kind": "assign", "fluent": ["f", "done"], "value": ["b", True], "cond": None, "forall": []}]})
        feats += ["if-in-precondition", "if-in-effect-value"]
    if rng.random() < 0.25:
        # unsolvable variant: the threshold is out of reach
        goals = goals + [["gt", ["f", "x"], ["i", hi]]]
        feats.append("unsolvable-by-construction")
    rec = {"name": "dirif", "types": [["T0", None]], "objects": [["o0", ["user", "T0"]]], "fluents": fl, "actions": acts, "init": init, "goals": goals, "invariants": []}
    return rec, feats


def _num_ev(e, st):
    """Value of a numeric / Boolean recipe over interpreted functions of vk.recipe.IF_TABLE (generator-side only: used to
    pick thresholds that make a chosen target state satisfy the condition; the oracle of the check is seqsem/evalx)."""
    from vk.recipe import IF_TABLE

    k = e[0]
    if k == "i":
        return int(e[1])
    if k == "f":
        return st[e[1]]
    if k == "if":
        return IF_TABLE[e[1]][0](*[_num_ev(a, st) for a in e[2:]])
    if k == "plus":
        return sum(_num_ev(a, st) for a in e[1:])
    if k == "minus":
        return _num_ev(e[1], st) - _num_ev(e[2], st)
    if k == "times":
        r = 1
        for a in e[1:]:
            r *= _num_ev(a, st)
        return r
    raise ValueError(e)


def _directed_multi_if(rng):
    """Directed family: ONE expression (precondition / effect value / goal-relevant guard) with 2-3 interpreted-function
    applications (same or different functions, different arguments) over two counters of which one may be immovable. The
    relaxation of the meta-engine then has to cope with partial knowledge: after a refuted candidate plan some applications
    of the expression are learnt for their current arguments while others meet new arguments."""
    hi = rng.choice([2, 3, 3, 4])
    names = ["x", "y"] + (["w"] if rng.random() < 0.3 else [])
    init = {n: rng.choice([0, 0, 1]) for n in names}
    fl = [{"name": n, "type": ["int", 0, hi], "sig": [], "default": None} for n in names]
    fl.append({"name": "done", "type": "bool", "sig": [], "default": ["b", False]})
    feats = ["interpreted_function", "directed-multi-if"]
    acts = []
    movable = [n for n in names if rng.random() < 0.6]
    if not movable:
        movable = [rng.choice(names)]
    for n in movable:
        acts.append({"name": "inc_" + n, "params": [], "pre": [], "effects": [{"kind": "inc", "fluent": ["f", n], "value": ["i", 1], "cond": None, "forall": []}]})
        if rng.random() < 0.25:
            acts.append({"name": "dec_" + n, "params": [], "pre": [], "effects": [{"kind": "dec", "fluent": ["f", n], "value": ["i", 1], "cond": None, "forall": []}]})
    if len(movable) < len(names):
        feats.append("multi-if:immovable-argument")

    def arg(n):
        u = rng.random()
        if u < 0.7:
            return ["f", n]
        return ["plus", ["f", n], ["i", rng.choice([1, 2])]] if u < 0.85 else ["minus", ["f", n], ["i", 1]]

    def num_app(n):
        fn = rng.choice(["if_double", "if_succ", "if_sq", "if_sum"])
        if fn == "if_sum":
            return ["if", fn, arg(n), ["i", rng.choice([0, 1, 3])]]
        return ["if", fn, arg(n)]

    def bool_app(n, other):
        u = rng.random()
        if u < 0.4:
            return ["if", "if_pos", ["minus", ["f", n], ["i", rng.choice([0, 1, 2])]]]
        if u < 0.8:
            a, b = ["f", n], ["i", rng.choice([1, 2, 3])]
            return ["if", "if_lt"] + ([a, b] if rng.random() < 0.5 else [b, a])
        return ["if", "if_lt", ["f", n], ["f", other]]

    k = 2 if rng.random() < 0.7 else 3
    over = [names[i % len(names)] for i in range(k)]
    rng.shuffle(over)
    # target assignment (reachable by construction: immovable counters keep their initial value)
    tgt = {n: (rng.randint(init[n], hi) if n in movable else init[n]) for n in names}
    if tgt == init and rng.random() < 0.8:
        n = rng.choice(movable)
        tgt[n] = min(hi, init[n] + rng.choice([1, 1, 2]))
    form = rng.choice(["numeric-precondition", "numeric-precondition", "boolean-precondition", "effect-value", "goal-guard"])
    feats.append("multi-if:" + form)
    go_eff = [{"kind": "assign", "fluent": ["f", "done"], "value": ["b", True], "cond": None, "forall": []}]
    goals = [["f", "done"]]
    if form in ("numeric-precondition", "goal-guard", "effect-value"):
        apps = [num_app(n) for n in over]
        comb = ["plus"] + apps if rng.random() < 0.7 else (["minus", apps[0], ["plus"] + apps[1:]] if len(apps) > 2 else ["minus", apps[0], apps[1]])
        v = _num_ev(comb, tgt)
        if form == "effect-value":
            zhi = max(_num_ev(comb, {n: a for n, a in zip(names, vals)}) for vals in __import__("itertools").product(range(hi + 1), repeat=len(names)))
            zlo = min(_num_ev(comb, {n: a for n, a in zip(names, vals)}) for vals in __import__("itertools").product(range(hi + 1), repeat=len(names)))
            fl.append({"name": "z", "type": ["int", min(zlo, -1), zhi + 1], "sig": [], "default": None})
            init["z"] = -1 if zlo >= 0 else zlo
            acts.append({"name": "calc", "params": [], "pre": [], "effects": [{"kind": "assign", "fluent": ["f", "z"], "value": comb, "cond": None, "forall": []}]})
            goals = [[rng.choice(["eq", "ge"]), ["f", "z"], ["i", v]]]
            feats.append("if-in-effect-value")
        else:
            rel = rng.choice(["ge", "eq", "gt", "le"])
            c = v - 1 if rel == "gt" else v
            cond = [rel, comb, ["i", c]]
            if form == "goal-guard":
                # the guard sits in a disjunction with a plain literal: still one expression with several applications
                cond = ["or", cond, ["gt", ["f", names[0]], ["i", hi]]]
            acts.append({"name": "go", "params": [], "pre": [cond], "effects": go_eff})
            feats.append("if-in-precondition")
    else:
        apps = [bool_app(n, names[(names.index(n) + 1) % len(names)]) for n in over]
        lits = [a if rng.random() < 0.6 else ["not", a] for a in apps]
        u = rng.random()
        if u < 0.35:
            cond = ["or"] + lits
        elif u < 0.6:
            cond = ["not", ["or"] + lits]
        elif u < 0.8:
            cond = ["iff", lits[0], ["or"] + lits[1:]] if len(lits) > 2 else ["iff", lits[0], lits[1]]
        else:
            cond = ["and"] + lits
        acts.append({"name": "go", "params": [], "pre": [cond], "effects": go_eff})
        feats.append("if-in-precondition")
    if rng.random() < 0.15:
        goals = goals + [["gt", ["f", names[0]], ["i", hi]]]
        feats.append("unsolvable-by-construction")
    rec = {
        "name": "dirmif", "types": [["T0", None]], "objects": [["o0", ["user", "T0"]]], "fluents": fl, "actions": acts,
        "init": [[["f", n], ["i", v]] for n, v in sorted(init.items())], "goals": goals, "invariants": [],
    }  # fmt: skip
    return rec, feats


def _directed_oversub(rng):
    """Directed family with competing soft goals: Boolean switches and a small counter, actions with side effects, soft goals
    with positive / negative / fractional / tied weights, optional hard goal."""
    nb = rng.choice([2, 3, 3])
    fl = [{"name": f"p{i}", "type": "bool", "sig": [], "default": ["b", rng.random() < 0.3]} for i in range(nb)]
    fl.append({"name": "x", "type": ["int", 0, 3], "sig": [], "default": ["i", 0]})
    lit = lambda i, pos: ["f", f"p{i}"] if pos else ["not", ["f", f"p{i}"]]
    acts = []
    for k in range(rng.choice([2, 3, 4])):
        effs, used = [], set()
        for _ in range(rng.choice([1, 2, 2])):
            i = rng.randrange(nb)
            if i in used:
                continue
            used.add(i)
            effs.append({"kind": "assign", "fluent": ["f", f"p{i}"], "value": ["b", rng.random() < 0.6], "cond": lit(rng.randrange(nb), rng.random() < 0.5) if rng.random() < 0.25 else None, "forall": []})
        if rng.random() < 0.35:
            effs.append({"kind": rng.choice(["inc", "inc", "dec"]), "fluent": ["f", "x"], "value": ["i", 1], "cond": None, "forall": []})
        pre = [lit(rng.randrange(nb), rng.random() < 0.5)] if rng.random() < 0.45 else []
        acts.append({"name": f"a{k}", "params": [], "pre": pre, "effects": effs})
    cands = [lit(i, pos) for i in range(nb) for pos in (True, False)] + [["ge", ["f", "x"], ["i", 1]], ["ge", ["f", "x"], ["i", 2]], ["and", lit(0, True), lit(1, True)], ["or", lit(0, False), lit(nb - 1, True)]]
    goals, seen = [], set()
    for g in rng.sample(cands, rng.choice([2, 3, 3])):
        if str(g) not in seen:
            seen.add(str(g))
            goals.append([g, rng.choice(["1", "1", "2", "3", "-1", "-2", "1/2", "3/2", "5"])])
    hard = [rng.choice(cands)] if rng.random() < 0.5 else []
    rec = {"name": "diros", "types": [["T0", None]], "objects": [["o0", ["user", "T0"]]], "fluents": fl, "actions": acts, "init": [], "goals": hard, "invariants": [], "metric": {"kind": "oversub", "goals": goals}}
    return rec, ["directed-oversub"]


def build(key):
    from unified_planning.exceptions import UPException
    from vk.mon import vkbfs_cm

    rng = rng_for(key)
    mode = "if" if int(key.rsplit(":", 1)[1]) % 2 == 0 else "oversub"
    u = rng.random()
    if mode == "if" and u < 0.3:
        rec, feats = _directed_if(rng)
    elif mode == "if" and u < 0.65:
        rec, feats = _directed_multi_if(rng)
    elif mode == "oversub" and u < 0.5:
        rec, feats = _directed_oversub(rng)
    else:
        rec, feats = gen_problem(rng, PROFILE_IF if mode == "if" else PROFILE_OS)
    _finite(rec)
    if mode == "if" and "interpreted_function" not in feats:
        # plant one interpreted function so that every (a)-case exercises the meta-engine
        nums = [f for f in rec["fluents"] if f["type"] != "bool" and f["type"][0] == "int" and not f["sig"]]
        if nums and rec["actions"]:
            f = rng.choice(nums)
            a = rng.choice(rec["actions"])
            if rng.random() < 0.5:
                a["pre"].append(["if", "if_pos", ["plus", ["f", f["name"]], ["i", rng.choice([0, 1, 2])]]])
            else:
                tgt = [e for e in a["effects"] if e["fluent"][1] == f["name"]]
                if not tgt:
                    a["effects"].append({"kind": "assign", "fluent": ["f", f["name"]], "value": ["if", rng.choice(["if_succ", "if_double"]), ["f", f["name"]]], "cond": None, "forall": []})
                else:
                    a["pre"].append(["if", "if_lt", ["f", f["name"]], ["i", rng.choice([1, 2, 3])]])
            feats = sorted(set(feats) | {"interpreted_function"})
    # The interpreted-functions remover builds some of its fluents / parameters / objects in the *global* environment
    # (candidate finding "object-created-in-global-environment"), so with a fresh Environment the meta-engine dies before
    # its learning loop is reached.  To still exercise that loop, all but every FRESH_ENV_EVERY-th (a)-case deliberately live in the global
    # environment (only well-typed constructions are made there); the others and all (b)-cases use a fresh one.
    idx = int(key.rsplit(":", 1)[1])
    if mode == "if" and FRESH_ENV_EVERY > 1 and (idx // 2) % FRESH_ENV_EVERY != 0:
        e = _env.get_environment()
    else:
        e = _env.fresh_env()
    try:
        pb, _ = instantiate_problem(rec, e)
    except UPException:
        return mode, rec, feats, None, e
    if "vk-bfs" not in e.factory.engines:
        vkbfs_cm.register(e)
    return mode, rec, feats, pb, e


def _gain(pb, metric_goals, s):
    """Sum of the weights of the oversubscription goals true in s; None if some goal is a don't-care."""
    I = Interp(pb, s)
    tot = Fraction(0)
    for g, w in metric_goals:
        hv = holds(g, I)
        if hv is None:
            return None
        if hv:
            tot += Fraction(w)
    return tot


def run_case(key, tier, res):
    from unified_planning.exceptions import UPException, UPUsageError
    from vk.mon import vkbfs_cm

    b = BOUNDS[tier]
    mode, rec, feats, pb, e = build(key)
    if pb is None:
        res.count("rejected_at_build")
        return
    vkbfs_cm.CONFIG["max_states"] = b["max_states"]
    name = "interpreted_functions_planning[vk-bfs]" if mode == "if" else "oversubscription[vk-bfs]"

    def viol(mech, summary, **w):
        res.violation(mech, summary, {"case_key": key, "tier": tier, "mode": mode, "recipe": rec, **w})

    try:
        planner = e.factory.OneshotPlanner(name=name)
    except UPException as ex:
        res.count("meta_engine_not_instantiable")
        return
    if not planner.supports(pb.kind):
        res.count("rejected_unsupported_kind:" + mode)
        for ft in sorted(pb.kind.features - planner.supported_kind().features):
            res.count("unsupported_feature:" + ft)
        return
    # ---- reference exploration of the original problem -------------------------------------------------------
    space = Space(pb)
    if len(space.insts) > 60:
        res.count("skipped_too_many_instances")
        return
    ex, _ = explore(space, max_states=b["max_states"])
    if space.dontcare_transitions:
        res.count("dontcare_case_reference_semantics:" + mode)
        return
    if not ex.complete:
        res.count("skipped_state_space_too_large:" + mode)
        return
    goal_states = []
    for i in ex.order:
        g = space.goal(i)
        if g is None:
            res.count("dontcare_case_reference_semantics:" + mode)
            return
        if g:
            goal_states.append(i)
    solvable = bool(goal_states)
    # ---- the real meta-engine ----------------------------------------------------------------------------------
    vkbfs_cm.CALLS.clear()
    res.mon()
    raised = None
    try:
        result = planner.solve(pb)
    except Exception as exn:  # judged below
        raised = exn
    calls = list(vkbfs_cm.CALLS)
    res.count("planner_calls:" + mode, len(calls))
    if any(c["capped"] or c["dontcare"] or c["unsupported"] for c in calls):
        res.count("skipped_harness_planner_incomplete:" + mode)
        return
    if raised is not None:
        if isinstance(raised, UPUsageError) and not isinstance(raised, _env.INTERNAL_EXC):
            res.count("rejected_by_meta_engine:" + mode)
            return
        internal = isinstance(raised, _env.INTERNAL_EXC)
        if not solvable and not internal:
            # The statement promises valid plans and completeness on *solvable* problems; what the meta-engine does on an
            # unsolvable one (here: a documented UPException instead of a negative status) is left open => counted, not judged.
            res.count(f"dontcare_raise_on_unsolvable:{mode}:{type(raised).__name__}")
            return
        res.case()
        cls = "solvable" if solvable else "unsolvable"
        if isinstance(raised, AssertionError) and "environment" in str(raised):
            cls = "object-created-in-global-environment"
        viol(
            f"{mode}:solve-raises:{type(raised).__name__}:{cls}",
            f"{name}.solve raised {raised!r} on a {cls} problem after {len(calls)} planner call(s)",
            planner_calls=calls,
        )
        return
    res.case()
    status = result.status.name
    res.count(f"status:{mode}:{status}")
    res.count("environment:" + ("global" if e is _env.get_environment() else "fresh") + ":" + mode)
    steps = None
    final = None
    valid = None
    if result.plan is not None:
        try:
            seq = []
            for ai in result.plan.actions:
                ii = space.inst_of(ai.action.name, tuple(const_value(p) for p in ai.actual_parameters))
                if ii is None:
                    viol(f"{mode}:plan-uses-unknown-action", f"returned plan contains {ai} which is not a ground action of the problem", status=status)
                    return
                seq.append(ii)
        except Exception as exn:
            viol(f"{mode}:plan-malformed", f"cannot read the returned plan: {exn!r}", status=status)
            return
        steps = space.steps(seq)
        st, path, pos, reason = space.run(seq)
        if st == DONTCARE:
            res.count("dontcare_case_reference_semantics:" + mode)
            return
        valid = st == OKAY and space.goal(path[-1]) is True
        final = path[-1] if st == OKAY else None
        why = None if valid else (f"step {pos} inapplicable ({reason})" if st != OKAY else "goals not satisfied in the final state")
    if mode == "if":
        nontrivial = (steps is not None and len(steps) > 0) or (not solvable and len(calls) >= 2)
        if nontrivial:
            res.nt(("if", h(rec)))
        res.count("if:planner_iterations:" + str(min(len(calls), 4)))
        for ft in feats:
            if ft.startswith("if-in") or ft.startswith("directed-") or ft.startswith("multi-if:"):
                res.count("feature:" + ft)
        multi = "directed-multi-if" in feats
        if status in POSITIVE:
            if result.plan is None:
                viol("if:positive-status-without-plan", f"status {status} with plan None")
                return
            if not valid:
                viol("if:invalid-plan", f"returned plan {steps} is not valid for the original problem: {why}", status=status, plan=steps)
                return
            res.count("if:valid_plan_returned")
            if len(calls) >= 2:
                res.count("if:valid_plan_after_learning")
            if multi and len(calls) >= 3 and steps:
                res.count("if:multi_if_valid_plan_after_2_learning_rounds")
                if "multi-if:immovable-argument" in feats:
                    res.count("if:multi_if_valid_plan_after_2_learning_rounds:immovable-argument")
        else:
            if solvable:
                sp = ex.path_to(goal_states[0])
                viol(
                    f"if:misses-solution:{status}" + (":if-valued-fluent-read-by-effect-condition" if _if_valued_fluent_in_effect_condition(pb) else ""),
                    f"the problem is solvable (e.g. {space.steps(sp)}) but the meta-engine answered {status} after {len(calls)} planner call(s)",
                    status=status,
                    reference_plan=space.steps(sp),
                    planner_calls=calls,
                )
                return
            res.count("if:unsolvable_agreed")
        if nontrivial:
            res.sample({"mode": mode, "problem": rec, "status": status, "plan": steps, "planner_calls": len(calls), "reference_solvable": solvable})
        return
    # ---- oversubscription -----------------------------------------------------------------------------------------
    goals = [(ctx_g, w) for ctx_g, w in _metric_goals(pb)]
    gains = {}
    for i in goal_states:
        gv = _gain(pb, goals, space.states[i])
        if gv is None:
            res.count("dontcare_case_reference_semantics:" + mode)
            return
        gains[i] = gv
    best = max(gains.values()) if gains else None
    if len(set(gains.values())) >= 2:
        res.nt(("os", h(rec)))
        res.count("oversub:distinct_gains_reachable")
    if any(Fraction(w) < 0 for _, w in goals):
        res.count("oversub:negative_weight")
    if status == "SOLVED_OPTIMALLY":
        if result.plan is None:
            viol("oversub:optimal-status-without-plan", "status SOLVED_OPTIMALLY with plan None")
            return
        if not valid:
            viol("oversub:invalid-plan", f"plan {steps} reported optimal is not valid for the hard goals: {why}", plan=steps)
            return
        got = gains.get(final)
        if got != best:
            bi = max(gains, key=lambda i: gains[i])
            viol(
                "oversub:suboptimal-reported-optimal",
                f"plan {steps} reported SOLVED_OPTIMALLY achieves gain {got}, but {space.steps(ex.path_to(bi))} achieves {best}",
                plan=steps,
                gain=str(got),
                best=str(best),
                better_plan=space.steps(ex.path_to(bi)),
            )
            return
        res.count("oversub:optimal_confirmed")
        if len(set(gains.values())) >= 2:
            res.sample({"mode": mode, "problem": rec, "status": status, "plan": steps, "gain": str(got), "planner_calls": len(calls)})
    elif status == "UNSOLVABLE_PROVEN":
        if solvable:
            viol(
                "oversub:unsolvable-proven-but-solvable",
                f"hard goals are reachable (e.g. {space.steps(ex.path_to(goal_states[0]))}) but the meta-engine answered UNSOLVABLE_PROVEN",
                reference_plan=space.steps(ex.path_to(goal_states[0])),
            )
            return
        res.count("oversub:unsolvable_agreed")
    else:
        res.count("oversub:other_status_not_judged:" + status)


def _if_valued_fluent_in_effect_condition(pb):
    """Some effect assigns a value containing an interpreted function to a fluent that an effect *condition* of the problem reads
    (the remover marks such a fluent unknown and drops the assignment, but leaves effect conditions reading the stale value)."""
    from vk.ref.evalx import fluents_in

    targets = set()
    for a in pb.actions:
        for e in a.effects:
            if pb.environment.interpreted_functions_extractor.get(e.value):
                targets.add(e.fluent.fluent().name)
    if not targets:
        return False
    for a in pb.actions:
        for e in a.effects:
            if e.is_conditional() and {f.name for f in fluents_in(e.condition)} & targets:
                return True
    return False


def _metric_goals(pb):
    out = []
    for qm in pb.quality_metrics:
        for g, w in qm.goals.items():
            out.append((g, Fraction(w)))
    return out


def thresholds(m):
    c = m["counters"]
    out = []
    req = [
        ("if:valid_plan_returned", 20),
        ("if:valid_plan_after_learning", 5),
        ("if:unsolvable_agreed", 5),
        ("feature:directed-multi-if", 30),
        ("if:multi_if_valid_plan_after_2_learning_rounds", 8),
        ("if:multi_if_valid_plan_after_2_learning_rounds:immovable-argument", 3),
        ("oversub:optimal_confirmed", 20),
        ("oversub:distinct_gains_reachable", 10),
        ("oversub:negative_weight", 5),
    ]
    for k, n in req:
        if c.get(k, 0) < n:
            out.append(f"fewer than {n} observations of class {k} ({c.get(k, 0)})")
    if c.get("meta_engine_not_instantiable", 0):
        out.append("a meta-engine could not be instantiated over vk-bfs")
    if len(m["nontrivial"]) < 20:
        out.append("fewer than 20 distinct non-trivial problems")
    return out

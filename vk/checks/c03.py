"""C03 — SequentialPlanValidator decides validity and metric values exactly (incl. the empty plan, never raises)."""
from fractions import Fraction

from vk import env as _env  # noqa: F401
from vk.core import rng_for, simple_plan, h
from vk.checks import c01
from vk.gen.plans import all_or_sampled, executable_sequences, toggle_walk, plain_walk
from vk.recipe import sequential_plan
from vk.ref import seqsem
from vk.ref.evalx import Interp, ev, holds, UNDEF, Unsupported, const_value

PROPERTY = "C03"
LEVEL = "exploration"
TECHNIQUE = "runtime monitoring: every SequentialPlanValidator.validate call judged by reference execution (vk.ref.seqsem) and the metric definitions"
LEVEL_TEXT = (
    "Each validate(problem, plan) call on generated problems (with none or one quality metric of every kind) and on all/sampled plans up to a length "
    "bound (always the empty plan, plans with inapplicable steps, reference-found valid plans) is compared with the reference execution: status, "
    "presence of a failure reason, reported metric value; any escaping exception is a violation. Held on the calls observed."
)
LEVEL_NOTE = "Trusted: vk/ref/seqsem.py + evalx.py (oracle), accessors of metrics (costs, goals, expression). Don't-care: plans passing through an undefined-value don't-care step, metrics reading undefined fluents."
RULE = (
    "cases = (generated problem, plan) pairs: all plans of length <= L over the ground instances when <= cap, else random ones, plus reference-guided "
    "executable sequences (goal-reaching and not). evaluations = validate calls judged. distinct_nontrivial = distinct (problem, plan) with |plan|>=1 and "
    "reference-VALID, or reference-INVALID at a step > 1 or by unsatisfied goals after >= 1 applicable step, or the empty plan on a problem with a metric."
)
ASSUMPTIONS = ["problems whose initial state violates bounds/invariants, or that the simulator rejects, are counted as rejected", "metric expression reading an undefined fluent: don't-care"]
BOUNDS = {"quick": dict(n=320, L=3, cap=60, deep=44), "thorough": dict(n=5000, L=4, cap=300, deep=60)}
METRICS = [None, "costs", "length", "minfinal", "maxfinal", "oversub"]


def plan(tier, seed):
    b = BOUNDS[tier]
    return simple_plan(PROPERTY, tier, seed, b["n"], b["n"])


def run_shard(spec, res):
    for key in spec["cases"]:
        try:
            run_case(key, spec["tier"], res)
        except Unsupported:
            res.count("skipped_unsupported_by_oracle")
    if spec["tier"] == "thorough" and spec["shard"] == 0:
        run_corpus(res)


def replay(witness, res):
    if witness.get("corpus"):
        run_corpus(res, only=witness["corpus"])
    else:
        run_case(witness["case_key"], witness.get("tier", "quick"), res, only_plan=None if witness.get("observation_goal_prefix") else witness.get("plan"))


def metric_value(pb, metric, steps, states):
    """Reference value of the single metric for an executable plan; returns ('ok', v) | ('dontcare', why)."""
    if metric.is_minimize_action_costs():
        total = 0
        for (a, args), s in zip(steps, states):
            c = metric.get_action_cost(a)
            if c is None:
                return "dontcare", "action without cost and without default"
            I = Interp(pb, s, {p.name: v for p, v in zip(a.parameters, args)})
            v = ev(c, I, "strict")
            if v is UNDEF:
                return "dontcare", "cost reads an undefined fluent"
            total += v
        return "ok", total
    if metric.is_minimize_sequential_plan_length():
        return "ok", len(steps)
    if metric.is_minimize_expression_on_final_state() or metric.is_maximize_expression_on_final_state():
        v = ev(metric.expression, Interp(pb, states[-1]), "strict")
        if v is UNDEF:
            return "dontcare", "final-value expression reads an undefined fluent"
        return "ok", v
    if metric.is_oversubscription():
        total = 0
        for g, w in metric.goals.items():
            hv = holds(g, Interp(pb, states[-1]))
            if hv is None or (hv is False and ev(g, Interp(pb, states[-1]), "strict") is UNDEF):
                return "dontcare", "oversubscription goal reads an undefined fluent"
            if hv:
                total += w
        return "ok", total
    return "dontcare", "metric kind not modelled"


def judge_call(pb, steps, res, viol, label, pid):
    """Run validate on one plan and judge it. steps = [(action, args)]"""
    from unified_planning.engines.plan_validator import SequentialPlanValidator
    from unified_planning.engines.results import ValidationResultStatus
    from unified_planning.exceptions import UPProblemDefinitionError, UPUsageError

    status, states, idx, r = seqsem.run_plan(pb, steps)
    plan_obj = sequential_plan(pb, steps)
    pl = [[a.name, list(args)] for a, args in steps]
    res.case()
    res.mon()
    try:
        with __import__("warnings").catch_warnings():
            __import__("warnings").simplefilter("ignore")
            vr = SequentialPlanValidator(environment=pb.environment).validate(pb, plan_obj)
    except (UPProblemDefinitionError, UPUsageError) as e:
        res.count("rejected_by_validator:" + type(e).__name__)
        return "rejected"
    except Exception as e:
        metric = pb.quality_metrics[0] if pb.quality_metrics else None
        mk = type(metric).__name__ if metric else "none"
        viol(
            f"validate-raises:{type(e).__name__}:{'empty-plan' if not steps else 'nonempty-plan'}:{mk}",
            f"validate raised {e!r} for plan {pl} (reference: {status} at step {idx})",
            plan=pl,
        )
        return "violation"
    lib_valid = vr.status == ValidationResultStatus.VALID
    if status == seqsem.DONTCARE:
        res.count("dontcare_plan")
        return "dontcare"
    if status == seqsem.OKAY:
        gs = seqsem.goal_status(pb, states[-1])
        if gs is None:
            res.count("dontcare_goal")
            return "dontcare"
        ref_valid = gs
    else:
        ref_valid = False
    mst = None
    if ref_valid and pb.quality_metrics:
        mst = metric_value(pb, pb.quality_metrics[0], steps, states)
        if mst[0] == "dontcare":
            # a metric that reads an undefined fluent is an "expression to be checked" (docs): INVALID and VALID both admissible
            res.count("dontcare_metric:" + mst[1])
            return "dontcare"
    if lib_valid != ref_valid:
        viol(
            "status-mismatch:" + ("lib-valid" if lib_valid else "lib-invalid") + (":" + (r.reason if r is not None else "goals")),
            f"plan {pl}: validator says {vr.status.name}, reference says {'VALID' if ref_valid else 'INVALID'} ({status} at step {idx}: {r.reason if r else 'goal check'})",
            plan=pl,
            expected="VALID" if ref_valid else "INVALID",
            observed=vr.status.name,
        )
        return "violation"
    if not ref_valid:
        res.count("agree_invalid")
        if vr.reason is None:
            viol("invalid-without-reason", f"plan {pl}: INVALID result carries no failure reason", plan=pl)
            return "violation"
        if idx >= 1:
            res.nt((pid, str(pl)))
        return "invalid"
    res.count("agree_valid")
    if steps:
        res.nt((pid, str(pl)))
    if pb.quality_metrics:
        metric = pb.quality_metrics[0]
        mk = type(metric).__name__
        st, v = mst
        res.mon()
        res.count("valid_with_metric:" + mk)
        if not steps:
            res.nt((pid, "empty", mk))
        me = vr.metric_evaluations
        if me is None or metric not in me:
            viol(f"metric-missing:{mk}", f"plan {pl}: VALID result reports no value for the metric (expected {v})", plan=pl, expected=str(v))
            return "violation"
        got = me[metric]
        if Fraction(got) != Fraction(v):
            viol(f"metric-value:{mk}", f"plan {pl}: metric {mk} reported {got}, reference {v}", plan=pl, expected=str(v), observed=str(got))
            return "violation"
    return "valid"


def run_case(key, tier, res, only_plan=None):
    from unified_planning.engines.plan_validator import SequentialPlanValidator

    b = BOUNDS[tier]
    rng = rng_for(key, "metric")
    mk = METRICS[int(key.rsplit(":", 1)[1]) % len(METRICS)]
    profile = dict(c01.PROFILE, metric=mk, interpreted_functions=0.0, max_actions=3)
    rec, feats, pb, ex = c01.build(key, profile)
    if pb is None:
        res.count("rejected_at_build")
        return
    if not SequentialPlanValidator.supports(pb.kind):
        res.count("rejected_unsupported_kind")
        return
    pid = h(rec)

    def viol(mech, summary, **w):
        res.violation(mech, summary, {"case_key": key, "tier": tier, "recipe": rec, **w})

    # problems whose initial state is not a legal state are out of scope (documented UPProblemDefinitionError)
    rs0 = seqsem.initial_state(pb)
    if not seqsem.bounds_ok(pb, rs0)[0] or seqsem.invariants_status(pb, rs0) is not True:
        res.count("rejected_initial_state_illegal_or_dontcare")
        return
    gfl = seqsem.ground_fluents(pb)
    if any(
        (f.type.is_int_type() or f.type.is_real_type()) and (f.type.lower_bound is not None or f.type.upper_bound is not None) and (f.name, args) not in rs0
        for f, args in gfl
    ):
        res.count("rejected_undefined_bounded_fluent")
        return
    insts = seqsem.all_instances(pb)
    if only_plan is not None:
        steps = [(pb.action(a), tuple(args)) for a, args in only_plan]
        judge_call(pb, steps, res, viol, "replay", pid)
        return
    plans, exhaustive = all_or_sampled(rng, insts, b["L"], b["cap"])
    goal, nongoal = executable_sequences(pb, insts, b["L"], cap_nodes=600, want=6)
    plans = [[]] + [p for p in plans if p] + goal + nongoal
    # one deep executable plan (beyond UPState's ancestor-flattening depth of 20), found by a reference-guided random walk
    deep = []
    if b.get("deep", 0):
        walk = toggle_walk if rng.random() < 0.7 else plain_walk
        deep = [(a, args) for a, args, _ in walk(pb, insts, b["deep"], rng, rs0)]
    if len(deep) > 20:
        res.count("deep_plans")
        plans.append(deep)
        # observation goals: a copy of the problem whose goal pins every defined ground fluent to the reference final state of a
        # deep prefix must make that prefix VALID; any divergence of the validator's internal state becomes visible in the status
        ks = sorted({len(deep)} | {k for k in (21, 22, 23, 26, 31, 41) if k <= len(deep)})
        for k in ks:
            pref = deep[:k]
            st, states, idx, r = seqsem.run_plan(pb, pref)
            if st != seqsem.OKAY:
                continue
            pb2 = pb.clone()
            pb2.clear_goals()
            pb2.clear_quality_metrics()
            em = pb.environment.expression_manager
            for f, args in gfl:
                if (f.name, args) not in states[-1]:
                    continue
                fe = seqsem.fexp(pb, f, args)
                v = states[-1][(f.name, args)]
                if f.type.is_bool_type():
                    pb2.add_goal(fe if v else em.Not(fe))
                elif f.type.is_user_type():
                    pb2.add_goal(em.Equals(fe, em.ObjectExp(pb.object(v))))
                else:
                    pb2.add_goal(em.Equals(fe, em.Real(Fraction(v)) if Fraction(v).denominator != 1 else em.Int(int(v))))
            res.count("observation_goal_validations")

            def viol2(mech, summary, **w):
                viol("deep-state:" + mech, summary + " [goal replaced by the reference final state of the prefix]", observation_goal_prefix=k, **w)

            out = judge_call(pb2, [(pb2.action(a.name), args) for a, args in pref], res, viol2, "deep", pid + ":obs")
            if out == "violation":
                return
    seen = set()
    sampled = False
    for steps in plans:
        k = str([(a.name, args) for a, args in steps])
        if k in seen:
            continue
        seen.add(k)
        out = judge_call(pb, steps, res, viol, "gen", pid)
        if out == "violation" or out == "rejected":
            return
        if out == "valid" and steps and not sampled:
            sampled = True
            res.sample({"problem": rec, "plan": [[a.name, list(args)] for a, args in steps], "verdict": "VALID (validator and reference agree)", "metric": mk})


def run_corpus(res, only=None):
    """Example problems with their reference plans + up_test_cases labelled plans (second, human-labelled opinion)."""
    from unified_planning.test.examples import get_example_problems
    from unified_planning.engines.plan_validator import SequentialPlanValidator
    from unified_planning.model import Problem
    from unified_planning.plans import SequentialPlan

    for name, ex in sorted(get_example_problems().items()):
        if only and name != only:
            continue
        pb = ex.problem
        if type(pb) is not Problem or not SequentialPlanValidator.supports(pb.kind) or pb.kind.has_simulated_effects():
            continue
        for pl in ex.valid_plans + ex.invalid_plans:
            if not isinstance(pl, SequentialPlan):
                continue
            try:
                steps = []
                for ai in pl.actions:
                    from vk.ref.evalx import const_value

                    steps.append((pb.action(ai.action.name), tuple(const_value(p) for p in ai.actual_parameters)))
                if len(seqsem.ground_fluents(pb)) > 600:
                    res.count("corpus_skipped_too_large")
                    continue
            except Exception:
                res.count("corpus_skipped_unsupported")
                continue
            res.count("corpus_plans")

            def viol(mech, summary, **w):
                res.violation(mech, summary, {"corpus": name, "tier": "thorough", **w})

            try:
                judge_call(pb, steps, res, viol, "corpus", "ex:" + name)
            except Unsupported:
                res.count("corpus_skipped_unsupported")


def thresholds(m):
    c = m["counters"]
    out = []
    for mk in ("MinimizeActionCosts", "MinimizeSequentialPlanLength", "MinimizeExpressionOnFinalState", "MaximizeExpressionOnFinalState", "Oversubscription"):
        if c.get("valid_with_metric:" + mk, 0) < 2:
            out.append(f"fewer than 2 VALID plans with metric {mk} ({c.get('valid_with_metric:' + mk, 0)})")
    if c.get("observation_goal_validations", 0) < 30:
        out.append("fewer than 30 observation-goal validations of deep prefixes")
    if c.get("deep_plans", 0) < 10:
        out.append("fewer than 10 plans longer than 20 steps")
    if c.get("agree_invalid", 0) < 20 or c.get("agree_valid", 0) < 20:
        out.append("fewer than 20 agreed VALID or INVALID verdicts")
    return out

"""C13 — substitution replaces exactly the free, maximal occurrences of its keys (top-down, no re-substitution)."""
from vk import env as _env  # noqa: F401
from vk.core import rng_for, simple_plan
from vk.gen.expr import ExprWorld, instantiate_world
from vk.gen.interp import interpretations
from vk.ref import seqsem, subst as rsub
from vk.ref.evalx import ev, UNDEF, fluents_in, free_vars, Unsupported, Interp

PROPERTY = "C13"
LEVEL = "exploration"
TECHNIQUE = "runtime monitoring: every Substituter.substitute result compared (node identity) with a reference top-down substitution, plus evaluation under the updated interpretation"
LEVEL_TEXT = (
    "Every substitute(e, map) call on generated expressions and maps (keys: fluent expressions, parameters, variables, compound sub-terms, keys nested "
    "in other keys, keys under quantifiers binding their variables; values of compatible and of incompatible types) is compared with an independent "
    "reference substitution built through the public constructors (hash-consing makes the comparison object identity); for atomic keys the result is "
    "also evaluated against the original under the interpretation updated by the map; incompatible maps must raise UPTypeError and leave later calls intact."
)
LEVEL_NOTE = "Trusted: vk/ref/subst.py, vk/ref/evalx.py, the public expression constructors, Type.is_compatible as the notion of a type-compatible map."
RULE = (
    "cases = (expression, substitution map) pairs over a generated world; evaluations = substitute calls judged; distinct_nontrivial = distinct pairs where at "
    "least one key occurs (and is replaced) in the expression."
)
ASSUMPTIONS = ["when the real call raises a natural error while rebuilding a child the reference skips, the case is counted as diverged-by-exception and not judged"]
BOUNDS = {"quick": dict(n=700, per=6, cap=24), "thorough": dict(n=15000, per=10, cap=48)}


def plan(tier, seed):
    b = BOUNDS[tier]
    return simple_plan(PROPERTY, tier, seed, b["n"], b["n"])


def run_shard(spec, res):
    if spec["tier"] == "thorough" and spec["shard"] == 1:
        # the repository's own test-suite re-run with the universal monitor installed (DESIGN §4): every internal call is judged
        from vk.mon import suite as _suite

        _suite.feed(res, PROPERTY, _suite.run_suite(("subst",)), "M-subst:judged")
    for key in spec["cases"]:
        try:
            run_case(key, spec["tier"], res)
        except Unsupported:
            res.count("skipped_unsupported_by_oracle")


def replay(witness, res):
    if witness.get("suite"):
        from vk.mon import suite as _suite

        _suite.replay_suite(res, PROPERTY, ("subst",), "M-subst:judged", witness)
        return
    run_case(witness["case_key"], witness.get("tier", "quick"), res, only=witness.get("index"))


BOOL_OPS = {"and", "or", "not", "implies", "iff", "exists", "forall", "eq", "le", "lt", "ge", "gt", "b"}
NUM_OPS = {"plus", "minus", "times", "div", "i", "r"}


def subterms(w, e, under=(), out=None):
    """list of (recipe, kind, bound-vars-in-scope) for every sub-term; kind: 'bool' | ('num', int_only) | ('obj', type) | None"""
    if out is None:
        out = []
    if not isinstance(e, list):
        return out
    k = e[0]
    kind = None
    if k in BOOL_OPS:
        kind = "bool"
    elif k in NUM_OPS:
        kind = ("num", False)
    elif k == "f":
        f = next(fl for fl in w.g.fluents if fl["name"] == e[1])
        t = f["type"]
        kind = "bool" if t == "bool" else (("num", t[0] == "int") if t[0] in ("int", "real") else ("obj", t[1]))
    elif k == "p":
        t = dict((n, t) for n, t in w.params)[e[1]]
        kind = ("obj", t[1]) if t[0] == "user" else ("num", t[0] == "int")
    elif k == "v":
        kind = ("obj", e[2][1])
    elif k == "if":
        kind = "bool" if e[1] in ("if_pos", "if_lt") else ("num", e[1] != "if_half")
    if kind is not None and k not in ("b", "i", "r", "o"):
        out.append((e, kind, under))
    if k in ("exists", "forall"):
        subterms(w, e[2], under + tuple(v[0] for v in e[1]), out)
    elif k in ("f", "if"):
        for a in e[2:]:
            subterms(w, a, under, out)
    elif k not in ("b", "i", "r", "o", "p", "v"):
        for a in e[1:]:
            subterms(w, a, under, out)
    return out


def value_for(w, rng, kind, incompatible=False):
    g = w.g
    sc = {"params": w.params, "vars": w.vars}
    if incompatible:
        if kind == "bool":
            return g.num(1, sc)
        if kind[0] == "num":
            return ["r", "1/2"] if kind[1] else g.boolean(1, sc)
        # object: a strict supertype or unrelated type
        others = [t for t, _ in g.types if t not in g.subtypes(kind[1])]
        if others:
            x = g.obj_term(rng.choice(others), sc, allow_fluent=False)
            if x is not None:
                return x
        return g.num(0, sc)
    if kind == "bool":
        return g.boolean(1, sc)
    if kind[0] == "num":
        return g.num(1, sc, int_only=kind[1])
    return g.obj_term(kind[1], sc, allow_fluent=True)


def run_case(key, tier, res, only=None):
    from unified_planning.exceptions import UPException, UPTypeError

    b = BOUNDS[tier]
    rng = rng_for(key)
    w = ExprWorld(rng, n_vars=2)
    e_env = _env.fresh_env()
    try:
        pb, ctx = instantiate_world(w, e_env)
    except UPException:
        res.count("rejected_at_build")
        return
    em = e_env.expression_manager
    ptypes = [(n, ctx.type(t)) for n, t in w.params]
    vtypes = [(n, ctx.type(t)) for n, t in w.vars]
    for idx in range(b["per"]):
        er = w.boolean(rng.choice([2, 3])) if rng.random() < 0.6 else w.numeric(rng.choice([2, 3]))
        subs = subterms(w, er)
        nkeys = rng.choice([1, 1, 2, 2, 3])
        mrec = []
        want_bad = rng.random() < 0.12
        picked = []
        for j in range(nkeys):
            if subs and rng.random() < 0.85:
                kr, kind, under = rng.choice(subs)
                if rng.random() < 0.3:
                    # a key nested in the previous key
                    inner = subterms(w, kr)[1:]
                    if inner:
                        kr2, kind2, under2 = rng.choice(inner)
                        picked.append((kr2, kind2))
                picked.append((kr, kind))
            else:
                # an unrelated key
                kr = w.boolean(1) if rng.random() < 0.5 else w.numeric(1)
                st = subterms(w, kr)
                if st:
                    picked.append((st[0][0], st[0][1]))
        for j, (kr, kind) in enumerate(picked):
            v = value_for(w, rng, kind, incompatible=want_bad and j == len(picked) - 1)
            if v is not None:
                mrec.append([kr, v])
        if only is not None and idx != only:
            continue
        try:
            e = ctx.expr(er)
            m = {}
            for kr, vr in mrec:
                m[ctx.expr(kr)] = ctx.expr(vr)
        except (UPException, ZeroDivisionError):
            res.count("rejected_expression")
            continue
        if not m:
            continue
        res.case()

        def viol(mech, summary, **kw):
            res.violation(mech, summary, {"case_key": key, "tier": tier, "index": idx, "expr": str(e), "map": {str(k): str(v) for k, v in m.items()}, "expr_recipe": er, "map_recipe": mrec, "world": w.rec, **kw})

        compatible = all(k.type.is_compatible(v.type) for k, v in m.items())
        # reference first (same environment: identity comparison)
        ref_exc = None
        exp, hits = None, 0
        if compatible:
            try:
                exp, hits = rsub.substitute(e, m)
            except (UPException, ZeroDivisionError) as ex:
                ref_exc = ex
        res.mon()
        try:
            got = e_env.substituter.substitute(e, m)
            got_exc = None
        except Exception as ex:
            got, got_exc = None, ex
        if not compatible:
            res.count("incompatible_maps")
            res.nt(("incompatible", str(er), str(mrec)))
            if not isinstance(got_exc, UPTypeError):
                viol("incompatible-map-not-rejected", f"substitute({e}, {m}) with a type-incompatible map returned {got} / raised {got_exc!r} instead of UPTypeError")
                continue
            # later calls must be unaffected: redo a compatible prefix of the map
            good = {k: v for k, v in m.items() if k.type.is_compatible(v.type)}
            if good:
                try:
                    exp2, _ = rsub.substitute(e, good)
                    got2 = e_env.substituter.substitute(e, good)
                    res.mon()
                    if got2 is not exp2:
                        viol("call-after-rejected-map-differs", f"after a rejected map, substitute({e}, {good}) = {got2}, expected {exp2}")
                except (UPException, ZeroDivisionError):
                    res.count("diverged-by-exception")
            continue
        if ref_exc is not None:
            if got_exc is None:
                # the ill-typed node may have been cached by the reference's own attempt; not judged
                res.count("reference_raised_only")
            else:
                res.count("both_raise")
            continue
        if got_exc is not None:
            if isinstance(got_exc, (UPException, ZeroDivisionError)):
                res.count("diverged-by-exception")
                continue
            viol(f"substitute-raises:{type(got_exc).__name__}", f"substitute({e}, {m}) raised {got_exc!r}; expected {exp}")
            continue
        if hits:
            res.nt((str(er), str(mrec)))
            res.count("with_hit")
        if any(free_vars(k) for k in m) and ("exists" in str(er) or "forall" in str(er)):
            res.count("variable_key_with_quantifier")
        if got is not exp:
            under_q = any(k for k in m if free_vars(k)) and (e.is_exists() or e.is_forall() or "Exists" in str(e) or "Forall" in str(e))
            viol(
                "result-differs" + (":quantifier" if under_q else "") + (":nested-keys" if any(k2 in _sub(k1) for k1 in m for k2 in m if k1 is not k2) else ""),
                f"substitute({e}, {m}) = {got}, expected {exp}",
                expected=str(exp),
                observed=str(got),
            )
            continue
        # secondary: evaluation under the updated interpretation, for atomic keys only
        atomic = all((k.is_parameter_exp() or k.is_variable_exp() or (k.is_fluent_exp() and not k.args)) for k in m)
        bound_names = _bound_names(e)
        if atomic and not any(free_vars(v) & bound_names for v in m.values()) and not any(free_vars(k) & bound_names for k in m):
            used = fluents_in(e) | fluents_in(got)
            for v in m.values():
                used |= fluents_in(v)
            gfl = [(f, a) for f, a in seqsem.ground_fluents(pb) if f in used]
            interps, exh = interpretations(pb, rng, ptypes, vtypes, cap=b["cap"], fluents=gfl)
            for I in interps:
                fl, ps, vs = dict(I.fluents), dict(I.params), dict(I.vars)
                okv = True
                for k, v in m.items():
                    val = ev(v, I, "strict")
                    if val is UNDEF:
                        okv = False
                        break
                    if k.is_parameter_exp():
                        ps[k.parameter().name] = val
                    elif k.is_variable_exp():
                        vs[k.variable().name] = val
                    else:
                        fl[(k.fluent().name, ())] = val
                if not okv:
                    continue
                J = Interp(pb, fl, ps, vs)
                a, c = ev(e, J, "strict"), ev(got, I, "strict")
                res.mon()
                if a is UNDEF or c is UNDEF:
                    continue
                if a != c:
                    viol("semantic-mismatch", f"substitute({e}, {m}) = {got}: original under updated interpretation = {a}, result = {c}")
                    break
            res.count("semantic_checked")
        if idx == 0:
            res.sample({"expr": str(e), "map": {str(k): str(v) for k, v in m.items()}, "result": str(got), "keys_replaced": hits})


def _sub(e):
    out, st = set(), list(e.args)
    while st:
        x = st.pop()
        out.add(x)
        st.extend(x.args)
    return out


def _bound_names(e):
    out, st = set(), [e]
    while st:
        x = st.pop()
        if x.is_exists() or x.is_forall():
            out |= {v.name for v in x.variables()}
        st.extend(x.args)
    return out


def thresholds(m):
    c = m["counters"]
    out = []
    for k, n in (("with_hit", 200), ("incompatible_maps", 20), ("variable_key_with_quantifier", 10), ("semantic_checked", 50)):
        if c.get(k, 0) < n:
            out.append(f"{k} observed {c.get(k, 0)} < {n}")
    return out

"""C10 — the computed problem kind contains every feature the problem syntactically uses.

Monitor: every evaluation of `<problem>.kind` made by this workload is judged at the API boundary against the independent
syntactic feature extractor vk/ref/kindx.py: every requirement (a feature, or the weakest alternative set of a feature whose
definition depends on analysis) found at some syntactic position must be met by `kind.features`."""
from vk import env as _env  # noqa: F401  (wires sys.path to /repo)
from vk.core import rng_for, chunk, h
from vk.checks import c10_positions as P
from vk.ref import kindx

PROPERTY = "C10"
LEVEL = "exploration"
TECHNIQUE = "runtime monitoring: every observed `.kind` result judged against an independent syntactic feature extractor"
LEVEL_TEXT = (
    "For every generated problem (classical/numeric/temporal Problem, hierarchical, multi-agent, contingent, scheduling; "
    "each named feature planted in each syntactic position), every problem of the C01 grammar and every problem of the "
    "example and up_test_cases corpora, the feature set returned by the real `.kind` property is compared with the features an "
    "independent walk over the problem's read-only accessors finds; held on the executions observed only."
)
LEVEL_NOTE = (
    "Trusted: CPython, the read-only accessors of the model classes, the public constructors used by the generator, "
    "vk/ref/kindx.py (oracle). Features whose definition depends on analysis are demanded only in their weakest form "
    "(STATIC_ or non-static variant; INT_ or REAL_ variant); Implies/Iff as disjunction, fluents in increase/decrease values, "
    "types the problem does not list among its user_types, undefined initial values of multi-agent problems and of hidden "
    "contingent fluents are not judged (counted as dontcare:*)."
)
RULE = (
    "cases = (a) plant cases: case i plants entry i mod |TABLE| of vk/checks/c10_positions.py (problem class, syntactic "
    "position, feature) into an otherwise bare problem of that class built through the public constructors (from the second "
    "round on with 1-3 further random plants of the same class), (b) problems of the C01 grammar with metrics / trajectory "
    "constraints / interpreted functions, (c) the example corpus and up_test_cases. One evaluation = one problem whose `.kind` "
    "was computed and judged. distinct_nontrivial = distinct (feature, 'class:position') pairs the oracle observed in judged "
    "problems; the run is inconclusive unless every pair of the table was observed at least twice."
)
ASSUMPTIONS = [
    "vk/ref/kindx.py implements the feature table of docs/problem_representation.rst for the features named in the statement; accessors of the model classes do not lie",
    "weakest-form alternatives and the dontcare:* classes listed in the evidence counters are excluded from judgement",
]

N_TABLE = len(P.TABLE)
BOUNDS = {
    "quick": dict(rounds=3, grammar=200, shards=8),
    "thorough": dict(rounds=24, grammar=4000, shards=16),
}


def plan(tier, seed):
    b = BOUNDS[tier]
    keys = [f"C10:{seed}:{i}" for i in range(b["rounds"] * N_TABLE)]
    keys += [f"C10g:{seed}:{i}" for i in range(b["grammar"])]
    specs = []
    for si, ch in enumerate(chunk(keys, b["shards"])):
        specs.append({"shard": si, "tier": tier, "seed": seed, "cases": ch})
    specs.append({"shard": len(specs), "tier": tier, "seed": seed, "cases": [], "corpus": True})
    return specs


def run_shard(spec, res):
    for key in spec["cases"]:
        run_case(key, spec["tier"], res)
    if spec.get("corpus"):
        run_corpus(spec["tier"], res)


def replay(witness, res):
    if witness.get("corpus"):
        run_corpus(witness.get("tier", "quick"), res, only=witness["corpus"])
    else:
        run_case(witness["case_key"], witness.get("tier", "quick"), res)


# ---- mechanism strings: one per root cause ---------------------------------------------------------------------------
def mechanism(pos, family):
    pc, where = pos.split(":", 1)
    if family == "PARAMETERS":
        return f"missing:{pc}:parameter-kinds"  # parameter kinds of fluents / actions (instantaneous or durative)
    if pc == "ma" and family == "ASSIGNMENTS":
        return "missing:ma:action-effect-value:ASSIGNMENTS"  # effect values are never inspected (any action class)
    if pc == "ma" and where.startswith("durative-"):
        return "missing:ma:durative-action"  # conditions / effects / duration of an agent's durative action are not inspected
    if pc == "htn" and where in ("method-param", "task-param", "task-network-variable"):
        return f"missing:htn:task-method-or-network-parameter:{family}"  # parameter types of tasks / methods / task networks
    return f"missing:{pos}:{family}"


def judge(pb, wbase, res, describe):
    """Evaluate pb.kind and judge it. describe() -> dict with human-readable details for a witness."""
    from unified_planning.exceptions import UPException

    pc, reqs, notes = kindx.extract(pb)
    if pc is None:
        res.count("skipped_unknown_problem_class")
        return
    res.mon()
    try:
        kind = pb.kind
        feats = set(kind.features)
    except _env.INTERNAL_EXC as e:
        res.case()
        res.violation(f"kind-raises:{type(e).__name__}", f"{type(pb).__name__}.kind raised {e!r}", {**wbase, **describe()})
        return
    except UPException as e:
        res.count("rejected_by_kind:" + type(e).__name__)
        return
    res.case()
    res.count("class:" + pc)
    for k, v in notes.items():
        res.count(k, v)
    seen = set()
    for alts, label, family, pos in reqs:
        pair = (label, pos)
        if pair not in seen:
            seen.add(pair)
            res.nt(pair)
            res.count(f"pair:{label}@{pos}")
    miss = kindx.missing(reqs, feats)
    if miss:
        by_mech = {}
        for alts, label, family, pos in miss:
            by_mech.setdefault(mechanism(pos, family), []).append({"needs_one_of": list(alts), "position": pos})
        d = describe()
        for mech, items in sorted(by_mech.items()):
            res.violation(
                mech,
                f"kind of a {type(pb).__name__} lacks "
                + "; ".join(f"{'|'.join(i['needs_one_of'])} (used at {i['position']})" for i in items[:4]),
                {**wbase, "missing": items, "kind_features": sorted(feats), **d},
            )
    return feats


def specs_for(key):
    """Deterministic plant list of a plant case."""
    i = int(key.split(":")[2])
    rng = rng_for(key)
    spec = P.TABLE[i % N_TABLE]
    specs = [spec]
    if i >= N_TABLE:
        same = [s for s in P.TABLE if s[0] == spec[0]]
        for _ in range(rng.choice([1, 1, 2, 3])):
            specs.append(rng.choice(same))
    return rng, specs


def run_case(key, tier, res):
    if key.startswith("C10g:"):
        return run_grammar_case(key, tier, res)
    from unified_planning.environment import get_environment
    from unified_planning.exceptions import UPException
    from vk.gen import kindplant

    rng, specs = specs_for(key)
    # HierarchicalProblem / SchedulingProblem create their task network / activities in the global environment
    env = get_environment() if specs[0][0] in ("htn", "sched") else _env.fresh_env()
    try:
        pb, log, skipped = kindplant.build(rng, env, specs)
    except UPException as e:
        res.count("rejected_at_build:" + type(e).__name__)
        return
    for s, why in skipped:
        res.count("plant_skipped")
    wbase = {"case_key": key, "tier": tier}
    feats = judge(pb, wbase, res, lambda: {"plants": [list(s) for s in specs], "log": log, "problem": str(pb)[:3000]})
    if feats is not None:
        res.sample({"plants": [list(s) for s in specs], "log": log, "kind": sorted(feats)})


GRAMMAR_PROFILE = dict(metric="any", traj=0.35, interpreted_functions=0.15, invariants=0.3, undefined_init=0.3, int_params=0.2)


def run_grammar_case(key, tier, res):
    from unified_planning.exceptions import UPException
    from vk.gen.problem import gen_problem
    from vk.recipe import instantiate_problem

    rng = rng_for(key)
    prof = dict(GRAMMAR_PROFILE)
    if rng.random() < 0.3:
        prof["metric"] = None
    rec, gfeats = gen_problem(rng, prof)
    env = _env.fresh_env()
    try:
        pb, _ = instantiate_problem(rec, env)
    except UPException as e:
        res.count("rejected_at_build:" + type(e).__name__)
        return
    res.count("grammar_cases")
    judge(pb, {"case_key": key, "tier": tier}, res, lambda: {"recipe": rec, "problem": str(pb)[:3000]})


def corpus():
    import sys

    from unified_planning.test.examples import get_example_problems

    out = []
    for name, tc in sorted(get_example_problems().items()):
        out.append(("example:" + name, tc.problem))
    p = _env.REPO + "/up_test_cases"
    if p not in sys.path:
        sys.path.append(p)
    from up_test_cases import builtin  # noqa: E402

    for name, tc in sorted(builtin.get_test_cases().items()):
        out.append(("up_test_cases:" + name, tc.problem))
    return out


def run_corpus(tier, res, only=None):
    for name, pb in corpus():
        if only and name != only:
            continue
        res.count("corpus_problems")
        judge(pb, {"corpus": name, "tier": tier}, res, lambda: {"problem": str(pb)[:3000]})


def thresholds(m):
    c = m["counters"]
    out = []
    unseen = []
    for spec in P.TABLE:
        label, pos = P.pair_of(spec)
        if c.get(f"pair:{label}@{pos}", 0) < P.MIN_OBS:
            unseen.append(f"{label}@{pos}")
    if unseen:
        out.append(f"{len(unseen)} (feature, position) pairs of the table observed fewer than {P.MIN_OBS} times: " + ", ".join(unseen[:12]))
    for pc in ("prob", "htn", "ma", "cont", "sched"):
        if c.get("class:" + pc, 0) < 20:
            out.append(f"fewer than 20 judged problems of class {pc}")
    if c.get("corpus_problems", 0) < 100:
        out.append(f"corpus not loaded completely ({c.get('corpus_problems', 0)} problems)")
    if c.get("grammar_cases", 0) < 50:
        out.append("fewer than 50 grammar problems judged")
    rej = sum(v for k, v in c.items() if k.startswith("rejected_"))
    if rej * 2 > max(1, m["evaluations"]):
        out.append("more than half of the cases were rejected")
    return out


def extra_coverage(m):
    c = m["counters"]
    return {
        "table_pairs": N_TABLE,
        "table_pairs_observed": sum(1 for s in P.TABLE if c.get("pair:%s@%s" % P.pair_of(s), 0) >= P.MIN_OBS),
        "dont_care_counts": {k: v for k, v in c.items() if k.startswith("dontcare:")},
    }

"""C10 — the computed problem kind contains every feature the problem syntactically uses.

Monitor: every evaluation of `<problem>.kind` made by this workload is judged at the API boundary against the independent
syntactic feature extractor vk/ref/kindx.py: every requirement (a feature, or the weakest alternative set of a feature whose
definition depends on analysis) found at some syntactic position must be met by `kind.features`.

History cases: `.kind` is a function of the *current* problem, not of earlier evaluations.  A problem is built, `.kind` is
evaluated and judged, the problem is mutated through the public API (add_object, set_initial_value, add_fluent / add_action /
add_goal / timed effects / metrics / ... through further plants, add_agent and same-named agent fluents for multi-agent
problems), and `.kind` is evaluated and judged again after every mutation - each time against the oracle, which recomputes
from scratch."""
from vk import env as _env  # noqa: F401  (wires sys.path to /repo)
from vk.core import rng_for, chunk, h
from vk.checks import c10_positions as P
from vk.ref import kindx

PROPERTY = "C10"
LEVEL = "exploration"
TECHNIQUE = "runtime monitoring: every observed `.kind` result judged against an independent syntactic feature extractor"
LEVEL_TEXT = (
    "For every generated problem (classical/numeric/temporal Problem, hierarchical, multi-agent, contingent, scheduling; "
    "each named feature planted in each syntactic position), every problem of the C01 grammar and every problem of the "
    "example and up_test_cases corpora, the feature set returned by the real `.kind` property is compared with the features an "
    "independent walk over the problem's read-only accessors finds; problems are also re-evaluated after mutations through the "
    "public API (every evaluation judged against the from-scratch oracle); in the thorough tier the repository's own test-suite "
    "is re-run with a class-level pass-through monitor on the `kind` property of the five problem classes, so that every kind "
    "the tests, compilers, engines and writers compute is judged by the same oracle; held on the executions observed only."
)
LEVEL_NOTE = (
    "Trusted: CPython, the read-only accessors of the model classes, the public constructors used by the generator, "
    "vk/ref/kindx.py (oracle). Features whose definition depends on analysis are demanded only in their weakest form "
    "(STATIC_ or non-static variant; INT_ or REAL_ variant); Implies/Iff as disjunction, fluents in increase/decrease values, "
    "types the problem does not list among its user_types, undefined initial values of multi-agent problems and of hidden "
    "contingent fluents are not judged (counted as dontcare:*). Suite monitor (vk/mon/universal.install_kind): trusted are "
    "also pytest/xdist and the monkey-patched property wrappers; only the outermost evaluation is judged (ContingentProblem.kind "
    "calls Problem.kind), the oracle runs under a re-entrancy guard, at most 500 evaluations per test are judged (the rest is "
    "counted as suite:M-kind:over_budget_not_judged), evaluations that raise are counted, not judged; the tests' own "
    "pass/fail is not a verdict."
)
RULE = (
    "cases = (a) plant cases: case i plants entry i mod |TABLE| of vk/checks/c10_positions.py (problem class, syntactic "
    "position, feature) into an otherwise bare problem of that class built through the public constructors (from the second "
    "round on with 1-3 further random plants of the same class), (b) problems of the C01 grammar with metrics / trajectory "
    "constraints / interpreted functions, (c) the example corpus and up_test_cases. One evaluation = one problem whose `.kind` "
    "was computed and judged. (d) history cases: a plant problem of each class (or a C01-grammar problem), often with a fluent "
    "without default whose ground instances are all initialised explicitly, is evaluated, then mutated 1-3 times (add_object "
    "with / without initial values for the new state variables, set_initial_value, a further plant = add_fluent / add_action / "
    "add_goal / ..., for multi-agent problems add_agent and same-named fluents of another type in the other agent) and "
    "re-evaluated after every mutation; every evaluation is judged; a re-evaluation is non-trivial when the oracle demands a "
    "feature the previous evaluation's kind did not contain (counted per mutation as history_gain:*). Multi-agent plant "
    "problems declare, in part of the cases, same-named fluents of different type / signature in the two agents and add the "
    "agents in either order. distinct_nontrivial = distinct (feature, 'class:position') pairs the oracle observed in judged "
    "problems (plus distinct (mutation, feature, position) gains); the run is inconclusive unless every pair of the table "
    "was observed at least twice. (e) thorough tier only: one run of unified_planning/test under M-kind; one evaluation = one "
    "outermost `.kind` evaluation judged (suite:M-kind:judged); witnesses carry the test id (\"suite\": true) and are replayed by "
    "re-running that test file under the monitor; the run is inconclusive if the suite ran and fewer than 1500 evaluations were judged."
)
ASSUMPTIONS = [
    "vk/ref/kindx.py implements the feature table of docs/problem_representation.rst for the features named in the statement; accessors of the model classes do not lie",
    "weakest-form alternatives and the dontcare:* classes listed in the evidence counters are excluded from judgement",
]

N_TABLE = len(P.TABLE)
BOUNDS = {
    "quick": dict(rounds=3, grammar=200, history=300, shards=8),
    "thorough": dict(rounds=24, grammar=16000, history=24000, shards=16),
}
HISTORY_SOURCES = ["grammar", "prob", "htn", "cont", "sched", "ma"]


def plan(tier, seed):
    b = BOUNDS[tier]
    keys = [f"C10:{seed}:{i}" for i in range(b["rounds"] * N_TABLE)]
    keys += [f"C10g:{seed}:{i}" for i in range(b["grammar"])]
    hist = [f"C10h:{seed}:{i}" for i in range(b["history"])]
    # interleave so that every shard gets its share of each family
    n = max(1, len(keys) // max(1, len(hist)))
    mixed = []
    hi = 0
    for j, k in enumerate(keys):
        mixed.append(k)
        if j % n == n - 1 and hi < len(hist):
            mixed.append(hist[hi])
            hi += 1
    keys = mixed + hist[hi:]
    specs = []
    for si, ch in enumerate(chunk(keys, b["shards"])):
        specs.append({"shard": si, "tier": tier, "seed": seed, "cases": ch})
    specs.append({"shard": len(specs), "tier": tier, "seed": seed, "cases": [], "corpus": True})
    return specs


SUITE = (("kind",), "M-kind:judged")


def run_shard(spec, res):
    if spec["tier"] == "thorough" and spec["shard"] == 1:
        # the repository's own test-suite re-run with the universal monitor M-kind installed (DESIGN §4): every `.kind` the
        # tests (and the compilers / engines / writers they drive) evaluate is judged against the from-scratch extractor
        from vk.mon import suite as _suite

        _suite.feed(res, PROPERTY, _suite.run_suite(SUITE[0]), SUITE[1])
    for key in spec["cases"]:
        run_case(key, spec["tier"], res)
    if spec.get("corpus"):
        run_corpus(spec["tier"], res)


def replay(witness, res):
    if witness.get("suite"):
        from vk.mon import suite as _suite

        _suite.replay_suite(res, PROPERTY, SUITE[0], SUITE[1], witness)
        return
    if witness.get("corpus"):
        run_corpus(witness.get("tier", "quick"), res, only=witness["corpus"])
    else:
        run_case(witness["case_key"], witness.get("tier", "quick"), res)


# ---- mechanism strings: one per root cause ---------------------------------------------------------------------------
def mechanism(pos, family):
    pc, where = pos.split(":", 1)
    if family == "PARAMETERS":
        return f"missing:{pc}:parameter-kinds"  # parameter kinds of fluents / actions (instantaneous or durative)
    if pc == "ma" and family == "ASSIGNMENTS":
        return "missing:ma:action-effect-value:ASSIGNMENTS"  # effect values are never inspected (any action class)
    if pc == "ma" and where.startswith("durative-"):
        return "missing:ma:durative-action"  # conditions / effects / duration of an agent's durative action are not inspected
    if pc == "htn" and where in ("method-param", "task-param", "task-network-variable"):
        return f"missing:htn:task-method-or-network-parameter:{family}"  # parameter types of tasks / methods / task networks
    return f"missing:{pos}:{family}"


def _only_from_name_sharing_fluents(pb, alts, pos):
    """diagnosis only: is the requirement (alts, pos) generated exclusively by agent fluents whose name is also the name of a
    different fluent of another agent?"""
    gens = []
    for ag in pb.agents:
        for f in ag.fluents:
            x = kindx._X(pb, "ma")
            x.fluent(f, "agent-fluent")
            if any(r[0] == tuple(alts) and r[3] == pos for r in x.reqs):
                gens.append((ag, f))
    return bool(gens) and all(
        any(o is not ag and any(g.name == f.name and g != f for g in o.fluents) for o in pb.agents) for ag, f in gens
    )


def judge(pb, wbase, res, describe, hist=None, prev=None):
    """Evaluate pb.kind and judge it. describe() -> dict with human-readable details for a witness.
    hist: name of the mutation applied since the previous evaluation of the same problem (history cases); prev: the feature
    set that previous evaluation returned."""
    from unified_planning.exceptions import UPException

    pc, reqs, notes = kindx.extract(pb)
    if pc is None:
        res.count("skipped_unknown_problem_class")
        return
    res.mon()
    try:
        kind = pb.kind
        feats = set(kind.features)
    except _env.INTERNAL_EXC as e:
        res.case()
        res.violation(f"kind-raises:{type(e).__name__}", f"{type(pb).__name__}.kind raised {e!r}", {**wbase, **describe()})
        return
    except UPException as e:
        res.count("rejected_by_kind:" + type(e).__name__)
        return
    res.case()
    res.count("class:" + pc)
    for k, v in notes.items():
        res.count(k, v)
    seen = set()
    for alts, label, family, pos in reqs:
        pair = (label, pos)
        if pair not in seen:
            seen.add(pair)
            res.nt(pair)
            res.count(f"pair:{label}@{pos}")
    if hist is not None:
        res.count("history_evals")
        res.count("history_mut:" + hist)
        res.count("history_class:" + pc)
        gained = False
        for alts, label, family, pos in reqs:
            if prev is not None and not any(a in prev for a in alts):
                gained = True
                res.nt(("gain", hist, label, pos))
        if gained:
            res.count("history_gain:" + hist)
    miss = kindx.missing(reqs, feats)
    if miss:
        fresh = None
        if hist is not None:
            # diagnosis only (mechanism string): does a structural copy of the same problem, never evaluated before, report
            # the feature?  Then the omission comes from state kept across evaluations, not from the feature analysis.
            try:
                fresh = set(pb.clone().kind.features)
            except Exception:
                fresh = None
        by_mech = {}
        for alts, label, family, pos in miss:
            if fresh is not None and any(a in fresh for a in alts):
                mech = f"stale-kind-after-mutation:{family}"  # class and mutation are in the witness ("history")
            elif pc == "ma" and pos.startswith("ma:agent-fluent") and _only_from_name_sharing_fluents(pb, alts, pos):
                mech = "missing:ma:agent-fluent-sharing-its-name-with-a-fluent-of-another-agent"
            else:
                mech = mechanism(pos, family)
            by_mech.setdefault(mech, []).append({"needs_one_of": list(alts), "position": pos})
        d = describe()
        for mech, items in sorted(by_mech.items()):
            res.violation(
                mech,
                f"kind of a {type(pb).__name__} lacks "
                + "; ".join(f"{'|'.join(i['needs_one_of'])} (used at {i['position']})" for i in items[:4]),
                {**wbase, "missing": items, "kind_features": sorted(feats), **d},
            )
    return feats


def specs_for(key):
    """Deterministic plant list of a plant case."""
    i = int(key.split(":")[2])
    rng = rng_for(key)
    spec = P.TABLE[i % N_TABLE]
    specs = [spec]
    if i >= N_TABLE:
        same = [s for s in P.TABLE if s[0] == spec[0]]
        for _ in range(rng.choice([1, 1, 2, 3])):
            specs.append(rng.choice(same))
    return rng, specs


def run_case(key, tier, res):
    if key.startswith("C10g:"):
        return run_grammar_case(key, tier, res)
    if key.startswith("C10h:"):
        return run_history_case(key, tier, res)
    from unified_planning.environment import get_environment
    from unified_planning.exceptions import UPException
    from vk.gen import kindplant

    rng, specs = specs_for(key)
    # HierarchicalProblem / SchedulingProblem create their task network / activities in the global environment
    env = get_environment() if specs[0][0] in ("htn", "sched") else _env.fresh_env()
    try:
        pb, log, skipped = kindplant.build(rng, env, specs)
    except UPException as e:
        res.count("rejected_at_build:" + type(e).__name__)
        return
    for s, why in skipped:
        res.count("plant_skipped")
    wbase = {"case_key": key, "tier": tier}
    feats = judge(pb, wbase, res, lambda: {"plants": [list(s) for s in specs], "log": log, "problem": str(pb)[:3000]})
    if feats is not None:
        res.sample({"plants": [list(s) for s in specs], "log": log, "kind": sorted(feats)})


GRAMMAR_PROFILE = dict(metric="any", traj=0.35, interpreted_functions=0.15, invariants=0.3, undefined_init=0.3, int_params=0.2)


def run_grammar_case(key, tier, res):
    from unified_planning.exceptions import UPException
    from vk.gen.problem import gen_problem
    from vk.recipe import instantiate_problem

    rng = rng_for(key)
    prof = dict(GRAMMAR_PROFILE)
    if rng.random() < 0.3:
        prof["metric"] = None
    rec, gfeats = gen_problem(rng, prof)
    env = _env.fresh_env()
    try:
        pb, _ = instantiate_problem(rec, env)
    except UPException as e:
        res.count("rejected_at_build:" + type(e).__name__)
        return
    res.count("grammar_cases")
    judge(pb, {"case_key": key, "tier": tier}, res, lambda: {"recipe": rec, "problem": str(pb)[:3000]})


def run_history_case(key, tier, res):
    """evaluate, mutate, evaluate again: every evaluation is judged against the from-scratch oracle."""
    from unified_planning.environment import get_environment
    from unified_planning.exceptions import UPException
    from vk.gen import kindplant
    from vk.gen.problem import gen_problem
    from vk.recipe import instantiate_problem

    i = int(key.split(":")[2])
    rng = rng_for(key)
    src = HISTORY_SOURCES[i % len(HISTORY_SOURCES)]
    pc = "prob" if src == "grammar" else src
    same = [s for s in P.TABLE if s[0] == pc]
    env = get_environment() if pc in ("htn", "sched") else _env.fresh_env()
    steps = []
    try:
        if src == "grammar":
            prof = dict(GRAMMAR_PROFILE, undefined_init=0.1, metric=rng.choice([None, "any"]))
            rec, _ = gen_problem(rng, prof)
            pb0, _ = instantiate_problem(rec, env)
            b = kindplant.B(rng, env, pc, pb=pb0)
        else:
            b = kindplant.B(rng, env, pc)
        b.rich_shadows = True
        b.defer_second = rng.random() < 0.6
        for _ in range(rng.choice([0, 1, 1, 2])):
            try:
                b.plant(rng.choice(same))
            except kindplant.Skip:
                res.count("plant_skipped")
        if pc != "ma" and rng.random() < (0.3 if src == "grammar" else 0.7):
            b.explicit_fluent()
        pb = b.finish() if src != "grammar" else b.pb
    except UPException as e:
        res.count("rejected_at_build:" + type(e).__name__)
        return
    res.count("history_cases")
    wbase = {"case_key": key, "tier": tier}
    describe = lambda: {"source": src, "history": list(steps), "log": list(b.log), "problem": str(pb)[:3000]}
    steps.append("build; kind")
    prev = judge(pb, wbase, res, describe)
    if prev is None:
        return
    menu = ["add-object"] * 4 + ["add-object-initialised"] + ["plant"] * 4 + ["set-initial-value"] * 2 + ["explicit-fluent"]
    if pc == "ma":
        menu = ["add-object"] * 2 + ["plant"] * 3 + ["shadow"] * 4 + ["add-agent"] * 4
    for _ in range(rng.choice([1, 2, 2, 3])):
        m = rng.choice(menu)
        try:
            if m.startswith("add-object"):
                b.add_new_object(init_new=m.endswith("initialised"))
            elif m == "plant":
                b.plant(rng.choice(same))
            elif m == "set-initial-value":
                b.set_some_initial_value()
            elif m == "explicit-fluent":
                b.explicit_fluent()
            elif m == "shadow":
                sh = b.shadow_fluents(rich=True, k=1)
                if not sh:
                    raise kindplant.Skip("nothing to shadow")
                b.log.append("same-named fluents: " + "; ".join(sh))
            elif m == "add-agent":
                b.add_second_agent()
        except kindplant.Skip:
            res.count("history_mutation_skipped:" + m)
            continue
        except UPException as e:
            res.count("history_mutation_rejected:" + type(e).__name__)
            return
        steps.append(m + "; kind")
        prev = judge(pb, wbase, res, describe, hist=m, prev=prev)
        if prev is None:
            return


def corpus():
    import sys

    from unified_planning.test.examples import get_example_problems

    out = []
    for name, tc in sorted(get_example_problems().items()):
        out.append(("example:" + name, tc.problem))
    p = _env.REPO + "/up_test_cases"
    if p not in sys.path:
        sys.path.append(p)
    from up_test_cases import builtin  # noqa: E402

    for name, tc in sorted(builtin.get_test_cases().items()):
        out.append(("up_test_cases:" + name, tc.problem))
    return out


def run_corpus(tier, res, only=None):
    for name, pb in corpus():
        if only and name != only:
            continue
        res.count("corpus_problems")
        judge(pb, {"corpus": name, "tier": tier}, res, lambda: {"problem": str(pb)[:3000]})


def thresholds(m):
    c = m["counters"]
    out = []
    unseen = []
    for spec in P.TABLE:
        label, pos = P.pair_of(spec)
        if c.get(f"pair:{label}@{pos}", 0) < P.MIN_OBS:
            unseen.append(f"{label}@{pos}")
    if unseen:
        out.append(f"{len(unseen)} (feature, position) pairs of the table observed fewer than {P.MIN_OBS} times: " + ", ".join(unseen[:12]))
    for pc in ("prob", "htn", "ma", "cont", "sched"):
        if c.get("class:" + pc, 0) < 20:
            out.append(f"fewer than 20 judged problems of class {pc}")
    if c.get("corpus_problems", 0) < 100:
        out.append(f"corpus not loaded completely ({c.get('corpus_problems', 0)} problems)")
    if c.get("grammar_cases", 0) < 50:
        out.append("fewer than 50 grammar problems judged")
    if c.get("history_cases", 0) < 150:
        out.append(f"fewer than 150 history cases ({c.get('history_cases', 0)})")
    for mname, need in (("add-object", 40), ("add-object-initialised", 8), ("plant", 40), ("set-initial-value", 15), ("explicit-fluent", 8), ("shadow", 6), ("add-agent", 8)):
        if c.get("history_mut:" + mname, 0) < need:
            out.append(f"fewer than {need} re-evaluations after mutation {mname} ({c.get('history_mut:' + mname, 0)})")
    for mname, need in (("add-object", 10), ("plant", 25)):
        if c.get("history_gain:" + mname, 0) < need:
            out.append(f"fewer than {need} re-evaluations after {mname} where the oracle demands a feature the previous kind lacked ({c.get('history_gain:' + mname, 0)})")
    for pc in ("prob", "htn", "ma", "cont", "sched"):
        if c.get("history_class:" + pc, 0) < 25:
            out.append(f"fewer than 25 re-evaluations after a mutation for class {pc}")
    rej = sum(v for k, v in c.items() if k.startswith("rejected_"))
    if rej * 2 > max(1, m["evaluations"]):
        out.append("more than half of the cases were rejected")
    from vk.mon import suite as _suite

    out.extend(_suite.thresholds(c, SUITE[1], 1500))
    return out


def extra_coverage(m):
    c = m["counters"]
    return {
        "table_pairs": N_TABLE,
        "table_pairs_observed": sum(1 for s in P.TABLE if c.get("pair:%s@%s" % P.pair_of(s), 0) >= P.MIN_OBS),
        "dont_care_counts": {k: v for k, v in c.items() if k.startswith("dontcare:")},
        "history": {k: v for k, v in sorted(c.items()) if k.startswith("history")},
    }

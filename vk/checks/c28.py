"""C28 - timed-to-sequential plans convert back to valid temporal plans.

Monitor: TimedToSequential().compile(P) is run on generated durative problems inside the compiler's kind; *all* sequential
plans of the compiled problem up to a length bound that the reference sequential semantics (vk.ref.seqsem) judges valid are
passed to result.plan_back_conversion; the returned time-triggered plan is judged for the original problem by the reference
temporal semantics (vk.ref.ttsem) - in particular every chosen duration must lie inside its possibly-open, possibly
fluent-dependent interval.  The library's own TimeTriggeredPlanValidator is consulted only as a labelled observation."""
from fractions import Fraction

from vk import env as _env  # noqa: F401
from vk.core import rng_for, simple_plan, h
from vk.gen.temporal import gen_temporal, instantiate
from vk.ref import seqsem, ttsem
from vk.ref.evalx import Unsupported
from vk.checks.c05 import lib_site

PROPERTY = "C28"
LEVEL = "exploration"
TECHNIQUE = "runtime monitoring: bounded exhaustive search of the compiled problem's valid plans (vk.ref.seqsem), each converted back and judged by the reference temporal semantics (vk.ref.ttsem)"
LEVEL_TEXT = (
    "For generated durative problems in the compiler's kind, every reference-valid sequential plan of the compiled problem up to "
    "the length bound (node-capped DFS) is converted back by the real plan_back_conversion and the result is judged for the "
    "original problem by an independent temporal reference semantics; held on the executions observed."
)
LEVEL_NOTE = (
    "Trusted: CPython, fractions, read-only accessors, public constructors used by vk.recipe, vk/ref/seqsem.py (validity in the "
    "compiled problem) and vk/ref/ttsem.py (validity of the converted plan). Converted plans that fall in a don't-care class of "
    "ttsem, or whose only defect is a bounded-type violation in an intermediate state (the library's time-triggered validator does "
    "not look at bounds, see C04), are counted and not judged."
)
RULE = (
    "cases = generated durative problems (vk.gen.temporal with t2s profile: start/end/over-all conditions in the four open/closed "
    "forms, start/end effects, fixed/closed/open/left-/right-open durations with constant, parameter-, static-fluent- and "
    "fluent-dependent bounds, intervals not wider than the time step, with and without problem epsilon; durative actions that "
    "change a fluent at start and set it again at end, guarded by a start condition, plus readers of that fluent). Per problem all reference-valid plans of the compiled problem of "
    "length <= K (DFS, node cap) are enumerated and up to PLANS of them converted back. evaluations = converted plans judged. "
    "distinct_nontrivial = distinct (problem, compiled plan) with >= 1 durative step whose duration interval is not a closed "
    "constant interval."
)
ASSUMPTIONS = [
    "validity in the compiled problem is decided by vk/ref/seqsem.py, validity of the converted plan by vk/ref/ttsem.py",
    "bounds-only invalidity of the converted plan and ttsem's don't-care classes are excluded",
]
SHARD_TIMEOUT = {"quick": 600, "thorough": 5400}
BOUNDS = {"quick": dict(n=600, K=3, plans=8, nodes=150, max_inst=12), "thorough": dict(n=10000, K=4, plans=20, nodes=600, max_inst=16)}
PROFILE = dict(
    t2s=True,
    cond_effects=False,
    invariants=0.0,
    undefined_init=0.0,
    durative=0.85,
    keep_goals=0.3,
    int_params=0.2,
    fluent_duration=0.45,
    interval_duration=0.7,
    epsilon=0.4,
    narrow_duration=0.35,
    locks=0.35,
)


def plan(tier, seed):
    b = BOUNDS[tier]
    return simple_plan(PROPERTY, tier, seed, b["n"], b["n"])


def run_shard(spec, res):
    b = BOUNDS[spec["tier"]]
    for key in spec["cases"]:
        try:
            run_case(key, spec["tier"], b, res)
        except Unsupported:
            res.count("skipped_unsupported_by_oracle")


def replay(witness, res):
    tier = witness.get("tier", "quick")
    run_case(witness["case_key"], tier, BOUNDS[tier], res)


def valid_plans(pb, rng, b):
    """All reference-valid plans of pb of length 1..K (DFS over vk.ref.seqsem, node cap). -> (plans, complete)"""
    insts = seqsem.all_instances(pb)
    truncated = False
    if len(insts) > b["max_inst"]:
        insts = rng.sample(insts, b["max_inst"])
        truncated = True
    out = []
    stack = [([], seqsem.initial_state(pb))]
    nodes = 0
    while stack:
        if nodes >= b["nodes"]:
            truncated = True
            break
        path, s = stack.pop()
        nodes += 1
        if path and seqsem.goal_status(pb, s) is True:
            out.append(path)
        if len(path) >= b["K"]:
            continue
        for a, args in insts:
            r = seqsem.succ(pb, s, a, args)
            if r.status == seqsem.OKAY:
                stack.append((path + [(a, args)], r.state))
    return out, not truncated


def _fluent_names(e, out):
    if isinstance(e, list):
        if e and e[0] == "f":
            out.add(e[1])
        for a in e[1:]:
            _fluent_names(a, out)
    return out


def recipe_classes(rec):
    """Workload classes read off the recipe: narrow = {action: form} for duration intervals that are open on at least one side and
    not wider than the time step (width known syntactically: constant bounds or upper = lower + constant); locks = {action: fluent}
    for durative actions with a start condition on, a start effect on and an end effect on one fluent; reads = {action: fluents
    in its conditions}."""
    step = Fraction(rec["epsilon"]) if "epsilon" in rec else Fraction(1, 100)
    narrow, locks, reads = {}, {}, {}
    for a in rec["actions"]:
        if "duration" not in a:
            reads[a["name"]] = _fluent_names(["and"] + a["pre"], set())
            continue
        reads[a["name"]] = _fluent_names(["and"] + [c for _, c in a["conds"]], set())
        d = a["duration"]
        if d[0] in ("open", "lopen", "ropen"):
            lo, hi = d[1], d[2]
            w = None
            if lo[0] in ("i", "r") and hi[0] in ("i", "r"):
                w = Fraction(hi[1]) - Fraction(lo[1])
            elif hi[0] == "plus" and hi[1] == lo and hi[2][0] in ("i", "r"):
                w = Fraction(hi[2][1])
            if w is not None and 0 < w <= step:
                narrow[a["name"]] = d[0]
        sc = set()
        for iv, c in a["conds"]:
            if iv == ["point", ["start", "0"]]:
                _fluent_names(c, sc)
        se = {e["fluent"][1] for t, e in a["effects"] if t == ["start", "0"]}
        ee = {e["fluent"][1] for t, e in a["effects"] if t == ["end", "0"]}
        for f in sorted(sc & se & ee):
            locks[a["name"]] = f
    return narrow, locks, reads, ("explicit-epsilon" if "epsilon" in rec else "default-step")


def interval_class(act):
    """'closed-constant' | form + ':' + bound kind of a durative action's duration."""
    d = act.duration
    form = {(False, False): "closed", (True, True): "open", (True, False): "left-open", (False, True): "right-open"}[(d.is_left_open(), d.is_right_open())]
    const = d.lower.is_constant() and d.upper.is_constant()
    if form == "closed" and d.lower == d.upper:
        form = "fixed"
    return form + (":constant" if const else ":state-dependent")


_ANY = object()


def _ground_key(pb, fexp, params, states=()):
    """(fluent name, ground args) of a lifted fluent expression under a parameter binding; an argument that mentions a
    quantified / forall variable is the wildcard _ANY; a state-dependent argument (an object-valued fluent used as argument,
    `f(g)`) is the frozenset of the values it takes in `states` (the reference states during the step); None if an argument
    cannot be evaluated."""
    from vk.ref.evalx import Interp, ev, UNDEF, free_vars, fluents_in

    args = []
    for a in fexp.args:
        if free_vars(a):
            args.append(_ANY)
            continue
        if fluents_in(a):
            vals = set()
            for st in states:
                try:
                    x = ev(a, Interp(pb, st, params), "strict")
                except Unsupported:
                    return None
                if x is not UNDEF:
                    vals.add(x)
            if not vals:
                return None
            args.append(frozenset(vals))
            continue
        try:
            x = ev(a, Interp(pb, {}, params), "strict")
        except Unsupported:
            return None
        if x is UNDEF:
            return None
        args.append(x)
    return (fexp.fluent().name, tuple(args))


def _arg_match(a, b):
    if a is _ANY or b is _ANY:
        return True
    if isinstance(a, frozenset):
        return bool(a & b) if isinstance(b, frozenset) else b in a
    if isinstance(b, frozenset):
        return a in b
    return a == b


def _same_ground(k1, k2):
    return k1 is not None and k2 is not None and k1[0] == k2[0] and all(_arg_match(a, b) for a, b in zip(k1[1], k2[1]))


def _fluent_exps(e, out):
    if e.is_fluent_exp():
        out.append(e)
    for a in e.args:
        _fluent_exps(a, out)
    return out


def _several_effects(act, pred):
    """some timing of act carries >= 2 effects satisfying pred on one lifted target expression."""
    for el in act.effects.values():
        seen = {}
        for e in el:
            if pred(e):
                seen[e.fluent] = seen.get(e.fluent, 0) + 1
        if any(n > 1 for n in seen.values()):
            return True
    return False


def _aliasing(pb, step, trace=()):
    """A start effect of this durative step writes a ground fluent that the same action later reads or writes (condition,
    end-effect target / value / condition) through a syntactically different lifted expression (other parameter / constant /
    quantified variable / an object-valued fluent as argument, evaluated in the reference states during the step)."""
    s0, a, args, d0 = step
    states = [st for t, st in trace if t is not None and s0 <= t <= s0 + (d0 or 0)]
    before = [st for t, st in trace if t is None or t < s0]
    if before:
        states.append(before[-1])
    params = {p.name: x for p, x in zip(a.parameters, args)}
    later = []
    for cl in a.conditions.values():
        for c in cl:
            _fluent_exps(c, later)
    starts = []
    for timing, el in a.effects.items():
        if timing.is_from_start() and timing.delay == 0:
            starts += [e.fluent for e in el]
        else:
            for e in el:
                later.append(e.fluent)
                _fluent_exps(e.value, later)
                _fluent_exps(e.condition, later)
    for sfl in starts:
        k = _ground_key(pb, sfl, params, states)
        if k is None:
            continue
        for g in later:
            if g is not sfl and _same_ground(_ground_key(pb, g, params, states), k):
                return True
    return False


CAUSES = ("start-effect-aliasing", "several-assignments-to-one-fluent", "accumulated-incdec")


def structural_causes(pb, steps, upto, trace=()):
    from unified_planning.model import DurativeAction

    out = set()
    for k in range(min(upto, len(steps) - 1) + 1):
        a = steps[k][1]
        if not isinstance(a, DurativeAction):
            continue
        if _aliasing(pb, steps[k], trace):
            out.add(CAUSES[0])
        if _several_effects(a, lambda e: e.is_assignment()):
            out.add(CAUSES[1])
        if _several_effects(a, lambda e: e.is_increase() or e.is_decrease()):
            out.add(CAUSES[2])
    return out


def classify(pb, cpb, path, steps, f, v):
    """Witness-derived signature of one failure of a converted plan - one string per root cause as far as the witness tells:
    left-open-interval-gets-the-time-step     the time step itself is the duration chosen for a left-open interval (F22)
    zero-duration-chosen                      a step up to the failing one got duration 0 (lower bound 0): its start and end collapse into one instant
    empty-duration-interval                   the (state-dependent) interval is empty in the start state; the compiled action has no duration
    start-effect-aliasing                     a step up to the failing one writes, at start, a ground fluent that the same action later reads /
                                              writes through a syntactically different lifted expression (parameter vs constant / other parameter):
                                              the compiler's lifted substitution misses it
    several-assignments-to-one-fluent         a step up to the failing one assigns one lifted fluent twice at one timing (substitution keeps the last)
    accumulated-incdec                        a step up to the failing one increases/decreases one fluent twice at one timing (compiled into equal assignments)
    otherwise the bare failure class (condition / precondition / duration:<interval form>:<constant|state-dependent> / goal / ...)."""
    code = f["code"]
    step_eps = pb.epsilon if pb.epsilon is not None else Fraction(1, 100)
    upto = len(steps) - 1
    if code == "duration":
        a, d = steps[f["step"]][1], steps[f["step"]][3]
        if f.get("empty"):  # first: no duration can be right for an empty interval, whatever value was chosen
            return "empty-duration-interval"
        if a.duration.is_left_open() and d == step_eps:
            return "left-open-interval-gets-the-time-step"
        upto = f["step"]
    elif "src" in f and str(f["src"]).isdigit():
        upto = int(f["src"])
    if any(d is not None and d == 0 for _, _, _, d in steps[: upto + 1]):
        return "zero-duration-chosen"
    cs = structural_causes(pb, steps, upto, v.trace)
    for c in CAUSES:
        if c in cs:
            return c
    if code == "duration":
        return "duration:" + interval_class(steps[f["step"]][1])
    return code.split(":")[0]


def run_case(key, tier, b, res):
    from unified_planning.engines import CompilationKind
    from unified_planning.engines.compilers.timed_to_sequential import TimedToSequential
    from unified_planning.engines.plan_validator import TimeTriggeredPlanValidator
    from unified_planning.exceptions import UPException
    from unified_planning.model import DurativeAction
    from unified_planning.plans import ActionInstance, SequentialPlan, TimeTriggeredPlan

    rng = rng_for(key)
    rec, feats = gen_temporal(rng, PROFILE)
    import unified_planning.environment as upenv

    e = _env.fresh_env()
    # TimedToSequential._compile creates the compiled actions in the *global* environment (AssertionError for a problem that
    # lives elsewhere; a compile-time defect outside C28's statement, counted as observed:compile-raises). 7 cases out of 8
    # therefore install the fresh environment as the global one for the duration of the case.
    idx = int(key.rsplit(":", 1)[1])
    old = upenv.GLOBAL_ENVIRONMENT
    if idx % 8 != 7:
        upenv.GLOBAL_ENVIRONMENT = e
    try:
        _run_case(key, tier, b, res, rng, rec, e)
    finally:
        upenv.GLOBAL_ENVIRONMENT = old


def _run_case(key, tier, b, res, rng, rec, e):
    from unified_planning.engines import CompilationKind
    from unified_planning.engines.compilers.timed_to_sequential import TimedToSequential
    from unified_planning.engines.plan_validator import TimeTriggeredPlanValidator
    from unified_planning.exceptions import UPException
    from unified_planning.model import DurativeAction
    from unified_planning.plans import ActionInstance, SequentialPlan, TimeTriggeredPlan

    try:
        pb, ctx = instantiate(rec, e)
    except UPException:
        res.count("rejected_at_build")
        return
    if not TimedToSequential.supports(pb.kind):
        res.count("rejected_unsupported_kind")
        for ft in sorted(pb.kind.features - TimedToSequential.supported_kind().features):
            res.count("unsupported_feature:" + ft)
        return
    if not any(isinstance(a, DurativeAction) for a in pb.actions):
        res.count("skipped_no_durative_action")
        return
    try:
        result = TimedToSequential().compile(pb, CompilationKind.TIMED_TO_SEQUENTIAL)
    except _env.INTERNAL_EXC as ex:
        res.count("observed:compile-raises:" + type(ex).__name__ + "@" + lib_site(ex))
        return
    except UPException as ex:
        res.count("rejected_by_compiler:" + type(ex).__name__)
        return
    cpb = result.problem
    res.count("problems")
    try:
        plans, complete = valid_plans(cpb, rng, b)
    except Unsupported:
        res.count("skipped_unsupported_by_oracle")
        return
    res.count("search_complete" if complete else "search_truncated")
    if not plans:
        res.count("no_valid_compiled_plan")
        return
    name_to_orig = {a.name: a for a in pb.actions}

    def klass(path):
        return sorted({interval_class(name_to_orig[a.name]) for a, _ in path if isinstance(name_to_orig[a.name], DurativeAction)})

    narrow, locks, reads, stepkind = recipe_classes(rec)
    rng.shuffle(plans)
    plans.sort(key=lambda p: (not any(k != "fixed:constant" and k != "closed:constant" for k in klass(p)), len(p)))
    pid = h(rec)
    sampled = False
    for path in plans[: b["plans"]]:
        plan_json = [[a.name, list(args)] for a, args in path]
        w = {"case_key": key, "tier": tier, "recipe": rec, "compiled_plan": plan_json}
        sp = SequentialPlan([ActionInstance(a, seqsem.param_exprs(cpb, a, args)) for a, args in path], e)
        res.mon()
        try:
            back = result.plan_back_conversion(sp)
        except _env.INTERNAL_EXC as ex:
            res.case()
            res.violation(f"back-conversion-raises:{type(ex).__name__}@{lib_site(ex)}", f"plan_back_conversion raised {ex!r} on the valid compiled plan {plan_json}", w)
            continue
        except UPException as ex:
            res.count("rejected_by_back_conversion:" + type(ex).__name__)
            continue
        if not isinstance(back, TimeTriggeredPlan):
            res.case()
            res.violation("back-conversion-not-time-triggered", f"plan_back_conversion returned {type(back).__name__}", w)
            continue
        steps = ttsem.steps_of_plan(back)
        back_json = [[str(s), a.name, list(args), None if d is None else str(d)] for s, a, args, d in steps]
        w["converted_plan"] = back_json
        kl = klass(path)
        for k in kl:
            res.count("interval:" + k)
        names = [a.name for a, _ in path]
        for nm in sorted({n for n in names if n in narrow}):
            res.count(f"narrow-interval:{narrow[nm]}:{stepkind}")
        if any(names[i] in locks and locks[names[i]] in reads.get(names[j], ()) for i in range(len(names)) for j in range(i + 1, len(names))):
            res.count("lock:changed-and-reset-fluent-read-by-a-later-step")
        # the converted plan must be the same instances in the same order
        if [(a.name, tuple(args)) for _, a, args, _ in steps] != [(a.name, tuple(args)) for a, args in path]:
            res.case()
            res.violation("converted-plan-changes-the-steps", f"compiled plan {plan_json} was converted into {back_json}", w)
            continue
        v = ttsem.validate(pb, steps)
        core = ttsem.core_status(v)
        try:
            lib = TimeTriggeredPlanValidator(environment=e).validate(pb, back).status.name
        except Exception as ex:  # labelled observation only
            lib = "raises:" + type(ex).__name__
        res.count("library_validator_says:" + lib)
        if core == ttsem.DONTCARE:
            res.count("dontcare:" + ("only-" + "+".join(v.codes()) if v.failures else v.dontcares[0]))
            continue
        res.case()
        if any(k not in ("fixed:constant", "closed:constant") for k in kl):
            res.nt((pid, plan_json))
        if core == ttsem.INVALID:
            codes = {classify(pb, cpb, path, steps, f, v) for f in v.core_failures()}
            for c in sorted(codes):  # one violation per root-cause signature
                res.violation(
                    "converted-plan-invalid:" + c,
                    f"valid compiled plan {plan_json} converts back to {back_json}, invalid for the original problem: {v.core_failures()} (library validator: {lib})",
                    {**w, "signature": c, "reference": v.to_json(), "library_validator": lib},
                )
            continue
        res.count("converted_valid")
        if lib != "VALID":
            res.count("observed:library-validator-rejects-reference-valid-conversion")
        if not sampled and kl:
            sampled = True
            res.sample({"problem": rec, "compiled_plan": plan_json, "converted": back_json, "interval_classes": kl, "reference": v.status, "library_validator": lib})


FORMS = ["left-open", "open", "right-open", "closed", "fixed"]


def thresholds(m):
    c = m["counters"]
    out = []
    for form in FORMS:
        n = c.get(f"interval:{form}:constant", 0) + c.get(f"interval:{form}:state-dependent", 0)
        if n < 3:
            out.append(f"fewer than 3 converted plans with a step whose duration interval is {form} ({n})")
    for k in ("narrow-interval:open:explicit-epsilon", "narrow-interval:open:default-step", "lock:changed-and-reset-fluent-read-by-a-later-step"):
        if c.get(k, 0) < 3:
            out.append(f"fewer than 3 converted plans in class {k} ({c.get(k, 0)})")
    sd = sum(v for k, v in c.items() if k.startswith("interval:") and k.endswith(":state-dependent"))
    if sd < 5:
        out.append(f"fewer than 5 converted plans with a state-/parameter-dependent duration bound ({sd})")
    if len(m["nontrivial"]) < 20:
        out.append("fewer than 20 distinct non-trivial (problem, plan) pairs")
    tot = c.get("problems", 0) + c.get("rejected_at_build", 0) + c.get("rejected_unsupported_kind", 0)
    if tot and c.get("problems", 0) * 4 < tot:
        out.append("fewer than 25% of the generated problems reached the compiler")
    return out

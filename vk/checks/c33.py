"""C33 — ProblemKind ordering is a lattice consistent with equality and hashing.

Directed monitor over pairs / triples of kinds given as specs (feature list, declared version | None). Every judgement
builds *fresh* ProblemKind objects from the specs (comparisons of the library mutate their operands' raw feature sets,
see 'observation:' counters), calls the real operators (==, <=, hash, union, intersection) and judges
 (a) the order / lattice laws stated by the property, in terms of the library's own == and <=, and
 (b) agreement of <=, union, intersection and cross-version comparison with the set model vk.ref.lattice.
Kinds logged from the library (module constants, example problems, engines' supported kinds) join the generated pool.

History cases: a kind spec may carry a *script* (constructor arguments + a sequence of set_<group>() / unset_<group>() calls
interleaved with observations: <=, ==, hash, .version, union, intersection against other kinds). Building such a spec replays
the script, so every judgement is made on the kind *as it is after its history*; its model is the set model of the raw
features read from the live object (public accessor) - a kind with a history must obey every law exactly like a freshly built
kind with the same raw features and declared version (judge_twin + all pair judgements).
"""
from vk import env as _env  # noqa: F401
from vk.core import rng_for, simple_plan, h
from vk.ref import lattice as L

PROPERTY = "C33"
LEVEL = "exploration"
TECHNIQUE = "runtime monitoring: order/lattice laws and a set-of-features model judged on generated and logged ProblemKind pairs and triples"
LEVEL_TEXT = (
    "Every ==, <=, hash, union, intersection result observed on generated pairs/triples of kinds (all versions, deprecated "
    "features included) and on kinds logged from the library is checked against the order and lattice laws and against an "
    "independent set model with its own upgrade table; in the thorough tier the repository's own test-suite is re-run with "
    "pass-through wrappers on ProblemKind.__eq__/__le__/__hash__/union/intersection and every result is compared with the "
    "same set model; held on the pairs observed only."
)
LEVEL_NOTE = (
    "Trusted: CPython sets, vk/ref/lattice.py (version table and upgrade rules transcribed from the documentation, compared "
    "with the library's table at start-up). Purity of comparisons, >, >=, < are outside the statement: deviations are counted "
    "as observations, not judged. Suite monitor (vk/mon/universal.install_kindorder): trusted are also pytest/xdist and the "
    "monkey-patched operator wrappers; operands are read through .features/.version BEFORE the call (<= prunes them); == and "
    "<= must equal the set model (cross-version: == false, <= after upgrading the older operand); kinds with equal model "
    "(version, valid features) seen in one process must hash equally; same-version union/intersection must equal the model, "
    "a cross-version union must have the newer version and lie above both operands (as in the directed part)."
)
RULE = (
    "a case = one pair (or chain triple) of kind specs (features, declared version in {None,1,2,3}); generated with a bias "
    "to version-sensitive features, equal-up-to-deprecated twins, sub/supersets and chains; one style builds the first kind "
    "through a history (set_/unset_ calls of features of rising versions with observations in between) and also judges it "
    "against a fresh kind with the same raw features; plus all pairs of kinds logged "
    "from the library. evaluations = judged pairs + judged triples + twin judgements. distinct_nontrivial = distinct pairs of the same "
    "version that are comparable but unequal, or equal with different raw feature sets, plus distinct cross-version pairs "
    "where the older kind is changed by the upgrade. Thorough tier only: one run of unified_planning/test under M-kindorder; "
    "one evaluation = one operator call judged (suite:M-kindorder:judged); witnesses carry the test id (\"suite\": true) and are "
    "replayed by re-running that test file under the monitor; inconclusive if the suite ran and fewer than 3000 calls were judged."
)
ASSUMPTIONS = [
    "the set model vk/ref/lattice.py states the intended meaning of a kind: the features valid at its version",
    "== and <= of the library define 'equal' and 'below' in the order laws (antisymmetry, bounds, hashing)",
    "side effects of comparisons on their operands, and the derived operators <, >, >=, are not part of the statement",
]

N_PAIRS = {"quick": 20000, "thorough": 1280000}


def plan(tier, seed):
    return simple_plan(PROPERTY, tier, seed, N_PAIRS["quick"], N_PAIRS["thorough"], shards_quick=8, shards_thorough=16)


# ------------------------------------------------------------------------------------------------------------------
# specs <-> real kinds


def mk(spec):
    from unified_planning.model.problem_kind import ProblemKind

    if len(spec) == 3:
        k = run_script(spec[1], spec[2])
        if tuple(sorted(k.features)) != spec[0]:
            raise RuntimeError(f"replaying a kind history is not deterministic: {spec!r} -> {sorted(k.features)}")
        return k
    feats, ver = spec
    return ProblemKind(list(feats), version=ver)


def run_script(declared, script):
    """Builds a kind through its history: constructor, then set_/unset_ calls and observations (results ignored)."""
    from unified_planning.model.problem_kind import ProblemKind

    init, ops = script
    k = ProblemKind(list(init), version=declared)
    for op in ops:
        t = op[0]
        if t == "set":
            getattr(k, "set_" + op[1])(op[2])
        elif t == "unset":
            getattr(k, "unset_" + op[1])(op[2])
        elif t == "hash":
            hash(k)
        elif t == "version":
            k.version
        elif t == "self-le":
            k <= k
        elif t == "le":
            k <= mk(op[1])
        elif t == "ge":
            mk(op[1]) <= k
        elif t == "eq":
            k == mk(op[1])
        elif t == "union":
            k.union(mk(op[1]))
        elif t == "intersection":
            k.intersection(mk(op[1]))
        else:
            raise RuntimeError(f"unknown history op {op!r}")
    return k


def history_spec(declared, script):
    """Spec of a kind with a history: (raw features NOW, read from the live object; declared version; script)."""
    k = run_script(declared, script)
    return (tuple(sorted(k.features)), declared, script)


def groups():
    from unified_planning.model import problem_kind as pk

    return {f: g.lower() for g, l in sorted(pk.FEATURES.items()) for f in l}


def model(spec):
    return L.K(spec[0], spec[1])


def spec_of(kind):
    """Spec of a library kind through public accessors only."""
    return (tuple(sorted(kind.features)), kind.version)


def check_tables(res):
    from unified_planning.model import problem_kind as pk
    from unified_planning.model import problem_kind_versioning as pkv

    if dict(pkv.FEATURES_VERSIONS) != L.VERSIONS or pkv.LATEST_PROBLEM_KIND_VERSION != L.LATEST:
        diff = {k: (pkv.FEATURES_VERSIONS.get(k), L.VERSIONS.get(k)) for k in set(pkv.FEATURES_VERSIONS) | set(L.VERSIONS) if pkv.FEATURES_VERSIONS.get(k) != L.VERSIONS.get(k)}
        res.count("version_table_differs_from_documentation")
        return diff
    return None


def all_features():
    from unified_planning.model import problem_kind as pk

    return sorted(pk.all_features)


HOT = [
    "CONTINUOUS_NUMBERS", "DISCRETE_NUMBERS", "NUMERIC_FLUENTS", "INT_FLUENTS", "REAL_FLUENTS", "ACTIONS_COST",
    "OVERSUBSCRIPTION", "CONTINUOUS_TIME", "DISCRETE_TIME", "INT_TYPE_DURATIONS", "REAL_TYPE_DURATIONS",
    "INT_NUMBERS_IN_ACTIONS_COST", "REAL_NUMBERS_IN_ACTIONS_COST", "INT_NUMBERS_IN_OVERSUBSCRIPTION",
    "REAL_NUMBERS_IN_OVERSUBSCRIPTION", "UNDEFINED_INITIAL_NUMERIC", "PROCESSES", "EVENTS", "INCREASE_CONTINUOUS_EFFECTS",
]  # fmt: skip
DEPRECATED = ["CONTINUOUS_NUMBERS", "DISCRETE_NUMBERS", "NUMERIC_FLUENTS"]


def gen_features(rng, feats_all):
    u = rng.random()
    k = rng.choice([0, 1, 2, 3, 4, 6, 9]) if u < 0.9 else rng.randint(10, 40)
    out = set()
    for _ in range(k):
        out.add(rng.choice(HOT) if rng.random() < 0.6 else rng.choice(feats_all))
    return out


def pick_version(rng, feats, prefer=None):
    lo = max([1] + [L.added(f) for f in feats])
    opts = [None] + list(range(lo, L.LATEST + 1))
    if prefer is not None and prefer in opts and rng.random() < 0.7:
        return prefer
    return rng.choice(opts)


def sp(feats, ver):
    return (tuple(sorted(feats)), ver)


OBS = ["le", "ge", "eq", "union", "intersection", "hash", "version", "self-le"]


def gen_history(rng, feats_all, res):
    """-> (declared version, script): features of rising versions are set (some unset again) with observations in between."""
    grp = groups()
    declared = None if rng.random() < 0.8 else rng.choice([1, 2, 3])
    cap = declared or L.LATEST
    by_level = {v: [f for f in feats_all if L.added(f) == v] for v in range(1, L.LATEST + 1)}
    init = set()
    if rng.random() < 0.4:
        init = {f for f in gen_features(rng, feats_all) if L.added(f) <= (1 if rng.random() < 0.7 else cap)}
    cur = set(init)
    ops = []
    observed_at = None  # version the kind had when it was last observed
    flags = set()
    lvl = 1 if rng.random() < 0.8 else rng.randint(1, cap)
    for _ in range(rng.randint(2, 4)):
        # -- mutate
        for _ in range(rng.randint(1, 3)):
            u = rng.random()
            if u < 0.2 and cur:
                newest = max(L.added(f) for f in cur)
                pool = sorted(f for f in cur if L.added(f) == newest) if rng.random() < 0.7 else sorted(cur)
                f = rng.choice(pool)
                ops.append(("unset", grp[f], f))
                cur.discard(f)
            else:
                pool = by_level[lvl] if u < 0.75 else [f for f in HOT if L.added(f) <= lvl]
                f = rng.choice(pool)
                ops.append(("set", grp[f], f))
                cur.add(f)
            now = L.version_of(cur, declared)
            if observed_at is not None and now > observed_at:
                flags.add("history:version_rises_after_observation")
                observed_at = now
            if observed_at is not None and now < observed_at:
                flags.add("history:version_falls_after_observation")
                observed_at = now
        # -- observe
        v = L.version_of(cur, declared)
        for _ in range(rng.randint(0, 2)):
            t = rng.choice(OBS)
            if t in ("hash", "version", "self-le"):
                ops.append((t,))
            else:
                u = rng.random()
                if u < 0.35:
                    o = sp({f for f in cur if rng.random() < 0.7}, v)
                elif u < 0.55:
                    o = sp((), rng.randint(1, L.LATEST))
                elif u < 0.8:
                    fs = {f for f in cur if rng.random() < 0.7} | {f for f in gen_features(rng, feats_all) if L.added(f) <= v}
                    o = sp(fs, pick_version(rng, fs, prefer=v))
                else:
                    fs = gen_features(rng, feats_all)
                    o = sp(fs, pick_version(rng, fs))
                ops.append((t, o))
            observed_at = v
            flags.add("history:obs:" + t)
        if lvl < cap and rng.random() < 0.75:
            lvl += 1
    if declared is None:
        flags.add("history:unversioned")
    for f in sorted(flags):
        res.count(f)
    return declared, (tuple(sorted(init)), tuple(ops))


def gen_pair(rng, feats_all, res=None):
    """-> (spec_a, spec_b, style)"""
    style = rng.choice(["random", "twin", "subset", "subset", "cross", "cross", "same-version-random", "history"])
    if style == "history":
        declared, script = gen_history(rng, feats_all, res)
        sa = history_spec(declared, script)
        a, va = set(sa[0]), declared
        ea = L.version_of(a, va)
        u = rng.random()
        if u < 0.4:
            b = {f for f in a if rng.random() < 0.8} | ({f for f in gen_features(rng, feats_all) if L.added(f) <= ea} if rng.random() < 0.5 else set())
            vb = ea if L.version_of(b, None) != ea or rng.random() < 0.6 else None
        elif u < 0.8:
            b = {f for f in a if rng.random() < 0.8 and L.added(f) < ea} | ({f for f in gen_features(rng, feats_all) if L.added(f) < ea} if rng.random() < 0.5 else set())
            vb = pick_version(rng, b)
        else:
            b = gen_features(rng, feats_all)
            vb = pick_version(rng, b)
        if rng.random() < 0.5:
            return sp(b, vb), sa, style
        return sa, sp(b, vb), style
    a = gen_features(rng, feats_all)
    va = pick_version(rng, a)
    ea = L.version_of(a, va)
    if style == "random":
        b = gen_features(rng, feats_all)
        return sp(a, va), sp(b, pick_version(rng, b)), style
    if style == "same-version-random":
        b = {f for f in gen_features(rng, feats_all) if L.added(f) <= ea}
        vb = ea if L.version_of(b, None) != ea or rng.random() < 0.5 else None
        return sp(a, va), sp(b, vb), style
    if style == "twin":
        # same meaning at the same version, different raw sets (deprecated noise) / different way of stating the version
        b = set(a)
        for f in DEPRECATED:
            if rng.random() < 0.5:
                b.symmetric_difference_update({f})
        vb = ea if L.version_of(b, None) != ea or rng.random() < 0.6 else None
        return sp(a, va), sp(b, vb), style
    if style == "subset":
        b = set(a) | {f for f in gen_features(rng, feats_all) if L.added(f) <= ea}
        for f in DEPRECATED:
            if rng.random() < 0.3:
                b.symmetric_difference_update({f})
        vb = ea if L.version_of(b, None) != ea or rng.random() < 0.6 else None
        if rng.random() < 0.5:
            return sp(b, vb), sp(a, va), style
        return sp(a, va), sp(b, vb), style
    # cross: related feature sets at different versions
    b = set(L.upgrade(a, ea, L.LATEST)) if rng.random() < 0.6 else set(a)
    if rng.random() < 0.6:
        b |= gen_features(rng, feats_all)
    if rng.random() < 0.3 and b:
        b.discard(rng.choice(sorted(b)))
    lo = max([1] + [L.added(f) for f in b])
    cands = [v for v in range(lo, L.LATEST + 1) if v != ea]
    vb = rng.choice(cands) if cands else pick_version(rng, b)
    if rng.random() < 0.5:
        return sp(b, vb), sp(a, va), style
    return sp(a, va), sp(b, vb), style


# ------------------------------------------------------------------------------------------------------------------
# judgements


class Ctx:
    def __init__(self, res, key, tier):
        self.res, self.key, self.tier = res, key, tier

    def viol(self, mech, summary, **w):
        self.res.violation(mech, summary, {"case_key": self.key, "tier": self.tier, **w})


def show(spec):
    if len(spec) == 3:
        init, ops = spec[2]
        txt = "; ".join(
            f"k.{o[0]}_{o[1]}({o[2]!r})" if o[0] in ("set", "unset") else (o[0] if len(o) == 1 else f"{o[0]} {show(o[1])}") for o in ops
        )
        return f"[k = ProblemKind({list(init)}, version={spec[1]}); {txt} -> features now {list(spec[0])}]"
    return f"ProblemKind({list(spec[0])}, version={spec[1]})"


def lib_le(sa, sb):
    return bool(mk(sa) <= mk(sb))


def lib_eq(sa, sb):
    return bool(mk(sa) == mk(sb))


def judge_pair(sa, sb, cx, uppers=()):
    """All pair-level judgements. Returns True iff a violation was reported."""
    res = cx.res
    res.mon()
    res.case()
    ma, mb = model(sa), model(sb)
    w = dict(a=show(sa), b=show(sb))
    try:
        return _judge_pair(sa, sb, ma, mb, cx, uppers, w)
    except _env.INTERNAL_EXC as e:
        cx.viol(f"operator-raises:{type(e).__name__}", f"an operator raised {e!r} on {show(sa)} , {show(sb)}", **w)
        return True


def _judge_pair(sa, sb, ma, mb, cx, uppers, w):
    res = cx.res
    # -- observations on purity (not judged) -- and hashing of fresh objects, before anything else touches them
    ka, kb = mk(sa), mk(sb)
    ha, hb = hash(ka), hash(kb)
    raw_a = set(ka.features)
    bad = False
    e_ab = bool(ka == kb)
    if bool(kb == ka) != e_ab:
        cx.viol("eq-not-symmetric", f"{show(sa)} == {show(sb)} is {e_ab} but the converse is {not e_ab}", **w)
        return True
    if hash(ka) != ha:
        res.count("observation:hash_changes_after_eq")
    l_ab = bool(ka <= kb)
    if set(ka.features) != raw_a:
        res.count("observation:le_mutates_operand_features")
        if hash(ka) != ha:
            res.count("observation:hash_changes_after_le")
    l_ba = lib_le(sb, sa)
    same_version = ma.version == mb.version
    # derived operators (functools.total_ordering assumes a total order): observed, not judged
    if bool(mk(sa) >= mk(sb)) != l_ba:
        res.count("observation:ge_differs_from_reversed_le")
    if bool(mk(sa) > mk(sb)) != (l_ba and not l_ab):
        res.count("observation:gt_differs_from_strict_reversed_le")
    if bool(mk(sa) < mk(sb)) != (l_ab and not l_ba):
        res.count("observation:lt_differs_from_strict_le")
    # reflexivity (same object and equal fresh object)
    for s in (sa, sb):
        k = mk(s)
        if not (k <= k) or not lib_le(s, s) or not lib_eq(s, s):
            cx.viol("not-reflexive", f"{show(s)} is not <= / == itself", **w)
            return True
    if same_version:
        res.count("pairs_same_version")
        # antisymmetry with respect to ==, both directions
        if l_ab and l_ba and not e_ab:
            cx.viol("antisymmetry:le-both-ways-but-not-equal", f"{show(sa)} <= {show(sb)} and conversely, but they are not ==", **w)
            return True
        if e_ab and not (l_ab and l_ba):
            cx.viol("antisymmetry:equal-but-not-le", f"{show(sa)} == {show(sb)} but <= is ({l_ab}, {l_ba})", **w)
            return True
        # hashing
        if e_ab:
            res.count("pairs_equal")
            if sa[0] != sb[0]:
                res.count("pairs_equal_with_different_raw_features")
                res.nt(("eq", sa, sb))
            if ha != hb:
                only_dep = all(not L.is_valid(f, ma.version) for f in set(sa[0]) ^ set(sb[0]))
                cx.viol(
                    "equal-kinds-hash-differ" + (":deprecated-features" if only_dep and sa[0] != sb[0] else ""),
                    f"{show(sa)} == {show(sb)} but their hashes differ; raw feature sets differ in {sorted(set(sa[0]) ^ set(sb[0]))}",
                    expected="hash(a) == hash(b)",
                    observed=[ha, hb],
                    **w,
                )
                bad = True  # keep judging the other laws on this pair
        elif l_ab or l_ba:
            res.count("pairs_comparable_unequal")
            res.nt(("lt", sa, sb))
        else:
            res.count("pairs_incomparable")
        # set model of <= and ==
        if l_ab != L.le(ma, mb) or l_ba != L.le(mb, ma):
            cx.viol(
                "le-differs-from-set-model",
                f"<= between {show(sa)} and {show(sb)} is ({l_ab}, {l_ba}); the valid feature sets {sorted(ma.feats)} / {sorted(mb.feats)} give ({L.le(ma, mb)}, {L.le(mb, ma)})",
                expected=[L.le(ma, mb), L.le(mb, ma)],
                observed=[l_ab, l_ba],
                **w,
            )
            return True
        # union = least upper bound, intersection = greatest lower bound
        for op, mop, up in (("union", L.union, True), ("intersection", L.intersection, False)):
            r = getattr(mk(sa), op)(mk(sb))
            sr = spec_of(r)
            mr = mop(ma, mb)
            if r.version != ma.version:
                cx.viol(f"{op}-changes-version", f"{op} of two version-{ma.version} kinds has version {r.version}", **w)
                return True
            bound_ok = (lib_le(sa, sr) and lib_le(sb, sr)) if up else (lib_le(sr, sa) and lib_le(sr, sb))
            if not bound_ok:
                cx.viol(
                    f"{op}-is-not-a-bound",
                    f"{op}({show(sa)}, {show(sb)}) = {show(sr)} is not {'above' if up else 'below'} both arguments",
                    result=show(sr),
                    **w,
                )
                return True
            if L.norm(sr[0], sr[1]) != mr.feats:
                cx.viol(
                    f"{op}-differs-from-set-model",
                    f"{op}({show(sa)}, {show(sb)}) = {show(sr)}; the set model gives {sorted(mr.feats)}",
                    expected=sorted(mr.feats),
                    observed=sorted(L.norm(sr[0], sr[1])),
                    **w,
                )
                return True
            # leastness / greatestness against sampled bounds (library's own <=)
            for sc in uppers:
                mc = model(sc)
                if mc.version != ma.version:
                    continue
                if up and lib_le(sa, sc) and lib_le(sb, sc):
                    res.count("upper_bounds_checked")
                    if not lib_le(sr, sc):
                        cx.viol("union-not-least", f"{show(sc)} is above {show(sa)} and {show(sb)} but not above their union {show(sr)}", c=show(sc), **w)
                        return True
                if not up and lib_le(sc, sa) and lib_le(sc, sb):
                    res.count("lower_bounds_checked")
                    if not lib_le(sc, sr):
                        cx.viol("intersection-not-greatest", f"{show(sc)} is below {show(sa)} and {show(sb)} but not below their intersection {show(sr)}", c=show(sc), **w)
                        return True
        # upgrading preserves <= : observe the upgrade through union with the empty kind of a later version
        for tgt in range(ma.version + 1, L.LATEST + 1):
            ua, ub = upgraded(sa, tgt), upgraded(sb, tgt)
            res.count("upgrade_monotonicity_checked")
            if l_ab and not lib_le(ua, ub) or l_ba and not lib_le(ub, ua):
                cx.viol("upgrade-not-monotone", f"{show(sa)} vs {show(sb)}: <= is ({l_ab},{l_ba}) but after upgrading both to version {tgt} it is ({lib_le(ua, ub)},{lib_le(ub, ua)})", **w)
                return True
            for s0, m0, u0 in ((sa, ma, ua), (sb, mb, ub)):
                if u0[1] != tgt or L.norm(u0[0], tgt) != m0.up(tgt).feats:
                    cx.viol(
                        "upgrade-differs-from-model",
                        f"{show(s0)} upgraded to version {tgt} (union with the empty version-{tgt} kind) is {show(u0)}; documented upgrade gives {sorted(m0.up(tgt).feats)}",
                        expected=sorted(m0.up(tgt).feats),
                        observed=sorted(L.norm(u0[0], tgt)),
                        **w,
                    )
                    return True
    else:
        res.count("pairs_cross_version")
        if e_ab:
            cx.viol("kinds-of-different-versions-equal", f"{show(sa)} == {show(sb)} although their versions are {ma.version} and {mb.version}", **w)
            return True
        older, newer = (ma, mb) if ma.version < mb.version else (mb, ma)
        if older.up(newer.version).feats != older.feats:
            res.count("cross_version_upgrade_changes_older")
            res.nt(("cross", sa, sb))
        # comparing kinds of different versions upgrades the older one
        exp_ab, exp_ba = L.le(ma, mb), L.le(mb, ma)
        if l_ab != exp_ab or l_ba != exp_ba:
            cx.viol(
                "cross-version-le-differs-from-upgrade-model",
                f"<= between {show(sa)} (v{ma.version}) and {show(sb)} (v{mb.version}) is ({l_ab}, {l_ba}); upgrading the older one to {sorted(older.up(newer.version).feats)} gives ({exp_ab}, {exp_ba})",
                expected=[exp_ab, exp_ba],
                observed=[l_ab, l_ba],
                **w,
            )
            return True
        if l_ab:
            res.count("cross_version_le_true")
        # the same answer must result from upgrading explicitly first
        so, sn = (sa, sb) if ma.version < mb.version else (sb, sa)
        uo = upgraded(so, newer.version)
        if lib_le(uo, sn) != lib_le(so, sn) or lib_le(sn, uo) != lib_le(sn, so):
            cx.viol("cross-version-le-differs-from-explicit-upgrade", f"{show(so)} compared with {show(sn)} answers differently from its explicit upgrade {show(uo)}", **w)
            return True
        u = mk(sa).union(mk(sb))
        su = spec_of(u)
        if u.version != newer.version:
            cx.viol("union-keeps-lower-version", f"union of versions {ma.version} and {mb.version} has version {u.version}", **w)
            return True
        if not (lib_le(sa, su) and lib_le(sb, su)):
            cx.viol("cross-version-union-is-not-a-bound", f"union({show(sa)}, {show(sb)}) = {show(su)} is not above both arguments", **w)
            return True
    return bad


def judge_twin(sh, cx):
    """A kind with a history must be indistinguishable from a fresh kind with the same raw features and declared version."""
    from unified_planning.model.problem_kind import ProblemKind

    res = cx.res
    res.mon()
    res.case()
    res.count("history_twins_judged")
    sf = sh[:2]
    w = dict(a=show(sh), b=show(sf))
    try:
        lv, fv = mk(sh).version, mk(sf).version
        if lv != fv:
            cx.viol("history:version-differs-from-fresh-kind", f"{show(sh)} has version {lv}; a fresh kind with the same features has version {fv}", expected=fv, observed=lv, **w)
            return True
        if hash(mk(sh)) != hash(mk(sf)):
            cx.viol("history:hash-differs-from-fresh-kind", f"{show(sh)} hashes differently from a fresh kind with the same features", **w)
            return True
        if not (mk(sh) == mk(sf)) or not (mk(sf) == mk(sh)):
            cx.viol("history:not-equal-to-fresh-kind", f"{show(sh)} is not == a fresh kind with the same features", **w)
            return True
        if not lib_le(sh, sf) or not lib_le(sf, sh) or not lib_le(sh, sh):
            cx.viol("history:not-le-fresh-kind", f"{show(sh)} and a fresh kind with the same features are not mutually <=", **w)
            return True
        probes = [sp((), v) for v in range(1, L.LATEST + 1)] + [spec_of(mk(sf).union(ProblemKind(version=L.LATEST)))]
        for so in probes:
            for op in ("union", "intersection"):
                r1, r2 = spec_of(getattr(mk(sh), op)(mk(so))), spec_of(getattr(mk(sf), op)(mk(so)))
                r3, r4 = spec_of(getattr(mk(so), op)(mk(sh))), spec_of(getattr(mk(so), op)(mk(sf)))
                if r1 != r2 or r3 != r4:
                    cx.viol(f"history:{op}-differs-from-fresh-kind", f"{op} of {show(sh)} with {show(so)} is {show(r1)} / {show(r3)}; for a fresh kind with the same features it is {show(r2)} / {show(r4)}", **w)
                    return True
            if lib_le(sh, so) != lib_le(sf, so) or lib_le(so, sh) != lib_le(so, sf):
                cx.viol("history:le-differs-from-fresh-kind", f"{show(sh)} compares with {show(so)} differently from a fresh kind with the same features", c=show(so), **w)
                return True
    except _env.INTERNAL_EXC as e:
        cx.viol(f"history:operator-raises:{type(e).__name__}", f"an operator raised {e!r} on {show(sh)}", **w)
        return True
    return False


def upgraded(spec, tgt):
    from unified_planning.model.problem_kind import ProblemKind

    return spec_of(mk(spec).union(ProblemKind(version=tgt)))


def judge_triple(sa, sb, sc, cx):
    res = cx.res
    res.mon()
    res.case()
    ab, bc = lib_le(sa, sb), lib_le(sb, sc)
    if ab and bc:
        res.count("chains_checked")
        if len({model(s).version for s in (sa, sb, sc)}) > 1:
            res.count("chains_cross_version_not_judged")
            return False
        if not lib_le(sa, sc):
            cx.viol("not-transitive", f"{show(sa)} <= {show(sb)} <= {show(sc)} but not {show(sa)} <= {show(sc)}", a=show(sa), b=show(sb), c=show(sc))
            return True
    return False


# ------------------------------------------------------------------------------------------------------------------


def run_case(key, tier, res, feats_all):
    rng = rng_for(key)
    cx = Ctx(res, key, tier)
    try:
        sa, sb, style = gen_pair(rng, feats_all, res)
    except _env.INTERNAL_EXC as e:  # only the replay of a history calls the library while generating
        res.mon()
        res.case()
        cx.viol(f"history:operator-raises:{type(e).__name__}", f"building a kind through set_/unset_ calls and observations raised {e!r}")
        return
    res.count("style:" + style)
    for s in (sa, sb):
        if len(s) == 3 and judge_twin(s, cx):
            return
    ma, mb = model(sa), model(sb)
    uppers = []
    if ma.version == mb.version:
        v = ma.version
        extra = {f for f in gen_features(rng, feats_all) if L.added(f) <= v}
        uppers.append(sp(set(sa[0]) | set(sb[0]) | extra, v))
        uppers.append(sp((set(sa[0]) | set(sb[0])) - set(DEPRECATED), v))
        uppers.append(sp(set(sa[0]) & set(sb[0]) & (extra | set(HOT[:6])), v))
        uppers.append(sp(set(sa[0]) & set(sb[0]), v))
        uppers.append(sp(extra, v))
    if judge_pair(sa, sb, cx, uppers):
        return
    if res.evaluations <= 3:
        res.sample({"case_key": key, "style": style, "a": show(sa), "b": show(sb), "verdict": "laws hold"})
    # chain triple every 4th case
    if rng.random() < 0.25 and ma.version == mb.version:
        v = ma.version
        lo, hi = (sa, sb) if lib_le(sa, sb) else (sb, sa)
        top = sp(set(hi[0]) | {f for f in gen_features(rng, feats_all) if L.added(f) <= v} | set(rng.sample(DEPRECATED, rng.randint(0, 2))), v)
        mid = sp(set(hi[0]) ^ set(rng.sample(DEPRECATED, rng.randint(0, 3))), v if L.version_of(hi[0], None) != v or rng.random() < 0.5 else hi[1])
        judge_triple(lo, hi, top, cx)
        judge_triple(lo, mid, top, cx)
        judge_triple(sa, sb, top, cx)


def logged_kinds(tier, res):
    """Kinds created by the library itself: module constants, example problems, engines' supported kinds."""
    from unified_planning.model import problem_kind as pk

    specs = {}
    for name in sorted(dir(pk)):
        k = getattr(pk, name)
        if isinstance(k, pk.ProblemKind):
            specs[spec_of(k)] = "const:" + name
    try:
        from unified_planning.test.examples import get_example_problems

        for name, ex in sorted(get_example_problems().items()):
            specs.setdefault(spec_of(ex.problem.kind), "example:" + name)
    except Exception:  # noqa
        res.count("logged_examples_unavailable")
    try:
        e = _env.fresh_env()
        for name in sorted(e.factory.engines):
            try:
                specs.setdefault(spec_of(e.factory.engine(name).supported_kind()), "engine:" + name)
            except Exception:  # noqa
                res.count("logged_engine_kind_unavailable")
    except Exception:  # noqa
        res.count("logged_engines_unavailable")
    return specs


def run_logged(tier, res):
    specs = logged_kinds(tier, res)
    keys = sorted(specs, key=lambda s: (s[1], s[0]))
    res.count("logged_kinds", len(keys))
    # every logged kind also in a declared older/None version where constructible, to reach cross-version paths
    cx = Ctx(res, "C33:logged", tier)
    for i, sa in enumerate(keys):
        for sb in keys[i:]:
            cx.key = f"C33:logged:{specs[sa]}|{specs[sb]}"
            res.count("logged_pairs")
            if judge_pair(sa, sb, cx):
                return


SUITE = (("kindorder",), "M-kindorder:judged")


def run_shard(spec, res):
    diff = check_tables(res)
    if diff is not None:
        raise RuntimeError(f"oracle version table differs from the library's FEATURES_VERSIONS: {diff}")
    if spec["tier"] == "thorough" and spec["shard"] == 1:
        # the repository's own test-suite re-run with the universal monitor M-kindorder installed (DESIGN §4): every ==, <=, hash,
        # union, intersection the library evaluates on its own kinds (engine selection, compilers, tests) is judged by the set model
        from vk.mon import suite as _suite

        _suite.feed(res, PROPERTY, _suite.run_suite(SUITE[0]), SUITE[1])
    feats_all = all_features()
    for key in spec["cases"]:
        run_case(key, spec["tier"], res, feats_all)
    if spec["shard"] == 0:
        run_logged(spec["tier"], res)


def replay(witness, res):
    if witness.get("suite"):
        from vk.mon import suite as _suite

        _suite.replay_suite(res, PROPERTY, SUITE[0], SUITE[1], witness)
        return
    feats_all = all_features()
    key = witness["case_key"]
    if key.startswith("C33:logged"):
        run_logged(witness.get("tier", "quick"), res)
    else:
        run_case(key, witness.get("tier", "quick"), res, feats_all)


def thresholds(m):
    c = m["counters"]
    out = []
    need = [
        ("pairs_same_version", 2000),
        ("pairs_cross_version", 2000),
        ("pairs_equal_with_different_raw_features", 300),
        ("pairs_comparable_unequal", 1000),
        ("pairs_incomparable", 500),
        ("cross_version_upgrade_changes_older", 300),
        ("cross_version_le_true", 200),
        ("upper_bounds_checked", 1000),
        ("lower_bounds_checked", 1000),
        ("upgrade_monotonicity_checked", 1000),
        ("chains_checked", 500),
        ("logged_pairs", 100),
        ("history_twins_judged", 1000),
        ("history:unversioned", 800),
        ("history:version_rises_after_observation", 400),
        ("history:version_falls_after_observation", 50),
    ] + [("history:obs:" + t, 100) for t in OBS]
    for k, n in need:
        if c.get(k, 0) < n:
            out.append(f"fewer than {n} observations of class {k} ({c.get(k, 0)})")
    if len(m["nontrivial"]) < 2000:
        out.append("fewer than 2000 distinct non-trivial pairs")
    from vk.mon import suite as _suite

    out.extend(_suite.thresholds(c, SUITE[1], 3000))
    return out

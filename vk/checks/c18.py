"""C18 - PDDL write/read round trip preserves problem semantics and plans (both readers).

Monitor: every PDDLWriter.get_domain/get_problem/get_plan and PDDLReader.parse_problem_string/parse_plan_string call made on
generated problems is judged at the API boundary: the re-read problem must be behaviourally equivalent to the original under
the writer's own renaming (vk.ref.bisim over vk.ref.seqsem), and written plans must parse back to the same instance sequence
with the same reference validity."""
import ast as _ast
from fractions import Fraction

from vk import env as _env  # noqa: F401  (wires sys.path to /repo)
from vk.core import rng_for, simple_plan, h
from vk.gen import iofrag
from vk.mon import io_rt
from vk.recipe import sequential_plan
from vk.ref import bisim, seqsem
from vk.ref.evalx import Unsupported

PROPERTY = "C18"
LEVEL = "exploration"
TECHNIQUE = "runtime monitoring: write -> re-read with both PDDL readers, bounded bisimulation of original and re-read problem under the writer's renaming with a reference semantics; plan text round trip"
LEVEL_TEXT = (
    "Each generated problem is written by the real PDDLWriter and re-read by the real PDDLReader (UP reader and AI-planning "
    "reader); original and re-read problem are explored in lock-step by an independent reference semantics (same objects per "
    "type, same initial state, every ground instance applicable in both or neither with corresponding successors, equal goal "
    "status; durative actions per time class, durations by value). Held on the executions observed within the depth/state "
    "bounds; no claim beyond the generated grammar."
)
LEVEL_NOTE = (
    "Trusted: CPython, fractions, read-only accessors of the model classes, vk/ref/evalx.py + seqsem.py + bisim.py. Temporal "
    "semantics is compared structurally per time class (start / end / over-all, timed initial literals), not by executing "
    "temporal plans. The third-party `pddl` package's own parser rejects many writer outputs (binary minus, negative literals, "
    "forall effects without :conditional-effects): those cases are counted as rejected for the AI reader, not judged."
)
RULE = (
    "cases = recipes from vk.gen.problem restricted to the PDDL fragment by vk.gen.iofrag (no bounded types / object fluents / "
    "invariants; Boolean fluents closed-world; finite-decimal rationals - every other case with all numeric fluents real and "
    "non-dyadic decimal constants 1/10, 1/5, 3/10, 7/20 .. in initial values, effect values, conditions, durations, compared "
    "exactly as Fractions, also along two lock-step walks of up to 6 state-changing steps; adversarial identifiers incl. keywords, upper case, "
    "leading digits, symbols, names equal to mangled forms; planted a-(b-c), a/(b/c); action costs / plan length / final-value "
    "metrics; conditional, forall, quantified constructs; durative actions with start/end/over-all conditions and timed "
    "initial literals). One evaluation = one judged comparison (initial state, goal status, one ground instance in one state "
    "pair, one duration, one plan round trip). distinct_nontrivial = distinct (recipe, reader) pairs with >= 1 renamed item or "
    ">= 1 arithmetic expression of depth >= 2 for which the bisimulation judged at least one applicable state-changing instance. "
    "The case index stratifies the variant (classic / AI-reader friendly / temporal), the duration form and the planted nested "
    "expression; only the AI-reader friendly cases and a quarter of the others are given to the AI-planning reader in the quick "
    "tier. Every 9th case each carries a planted writer trap on top of its variant (both meet every variant): (a) `f := e` for a "
    "Boolean fluent f that is true everywhere initially and a non-constant e that the simplifier reduces to false (g and not g, "
    "not true, 1 > 2, o1 == o2, exists x. (.. and false), ..; every 7th the mirror image with true), unconditional or under a "
    "forall, mostly in an action of its own without precondition, written with rewrite_bool_assignments (durative: at start / "
    "at end); (b) a flat typing with >= 2 root types one of which is called object / Object / OBJECT / oBjEcT, with objects and "
    "action parameters of it and of another type. Problems for which the writer emits a reserved word of the PDDL BNF as a name (e.g. `assign`) are property C38's "
    "subject and are not judged (counter rejected-by-C38-defect:keyword-as-name)."
)
ASSUMPTIONS = [
    "oracle vk/ref/seqsem.py + vk/ref/bisim.py implement DESIGN 3.2 / 3.5 faithfully; accessors of the model classes do not lie",
    "don't-care classes of the reference semantics (undefined reads that simplification may remove, assign+increase on one fluent, ...) are excluded",
    "problems whose rationals the writer itself reports as not exactly representable are outside the statement's fragment and skipped",
]
SHARD_TIMEOUT = {"quick": 900, "thorough": 5400}
# ai_other: share of the non-"ai-friendly" cases that are also given to the AI-planning reader (the third-party parser behind it
# rejects most of them - binary minus, negative literals, durative actions - after 0.1-0.2 CPU-seconds spent building its grammar)
BOUNDS = {
    "quick": dict(n=120, shards=5, depth=2, max_states=8, max_inst=10, walks=2, walk_len=6, plans=2, ai_other=0.25),
    "thorough": dict(n=6000, shards=16, depth=3, max_states=40, max_inst=24, walks=3, walk_len=8, plans=4, ai_other=1.0),
}


def plan(tier, seed):
    b = BOUNDS[tier]
    return simple_plan(PROPERTY, tier, seed, b["n"], b["n"], shards_quick=b["shards"], shards_thorough=BOUNDS["thorough"]["shards"])


def run_shard(spec, res):
    for key in spec["cases"]:
        run_case(key, spec["tier"], res)
    if spec["tier"] == "thorough" and spec["shard"] == 0:
        run_examples(spec["tier"], res)


def replay(witness, res):
    if witness.get("example"):
        run_examples(witness.get("tier", "thorough"), res, only=witness["example"])
    else:
        run_case(witness["case_key"], witness.get("tier", "quick"), res)


# ---------------------------------------------------------------------------------------------------------------------------
def _renamed_items(problem, writer):
    n = 0
    items = list(problem.user_types) + list(problem.fluents) + list(problem.actions) + list(problem.all_objects)
    for it in items:
        try:
            if writer.get_pddl_name(it) != it.name:
                n += 1
        except io_rt.UPException:
            pass
    for a in problem.actions:
        for p in a.parameters:
            try:
                if writer.get_pddl_name(p) != "?" + p.name:
                    n += 1
            except io_rt.UPException:
                pass
    return n


def _constant_bool_assignments(problem):
    """[(action name, fluent name, value)] for the unconditional assignments to Boolean fluents whose value is a non-constant
    expression that the library's simplifier reduces to a constant (coverage counter and mechanism name of a mismatch only,
    never a verdict)."""
    out = []
    for a in problem.actions:
        effs = a.effects if hasattr(a, "preconditions") else [e for el in a.effects.values() for e in el]
        for e in effs:
            v = e.value
            if v.type.is_bool_type() and not v.is_constant():
                try:
                    sv = v.simplify()
                    if (sv.is_false() or sv.is_true()) and e.condition.simplify().is_true():
                        out.append((a.name, e.fluent.fluent().name, sv.is_true()))
                except Exception:  # noqa
                    pass
    return out


def _object_named_types(problem):
    """The user types called `object` (in any letter case) of a flat typing with further types, with objects of them and of
    another type, and whether some action / fluent parameter has such a type."""
    if len(problem.user_types) < 2 or problem.kind.has_hierarchical_typing():
        return [], False
    ts = [t for t in problem.user_types if t.name.lower() == "object"]
    ts = [t for t in ts if 0 < sum(1 for o in problem.all_objects if o.type == t) < len(problem.all_objects)]
    used = any(p.type in ts for a in problem.actions for p in a.parameters) or any(p.type in ts for f in problem.fluents for p in f.signature)
    return ts, used


def run_case(key, tier, res):
    b = BOUNDS[tier]
    res.count("tier:" + tier)
    rng = rng_for(key)
    rec, info = iofrag.gen_pddl_case(rng, int(key.rsplit(":", 1)[1]))
    explicit_env = rng.random() < 0.12
    if info.get("stratum"):
        res.count("stratum:" + info["stratum"])
    e = _env.fresh_env()
    try:
        pb, ctx = io_rt.instantiate(rec, e)
    except io_rt.UPException:
        res.count("rejected_at_build")
        return
    wbase = {"case_key": key, "tier": tier, "recipe": rec, "info": info}
    check_problem(pb, rec, info, wbase, b, res, rng, explicit_env)


def check_problem(pb, rec, info, wbase, b, res, rng, explicit_env=False):
    from unified_planning.model import Action

    def viol(mech, summary, **w):
        res.violation(mech, summary, {**wbase, **w})

    res.count("variant:" + str(info.get("variant")))
    # ---- write ----------------------------------------------------------------------------------------------------------
    res.mon()
    writer, wout = io_rt.write_pddl(pb, info.get("rewrite", False), info.get("empty_pre", False))
    res.case()
    if not wout.ok:
        ex = wout.exc
        if isinstance(ex, io_rt.DOCUMENTED_REJECTIONS):
            res.count("rejected_by_writer:" + type(ex).__name__)
            return
        where = io_rt.origin(ex, "pddl_writer.py")
        ms = [m for m in pb.quality_metrics if m.is_minimize_action_costs()]
        if isinstance(ex, AttributeError) and ms and any(ms[0].get_action_cost(a) is None for a in pb.actions):
            # MinimizeActionCosts.get_action_cost documents that a cost MUST be set for every action (mapping or default):
            # such a metric is not a valid model, the writer owes nothing (the generator no longer produces it)
            res.count("skipped_invalid_cost_metric")
            return
        viol("writer-raises:" + io_rt.exc_class(ex) + ":" + where, f"PDDLWriter.get_domain/get_problem raised {ex!r}")
        return
    if wout.inexact():
        res.count("skipped_inexact_decimal")
        return
    dom, prob = wout.value
    kw = io_rt.pddl_c38_keyword_names(pb, writer, dom, prob)
    if kw:
        res.count("rejected-by-C38-defect:keyword-as-name")
        return
    renamed = _renamed_items(pb, writer)
    deep = max([iofrag.num_depth(x) for x in iofrag.all_exprs(rec)] or [0]) if "example" not in wbase else 0
    nested = iofrag.nested_noncommutative(rec) if "example" not in wbase else set()
    interesting = renamed > 0 or deep >= 2
    pid = h(rec)
    sampled = False
    tags = io_rt.pddl_text_tags(dom, prob)
    for t in tags:
        res.count("text:" + t)
    pddl3 = io_rt.pddl3_word_names(pb, writer)
    if pddl3:
        res.count("text:pddl3-word-as-name")
    const_ass = _constant_bool_assignments(pb) if info.get("rewrite") else []
    neg_taut = [f for _, f, v in const_ass if not v]
    if neg_taut:
        res.count("text:bool-assignment-simplifying-to-false")
    # a user type called `object` in a flat typing with other types must not be written as PDDL's root type `object`
    obj_types, obj_type_used = _object_named_types(pb)
    type_object = False  # the writer left one of them unmangled
    if obj_types:
        res.count("text:user-type-named-object")
        for t in obj_types:
            try:
                type_object = type_object or writer.get_pddl_name(t).lower() == "object"
            except io_rt.UPException:
                pass
    import re as _re

    constant_metric = bool(_re.search(r"\(:metric\s+(minimize|maximize)\s+[-0-9.]+\s*\)", prob))
    ai_rng = rng_for(wbase.get("case_key", wbase.get("example")), "ai-reader")
    for which in ("up", "ai"):
        if which == "ai" and info.get("variant") not in ("ai-friendly", "example") and ai_rng.random() >= b.get("ai_other", 1.0):
            res.count("ai_reader_not_tried")
            continue
        # One mechanism string per root cause. Constructs that the third-party `pddl` package behind the AI reader mis-parses
        # (its AST already lacks the repeated operand / nests differently / has Or() for the empty precondition) key the
        # string, however the difference shows (exception in the converter, applicability, successor, goal, ...).
        third_party = ("ai:third-party-misparse[" + io_rt.primary_tag(tags) + "]") if which == "ai" and tags else None
        renv = _env.fresh_env()
        res.mon()
        reader, rout = io_rt.read_pddl(which, dom, prob, renv, explicit_env)
        res.case()
        res.count(f"read_attempts:{which}")
        if explicit_env:
            res.count(f"read_with_explicit_environment:{which}")
        if not rout.ok:
            ex = rout.exc
            if which == "ai" and not io_rt.passes_through(ex, "interop/from_pddl.py"):
                # raised by the third-party `pddl` package's own parser before unified-planning's converter was reached:
                # a limitation of that package (binary minus, negative literals, ...), not judged
                res.count("ai_parser_rejects")
                res.count("ai_parser_rejects:" + type(ex).__name__)
                continue
            if isinstance(ex, io_rt.READER_REJECTIONS):
                res.count(f"rejected_by_reader:{which}:{type(ex).__name__}")
                continue
            if explicit_env and "environment" in str(ex):
                # one root cause per reader (objects created in the global environment), whichever assertion trips first
                mech = f"reader-raises:{which}:explicit-environment"
            elif which == "up" and constant_metric and "Expected" in str(ex):
                # `(:metric maximize 0)` (the metric expression simplifies to a constant): legal PDDL the UP reader's grammar
                # (metric ::= name | nested expression) cannot parse
                mech = "reader-raises:up:constant-metric"
            elif type_object and not isinstance(ex, io_rt.UPException):
                # the writer left the user type `object` unmangled: the text declares objects / parameters `- object` and, for
                # other letter cases, `object` in (:types ...) - whichever internal error the readers answer with
                mech = "writer:user-type-named-object"
            elif which == "up" and pddl3:
                # the writer left a PDDL3 modal-operator word (always, sometime, ...) unmangled (it only reserves them for
                # problems with trajectory constraints) and the UP reader parses `(sometime ...)` as the operator
                mech = "reader-raises:up:pddl3-word-as-name"
            elif third_party and any(t in tags for t in ("nested-div", "nested-minus")):
                # (/ (/ a b) c) arrives flattened as (/ a b c): ExpressionManager.Div() takes 2 operands -> TypeError
                mech = "ai:third-party-misparse[" + io_rt.primary_tag([t for t in tags if t in ("nested-div", "nested-minus")]) + "]"
            else:
                mech = f"reader-raises:{which}:{io_rt.exc_class(ex)}"
            viol(mech, f"PDDLReader({which}).parse_problem_string raised {ex!r} on the writer's output", domain=dom, problem=prob, reader=which, explicit_env=explicit_env)
            if explicit_env and "environment" in str(ex):
                # continue with the default-environment mode so that the semantic comparison still happens
                renv = _env.fresh_env()
                reader, rout = io_rt.read_pddl(which, dom, prob, renv, False)
                if not rout.ok:
                    continue
            else:
                continue
        pb2 = rout.value
        res.count(f"read_ok:{which}")

        def name_of(item, writer=writer):
            try:
                return writer.get_pddl_name(item)
            except io_rt.UPException:
                if isinstance(item, Action):
                    # the writer omits actions whose precondition simplifies to false: such an action has no PDDL name and
                    # must never be applicable (bisim treats an action missing on one side as never applicable there)
                    return "\0not-written:" + item.name
                raise

        try:
            st, corr = bisim.bisimulate(pb, pb2, bisim.FnNameMap(name_of), depth=b["depth"], max_states=b["max_states"], max_inst=b["max_inst"], walks=b.get("walks", 0), walk_len=b.get("walk_len", 0))
        except bisim.Mismatch as m:
            res.mon()
            res.case()
            mech = f"{which}:{m.mechanism}"
            diff = m.details.get("diff") or {}
            if neg_taut and m.mechanism.startswith("successor-mismatch") and any(k.split("(")[0] in neg_taut and v[2] == "bool" for k, v in diff.items()):
                # root cause in the writer (both readers read what was written): `f := <expression that simplifies to false>`
                # is rewritten to the positive literal
                mech = "writer:bool-assignment-simplifying-to-false-written-positive"
            elif type_object and m.mechanism in ("type-extension", "parameter-domain", "object-extra", "object-missing"):
                mech = "writer:user-type-named-object"
            elif which == "ai" and any(v[2] == "num" and io_rt.inexact_binary(v[1]) for v in diff.values()):
                mech = "ai:inexact-decimal-constant"
            elif third_party and not m.mechanism.startswith("initial-state"):
                mech = third_party
            viol(mech, f"[{which} reader] {m.summary}", domain=dom, problem=prob, reader=which, text_tags=tags, **m.details)
            continue
        except Unsupported as u:
            res.count("skipped_unsupported_by_oracle")
            continue
        except io_rt.UPException as u:  # get_pddl_name of an item the writer never named
            viol(f"writer-name-missing:{which}", f"writer.get_pddl_name failed: {u!r}", domain=dom, problem=prob)
            continue
        res.mon(st.judged)
        res.case(st.judged)
        for k, v in st.counters.items():
            res.count(k, v)
        res.count(f"bisimulated:{which}")
        if obj_types:
            # (the correspondence compared the extension of every type and the domain of every parameter before any state)
            res.count("class:user-type-named-object")
            if obj_type_used:
                res.count("class:user-type-named-object-as-parameter-type")
        if st.nontrivial:
            res.count(f"bisimulated_with_changes:{which}")
            if interesting:
                res.nt((pid, which))
            if renamed:
                res.count("class:renamed-items")
            if "minus" in nested:
                res.count("class:nested-minus")
            if "div" in nested:
                res.count("class:nested-div")
            if deep >= 2:
                res.count("class:numeric-depth>=2")
            if rec.get("metric") and rec["metric"]["kind"] in ("costs", "length"):
                res.count("class:action-costs")
            if info.get("durative"):
                res.count("class:durative")
            if rec.get("timed_effects"):
                res.count("class:timed-initial")
            if info.get("rewrite"):
                res.count("class:rewrite-bool-assignments")
            # strata: the bisimulation judged >= 1 applicable, state-changing instance of an action with such an assignment /
            # of a problem with such a type
            applied = {_ast.literal_eval(k)[1] for _, k, _ in st.nontrivial if k.startswith(("('inst'", "('dur'"))}
            for val in (False, True):
                if any(a in applied for a, _, v in const_ass if v == val):
                    res.count("class:bool-assignment-simplifying-to-" + ("true" if val else "false"))
            if "example" not in wbase and iofrag.has_non_dyadic_decimals(rec):
                res.count("class:non-dyadic-decimal-constants")
                if st.counters.get("state-pairs-with-non-dyadic-decimal-values"):
                    res.count("class:non-dyadic-decimal-values-in-states")
        # metric: not part of C18's statement -> observation only
        try:
            bisim.compare_metrics(corr, st.reached, b["max_inst"])
        except bisim.Mismatch as m:
            res.count(f"observation:metric-differs:{which}:{m.mechanism}")
        except Unsupported:
            pass
        # ---- plans ------------------------------------------------------------------------------------------------------
        try:
            check_plans(pb, pb2, writer, reader, corr, which, b, rng_for(wbase.get("case_key", wbase.get("example")), "plans", which), res, viol, dom, prob)
        except Unsupported:
            res.count("skipped_unsupported_by_oracle")
        if not sampled and st.nontrivial:
            sampled = True
            res.sample({"problem": rec if "example" not in wbase else wbase["example"], "reader": which, "renamed_items": renamed, "judged": st.judged, "state_pairs": st.pairs, "verdict": "equivalent within bounds"})


def _random_plans(pb, rng, n, maxlen=3):
    """Random walks under the reference semantics (valid prefixes), plus one arbitrary sequence."""
    insts = seqsem.all_instances(pb)
    plans = []
    if not insts:
        return plans
    for _ in range(n):
        s = seqsem.initial_state(pb)
        steps = []
        for _ in range(rng.randint(1, maxlen)):
            cands = []
            for a, args in rng.sample(insts, min(len(insts), 12)):
                r = seqsem.succ(pb, s, a, args)
                if r.status == seqsem.OKAY:
                    cands.append((a, args, r.state))
            if not cands:
                break
            a, args, s = rng.choice(cands)
            steps.append((a, args))
        if steps:
            plans.append(steps)
    plans.append([rng.choice(insts) for _ in range(rng.randint(1, maxlen))])
    return plans


def _validity(pb, steps):
    """True / False / None (don't-care)."""
    status, states, i, r = seqsem.run_plan(pb, steps)
    if status == seqsem.DONTCARE:
        return None
    if status != seqsem.OKAY:
        return False
    return seqsem.goal_status(pb, states[-1])


def check_plans(pb, pb2, writer, reader, corr, which, b, rng, res, viol, dom, prob):
    from unified_planning.model import InstantaneousAction, DurativeAction
    from unified_planning.plans import SequentialPlan, TimeTriggeredPlan, ActionInstance

    if reader is None:
        return
    if all(isinstance(a, InstantaneousAction) for a in pb.actions):
        for steps in _random_plans(pb, rng, b["plans"]):
            if any(a.name not in corr.act for a, _ in steps):
                continue
            plan_ = sequential_plan(pb, steps)
            res.mon()
            out = io_rt.call(writer.get_plan, plan_)
            res.case()
            if not out.ok:
                viol(f"get_plan-raises:{io_rt.exc_class(out.exc)}", f"writer.get_plan raised {out.exc!r}", steps=[[a.name, list(x)] for a, x in steps])
                return
            text = out.value
            # (1) back onto the original problem through the writer's inverse renaming
            back = io_rt.call(reader.parse_plan_string, pb, text, writer.get_item_named)
            if not back.ok:
                viol(f"parse_plan-raises:{which}:{type(back.exc).__name__}", f"parse_plan_string(original, text, get_item_named) raised {back.exc!r}", plan_text=text)
                return
            got = [(ai.action.name, tuple(str(p) for p in ai.actual_parameters)) for ai in back.value.actions]
            exp = [(a.name, tuple(map(str, x))) for a, x in steps]
            same_objs = all(ai.action is a for ai, (a, _) in zip(back.value.actions, steps))
            if got != exp or not same_objs:
                viol(f"plan-roundtrip-differs:{which}", f"written plan parses back to {got}, expected {exp}", plan_text=text, expected=exp, observed=got)
                return
            # (2) onto the re-read problem by name; validity must agree
            fwd = io_rt.call(reader.parse_plan_string, pb2, text)
            if not fwd.ok:
                viol(f"parse_plan-raises:{which}:reread:{type(fwd.exc).__name__}", f"parse_plan_string(re-read problem, text) raised {fwd.exc!r}", plan_text=text, domain=dom, problem=prob)
                return
            steps2 = []
            for ai in fwd.value.actions:
                steps2.append((pb2.action(ai.action.name), tuple(p.object().name for p in ai.actual_parameters)))
            exp2 = [(corr.act[a.name], corr.args(a.parameters, x)) for a, x in steps]
            if [(a.name, x) for a, x in steps2] != exp2:
                viol(f"plan-onto-reread-differs:{which}", f"written plan read against the re-read problem is {[(a.name, x) for a, x in steps2]}, expected {exp2}", plan_text=text)
                return
            v1, v2 = _validity(pb, steps), _validity(pb2, steps2)
            res.count("plans_roundtripped")
            if v1 is None or v2 is None:
                res.count("dontcare:plan-validity")
                continue
            res.count("plans_valid" if v1 else "plans_invalid")
            if v1 != v2:
                viol(f"plan-validity-differs:{which}", f"plan {exp} is {'valid' if v1 else 'invalid'} for the original and {'valid' if v2 else 'invalid'} for the re-read problem", plan_text=text, domain=dom, problem=prob, expected=v1, observed=v2)
                return
    else:
        # time-triggered plan text round trip (finite-decimal times); validity is not judged (no temporal executor here)
        insts = seqsem.all_instances(pb)
        if not insts:
            return
        for _ in range(b["plans"]):
            tt = []
            for _ in range(rng.randint(1, 3)):
                a, args = rng.choice(insts)
                start = Fraction(rng.choice([0, 1, 2, 5, 10, 37]), rng.choice([1, 2, 4, 5, 8]))
                dur = Fraction(rng.choice([1, 2, 3, 5, 7]), rng.choice([1, 2, 4, 10])) if isinstance(a, DurativeAction) else None
                tt.append((start, ActionInstance(a, seqsem.param_exprs(pb, a, args)), dur))
            plan_ = TimeTriggeredPlan(tt, pb.environment)
            res.mon()
            out = io_rt.call(writer.get_plan, plan_)
            res.case()
            if not out.ok:
                viol(f"get_plan-raises:{io_rt.exc_class(out.exc)}", f"writer.get_plan raised {out.exc!r}")
                return
            back = io_rt.call(reader.parse_plan_string, pb, out.value, writer.get_item_named)
            if not back.ok:
                viol(f"parse_plan-raises:{which}:{type(back.exc).__name__}", f"parse_plan_string raised {back.exc!r}", plan_text=out.value)
                return
            got = [(str(s), ai.action.name, tuple(map(str, ai.actual_parameters)), str(d)) for s, ai, d in back.value.timed_actions]
            exp = [(str(s), ai.action.name, tuple(map(str, ai.actual_parameters)), str(d)) for s, ai, d in tt]
            res.count("tt_plans_roundtripped")
            if got != exp:
                viol(f"tt-plan-roundtrip-differs:{which}", f"time-triggered plan parses back to {got}, expected {exp}", plan_text=out.value, expected=exp, observed=got)
                return


def run_examples(tier, res, only=None):
    from unified_planning.test.examples import get_example_problems
    from unified_planning.model import Problem

    b = dict(BOUNDS["thorough"], depth=2, max_states=6, max_inst=30, plans=1)
    for name, ex in sorted(get_example_problems().items()):
        if only and name != only:
            continue
        pb = ex.problem
        if type(pb) is not Problem:
            continue
        try:
            if len(seqsem.ground_fluents(pb)) > 300:
                res.count("examples_skipped_too_large")
                continue
            if pb.kind.has_simulated_effects() or pb.kind.has_state_invariants() or any(getattr(a, "continuous_effects", None) for a in pb.actions if hasattr(a, "continuous_effects")):
                continue
            if len(pb.processes) or len(pb.events):
                continue
            if any("INTERPRETED_FUNCTIONS" in f for f in pb.kind.features) or any(m.is_oversubscription() or m.is_temporal_oversubscription() for m in pb.quality_metrics):
                # not expressible in PDDL (the writer answers with NotImplementedError): outside the statement's fragment
                res.count("examples_skipped_outside_pddl_fragment")
                continue
            bounded = any((f.type.is_int_type() or f.type.is_real_type()) and (f.type.lower_bound is not None or f.type.upper_bound is not None) for f in pb.fluents)
            if bounded:
                res.count("examples_skipped_bounded_types")
                continue
            undefined_bool = [1 for f, args in seqsem.ground_fluents(pb) if f.type.is_bool_type() and (f.name, args) not in seqsem.initial_state(pb)]
            if undefined_bool:
                res.count("examples_skipped_undefined_boolean")
                continue
        except Unsupported:
            res.count("examples_skipped_unsupported")
            continue
        res.count("examples_checked")
        try:
            check_problem(pb, {"example": name}, {"variant": "example", "rewrite": True}, {"example": name, "tier": tier}, b, res, rng_for("C18-example", name))
        except Unsupported:
            res.count("examples_skipped_unsupported")


REQUIRED = {
    "quick": {
        "class:renamed-items": 30,
        "class:nested-minus": 3,
        "class:nested-div": 2,
        "class:action-costs": 8,
        "class:durative": 8,
        "class:timed-initial": 3,
        "class:non-dyadic-decimal-constants": 15,  # Real constants such as 1/10, 3/10, 0.35 (finite decimal, no binary float)
        "class:non-dyadic-decimal-values-in-states": 10,  # ... that reached judged states (initial values / effect values)
        # strata planted by vk.gen.iofrag.gen_pddl_case (every 9th case each; counted per (case, reader) the bisimulation completed for)
        "class:bool-assignment-simplifying-to-false": 5,  # `f := e`, e non-constant but simplifying to false, f true, action applied
        "class:user-type-named-object": 8,  # flat typing, a user type `object` / `Object` / .. next to others, objects of both
        "class:user-type-named-object-as-parameter-type": 6,
        "walk-steps-beyond-depth": 40,  # lock-step walk steps past the breadth-first depth (accumulated effects)
        "feature:conditional": 100,
        "feature:forall": 40,
        "bisimulated_with_changes:up": 30,
        "bisimulated_with_changes:ai": 7,
        "plans_roundtripped": 100,
        "tt_plans_roundtripped": 15,
    },
}
REQUIRED["thorough"] = {k: v * 20 for k, v in REQUIRED["quick"].items()}
REQUIRED["thorough"]["class:bool-assignment-simplifying-to-true"] = 20  # the mirror image (every 7th case of that stratum)


def thresholds(m):
    c = m["counters"]
    tier = "thorough" if c.get("tier:thorough") else "quick"
    out = []
    for k, v in REQUIRED[tier].items():
        if c.get(k, 0) < v:
            out.append(f"fewer than {v} observations of class {k} ({c.get(k, 0)})")
    if len(m["nontrivial"]) < (35 if tier == "quick" else 1000):
        out.append(f"too few distinct non-trivial (problem, reader) pairs ({len(m['nontrivial'])})")
    return out

"""Documented rejections of the compilers under C08/C09 (hazard H3) — built once from the `raise` sites / docstrings of
unified_planning/engines/compilers/*.py and engines/mixins/compiler.py, and reviewed by hand.

An exception raised by `compile` is a *documented rejection* iff its class is listed for the compiler (or in COMMON) and its
message matches the listed regular expression.  Anything else escaping `compile` inside the supported kind is a C08 violation.
This is a table, not a check module (it has no PROPERTY)."""
import re

# (exception class name, message regex, source of the documentation)
COMMON = [
    ("UPUsageError", r"Compilation kind needs to be specified", "CompilerMixin.compile docstring"),
    ("UPUsageError", r"We cannot establish whether .* can handle this problem", "CompilerMixin.compile docstring"),
    ("UPUsageError", r"cannot handle this kind of compilation", "CompilerMixin.compile docstring"),
]

TABLE = {
    "Grounder": [],
    "ConditionalEffectsRemover": [
        ("UPProblemDefinitionError", r"could not be removed without changing the problem", "class docstring + conditional_effects_remover.py:183"),
    ],
    "DisjunctiveConditionsRemover": [],
    "NegativeConditionsRemover": [
        ("UPUsageError", r"No objects present for the usertype", "negative_conditions_remover.py:106"),
        ("UPExpressionDefinitionError", r"is not NNF", "negative_conditions_remover.py:139"),
        ("UPExpressionDefinitionError", r"Unable to remove negative conditions from expression", "negative_conditions_remover.py:141"),
    ],
    "QuantifiersRemover": [],
    "UsertypeFluentsRemover": [],
    "BoundedTypesRemover": [],
    "StateInvariantsRemover": [],
    "TrajectoryConstraintsRemover": [
        ("UPProblemDefinitionError", r"PROBLEM NOT SOLVABLE: an always is violated in the initial state", "trajectory_constraints_remover.py:372"),
        ("UPProblemDefinitionError", r"PROBLEM NOT SOLVABLE: a sometime-before is violated in the initial state", "trajectory_constraints_remover.py:388"),
        ("UPUsageError", r"This compiler cannot handle this expression", "trajectory_constraints_remover.py:446"),
        ("Exception", r"ERROR This compiler cannot handle this constraint", "trajectory_constraints_remover.py:211"),
    ],
    "UndefinedInitialNumericRemover": [],
    "TimedToSequential": [
        ("UPUnsupportedProblemTypeError", r"Intermediate effects are not supported", "timed_to_sequential.py:292"),
        ("UPUnsupportedProblemTypeError", r"start time conditional effects that affect", "timed_to_sequential.py:324-342"),
    ],
    "DurativeActionToProcesses": [],
    "InterpretedFunctionsRemover": [
        ("UPUnsupportedProblemTypeError", r"does not support durative conditions that contain Interpreted Functions", "interpreted_functions_remover.py:361"),
        ("UPProblemDefinitionError", r"can't be removed without changing", "_compile docstring (:raises:)"),
    ],
    "CompilersPipeline": [
        ("UPUsageError", r"Compilers pipeline ignores the compilation_kind parameter", "compilers_pipeline.py:76"),
    ],
}


def documented(compiler_class_name, exc):
    """-> the table row matching `exc` for this compiler, or None."""
    rows = TABLE.get(compiler_class_name, []) + COMMON
    for cls, rx, src in rows:
        if type(exc).__name__ == cls and re.search(rx, str(exc)):
            return (cls, rx, src)
    return None

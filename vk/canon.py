"""Canonical, environment-independent structural form of FNodes (for cross-environment comparison)."""
from fractions import Fraction

from unified_planning.model.operators import OperatorKind as OK


def ctype(t):
    if t is None:
        return "None"
    if t.is_bool_type():
        return "bool"
    if t.is_int_type():
        return ("int", str(t.lower_bound), str(t.upper_bound))
    if t.is_real_type():
        return ("real", str(t.lower_bound), str(t.upper_bound))
    if t.is_user_type():
        return ("user", t.name, t.father.name if t.father is not None else None)
    return str(t)


def canon(n):
    nt = n.node_type
    if nt in (OK.BOOL_CONSTANT, OK.INT_CONSTANT, OK.REAL_CONSTANT):
        pl = (type(n.constant_value()).__name__, str(n.constant_value()))
    elif nt == OK.FLUENT_EXP:
        f = n.fluent()
        pl = (f.name, ctype(f.type), tuple((p.name, ctype(p.type)) for p in f.signature))
    elif nt == OK.PARAM_EXP:
        pl = (n.parameter().name, ctype(n.parameter().type))
    elif nt == OK.VARIABLE_EXP:
        pl = (n.variable().name, ctype(n.variable().type))
    elif nt == OK.OBJECT_EXP:
        pl = (n.object().name, ctype(n.object().type))
    elif nt == OK.INTERPRETED_FUNCTION_EXP:
        pl = n.interpreted_function().name
    elif nt in (OK.EXISTS, OK.FORALL):
        pl = tuple((v.name, ctype(v.type)) for v in n.variables())
    elif nt == OK.DOT:
        pl = n.agent()
    elif nt == OK.TIMING_EXP:
        pl = str(n.timing())
    else:
        pl = None
    return (nt.name, pl, tuple(canon(a) for a in n.args))


def canon_value(v):
    """Canonical form of a walker result: FNode, Type, set/frozenset/list of those, str, bool, None."""
    from unified_planning.model.fnode import FNode
    from unified_planning.model.types import Type

    if isinstance(v, FNode):
        return ("node", canon(v))
    if isinstance(v, Type):
        return ("type", ctype(v))
    if isinstance(v, (set, frozenset)):
        return ("set", tuple(sorted((canon_value(x) for x in v), key=repr)))
    if isinstance(v, (list, tuple)):
        return ("seq", tuple(canon_value(x) for x in v))
    if hasattr(v, "name") and hasattr(v, "type"):
        return ("named", v.name, ctype(v.type))
    return ("py", repr(v))

"""Wiring to the code under test: always /repo's current working tree (VK_REPO overrides for self-test mutants only)."""
import os
import sys
import warnings

REPO = os.environ.get("VK_REPO", "/repo")
if sys.path[0] != REPO:
    if REPO in sys.path:
        sys.path.remove(REPO)
    sys.path.insert(0, REPO)
warnings.simplefilter("ignore")

import unified_planning as up  # noqa: E402
import unified_planning.shortcuts  # noqa: E402,F401
from unified_planning.environment import Environment, get_environment  # noqa: E402

assert os.path.realpath(up.__file__).startswith(os.path.realpath(REPO)), (up.__file__, REPO)


def fresh_env() -> Environment:
    e = Environment()
    e.credits_stream = None
    e.error_used_name = True
    return e


get_environment().credits_stream = None

INTERNAL_EXC = (
    AssertionError,
    KeyError,
    AttributeError,
    TypeError,
    UnboundLocalError,
    IndexError,
    RecursionError,
    NotImplementedError,
    ZeroDivisionError,
    NameError,
    StopIteration,
)

"""C20 workload: recipes of problems (classical / numeric / temporal / HTN / scheduling), plans and results for the
protobuf round trip.  Everything is a JSON recipe derived from the case key; `build_*` instantiate them through the public
constructors only (on top of vk.recipe).

Families
  classical : vk.gen.problem grammar + metrics + trajectory constraints + "grid" numeric fluents
  temporal  : the same grammar with actions turned durative (all DurationInterval / TimeInterval / Timing forms),
              timed effects, timed goals, epsilon / discrete_time / self_overlapping
  htn       : HierarchicalProblem: tasks, methods (preconditions, ordered / partially ordered subtasks, constraints),
              initial task network with variables and temporal constraints
  sched     : SchedulingProblem: resources, activities (optional, parameters, duration bounds, uses, conditions, effects,
              constraints, release dates / deadlines), variables, scoped constraints, base effects / conditions
  typegrid  : directed: one tiny problem per (int|real) x (lower finite|infinite) x (upper finite|infinite) x magnitude
  timegrid  : directed: one tiny temporal problem per timepoint kind x delay form x interval form; the global-end cells also
              carry `global_end + k` (k != 0) in a durative condition / effect and / or a TemporalOversubscription interval
              (timed goals / effects refuse it); the temporal and sched families use it in metrics / base conditions / effects
  hgrid     : directed (run inside every htn case): tiny HTN problem + full decomposition + sequential / time-triggered flat
              plan in which one ground action occurs 1, 2 or 3 times (adjacent, under two method instances, at two depths)
"""
from collections import OrderedDict
from fractions import Fraction

from vk.gen.problem import G
from vk import recipe as R

FAMILIES = ["classical", "temporal", "htn", "sched", "typegrid", "timegrid", "classical", "temporal"]

BIG = 2**62 - 1  # the protobuf schema stores integers as int64
INT_LOWS = [None, 0, -5, -(2**40), -(2**70)]
INT_UPS = [None, 7, 100, 2**40, 2**70]
REAL_LOWS = [None, "0", "-7/3", "-5", "-123456789012345678901234567890/7"]
REAL_UPS = [None, "22/7", "100", "9/2", "1000000000000000000000000000000/3"]
DELAYS = ["0", "1", "3", "1/2", "7/3", "-2", "-5/4", "1000000007/3", str(BIG), "-" + str(BIG)]
RATS = ["1/3", "-1/3", "22/7", "-355/113", "123456789/1000", "-7/2", f"{BIG}/3", f"-{BIG}/{BIG - 2}", "1/1000000007"]
BIGINTS = [BIG, -BIG, 2**40, -(2**40) - 1, 10**15 + 3]


def type_is_half_bounded(t):
    return isinstance(t, list) and t[0] in ("int", "real") and ((t[1] is None) != (t[2] is None))


class G20(G):
    """vk.gen.problem.G plus the C20 extras (all choices from self.rng => replayable from the case key)."""

    def pick_type(self, kind=None):
        r = self.rng
        kind = kind or r.choice(["int", "real"])
        if kind == "int":
            lo, hi = r.choice(INT_LOWS), r.choice(INT_UPS)
            return ["int", lo, hi]
        lo, hi = r.choice(REAL_LOWS), r.choice(REAL_UPS)
        return ["real", lo, hi]

    def value_in(self, t):
        """A constant recipe inside the numeric type t (prefers extreme / non-integer values)."""
        r = self.rng
        lo = None if t[1] is None else Fraction(t[1])
        hi = None if t[2] is None else Fraction(t[2])
        if t[0] == "int":
            cands = [0, 1, -3, 5] + BIGINTS
            cands = [c for c in cands if (lo is None or c >= lo) and (hi is None or c <= hi)]
            if not cands:
                cands = [int(lo if lo is not None else hi)]
            return ["i", r.choice(cands)]
        cands = [Fraction(x) for x in RATS + ["0", "1", "3/2"]]
        cands = [c for c in cands if (lo is None or c >= lo) and (hi is None or c <= hi)]
        if not cands:
            cands = [lo if lo is not None else hi]
        return ["r", str(r.choice(cands))]

    def add_grid_fluents(self, rec, n):
        """Extra numeric fluents with grid types, a default or an explicit initial value, and an action touching them."""
        r = self.rng
        effs = []
        for i in range(n):
            t = self.pick_type()
            name = self.name("g", i)
            fl = {"name": name, "type": t, "sig": [], "default": None}
            v = self.value_in(t)
            if r.random() < 0.5:
                fl["default"] = v
            else:
                rec["init"].append([["f", name], v])
            rec["fluents"].append(fl)
            if t[0] == "int":
                self.feat.add("int:" + ("-inf" if t[1] is None else "fin") + "," + ("inf" if t[2] is None else "fin"))
            else:
                self.feat.add("real:" + ("-inf" if t[1] is None else "fin") + "," + ("inf" if t[2] is None else "fin"))
            k = r.choice(["assign", "inc", "dec"])
            val = self.value_in(t)  # any value inside the type is "compatible" (overlapping intervals) for inc/dec too
            effs.append({"kind": k, "fluent": ["f", name], "value": val, "cond": None, "forall": []})
            if r.random() < 0.4:
                rec["goals"].append([r.choice(["le", "lt", "ge", "eq"]), ["f", name], self.value_in(t)])
        if effs:
            rec["actions"].append({"name": self.name("ga", 0), "params": [], "pre": [], "effects": effs})
        return rec

    # ---- temporal -------------------------------------------------------------------------------
    def delay(self, sign=None):
        d = Fraction(self.rng.choice(DELAYS))
        if sign == "+":
            d = abs(d)
        if sign == "-":
            d = -abs(d)
        return str(d)

    def timing_in_action(self):
        r = self.rng
        x = r.random()
        if x < 0.3:
            return ["start", "0"]
        if x < 0.55:
            return ["end", "0"]
        if x < 0.8:
            return ["start", self.delay("+")]
        return ["end", self.delay("-")]

    def interval_in_action(self):
        r = self.rng
        x = r.random()
        if x < 0.3:
            return ["point", self.timing_in_action()]
        k = r.choice(["closed", "open", "lopen", "ropen"])
        self.feat.add("interval:" + k)
        lo = ["start", "0"] if r.random() < 0.6 else ["start", self.delay("+")]
        hi = ["end", "0"] if r.random() < 0.6 else ["end", self.delay("-")]
        return [k, lo, hi]

    def dur_bound(self, params):
        r = self.rng
        x = r.random()
        nf = [f for f in self.fluents if f["type"][0] in ("int", "real") and not f["sig"]]
        if x < 0.45:
            return ["i", r.choice([1, 2, 3, 10, 2**40])]
        if x < 0.75:
            return ["r", str(abs(Fraction(r.choice(RATS))))]
        if x < 0.9 and nf:
            self.feat.add("duration:fluent-dependent")
            return ["plus", ["f", r.choice(nf)["name"]], ["i", 1]]
        return ["i", 5]

    def make_durative(self, a):
        r = self.rng
        k = r.choice(["fixed", "closed", "open", "lopen", "ropen"])
        self.feat.add("duration:" + k)
        if k == "fixed":
            dur = ["fixed", self.dur_bound(a["params"])]
        else:
            lo, hi = self.dur_bound(a["params"]), self.dur_bound(a["params"])
            if lo[0] in ("i", "r") and hi[0] in ("i", "r"):  # constant bounds: the library rejects empty intervals
                flo, fhi = sorted([Fraction(lo[1]), Fraction(hi[1])])
                if flo == fhi:
                    fhi = flo + r.choice([1, Fraction(1, 3)])
                lo = ["i", int(flo)] if flo.denominator == 1 else ["r", str(flo)]
                hi = ["i", int(fhi)] if fhi.denominator == 1 else ["r", str(fhi)]
            dur = [k, lo, hi]
        conds = [[self.interval_in_action(), c] for c in a.get("pre", [])]
        effs = [[self.timing_in_action(), e] for e in a.get("effects", [])]
        return {"name": a["name"], "params": a["params"], "duration": dur, "conds": conds, "effects": effs}

    def global_timing(self):
        r = self.rng
        if r.random() < 0.7:
            return ["gstart", self.delay("+")]
        return ["gend", "0"]  # the library rejects `end - k` (k > 0) at problem level

    def add_temporal(self, rec):
        r = self.rng
        rec["actions"] = [self.make_durative(a) if r.random() < 0.75 else a for a in rec["actions"]]
        if not any("duration" in a for a in rec["actions"]):
            rec["actions"][0] = self.make_durative(rec["actions"][0])
        te = []
        for f in self.fluents:
            if f["sig"] or r.random() < 0.5:
                continue
            t = f["type"]
            v = self.const_for(t)
            if v is None:
                continue
            kind = "assign"
            if t != "bool" and t[0] in ("int", "real") and r.random() < 0.4:
                kind, v = r.choice(["inc", "dec"]), ["i", 1]
            te.append([["gstart", self.delay("+")], {"kind": kind, "fluent": ["f", f["name"]], "value": v, "cond": None, "forall": []}])
        if te:
            self.feat.add("timed-effects")
        rec["timed_effects"] = te[:2]
        tg = []
        for _ in range(r.choice([0, 1, 1, 2])):
            x = r.random()
            if x < 0.3:
                iv = ["point", self.global_timing()]
            else:
                k = r.choice(["closed", "open", "lopen", "ropen"])
                self.feat.add("interval:" + k)
                iv = [k, ["gstart", self.delay("+")], ["gend", "0"] if r.random() < 0.5 else ["gstart", str(BIG)]]
            tg.append([iv, self.boolean(1, {})])
        if tg:
            self.feat.add("timed-goals")
        rec["timed_goals"] = tg
        if r.random() < 0.5:
            rec["epsilon"] = r.choice(["1/100", "2", "1/1000000007", "7/3"])
            self.feat.add("epsilon")
        rec["discrete_time"] = r.random() < 0.3
        rec["self_overlapping"] = r.random() < 0.3
        x = r.random()
        if x < 0.35:
            rec["metric"] = {"kind": "makespan"}
        elif x < 0.6:
            rec.pop("metric", None)
            tm = []
            for _ in range(r.choice([1, 2])):
                k = r.choice(["point", "closed", "open", "lopen", "ropen"])
                iv = ["point", self.global_timing()] if k == "point" else [k, ["gstart", self.delay("+")], ["gend", "0"]]
                if r.random() < 0.5:  # (legal in a metric, unlike in timed goals)
                    dg = gend_delay(r)
                    iv = ["point", ["gend", dg]] if k == "point" else [k, ["gend", dg], ["gend", "0"]] if r.random() < 0.5 else [k, iv[1], ["gend", dg]]
                    self.feat.add("gend-delay:tmetric")
                tm.append([iv, self.boolean(1, {}), r.choice(["1", "5", "-2", "7/3", "1/1000000007"])])
            rec["tmetric"] = tm
            self.feat.add("temporal-oversubscription")
        return rec

    # ---- htn ------------------------------------------------------------------------------------
    def add_htn(self, rec):
        r = self.rng
        tnames = [t for t, _ in self.types]
        tasks = []
        for i in range(r.choice([1, 2, 2, 3])):
            ps = [[f"tp{j}", ["user", r.choice(tnames)]] for j in range(r.choice([0, 1, 1, 2]))]
            tasks.append([self.name("task", i), ps])
        rec["tasks"] = tasks
        methods = []
        for i in range(r.choice([1, 2, 3])):
            tname, tps = r.choice(tasks)
            extra = [[f"mp{j}", ["user", r.choice(tnames)]] for j in range(r.choice([0, 1, 2]))]
            rename = r.random() < 0.5  # achieved-task parameters named differently from the task's own
            mps = [[("m_" + n) if rename else n, t] for n, t in tps] + extra
            sc = {"params": mps}
            m = {
                "name": self.name("meth", i),
                "params": mps,
                "task": [tname, [n for n, _ in mps[: len(tps)]]],
                "pre": [self.boolean(1, sc) for _ in range(r.choice([0, 1, 2]))],
                "subtasks": self.subtasks(sc, tasks, rec["actions"], prefix=f"s{i}_"),
                "constraints": [],
            }
            m["order"] = self.order(m["subtasks"])
            if self.types and r.random() < 0.4:
                c = self.static_constraint(sc)
                if c is not None:
                    m["constraints"].append(c)
            m["tconstraints"] = self.time_constraints(m["subtasks"])
            methods.append(m)
        rec["methods"] = methods
        tvars = [[f"tnv{j}", ["user", r.choice(tnames)]] for j in range(r.choice([0, 1, 2]))]
        sc = {"params": tvars}
        st = self.subtasks(sc, tasks, rec["actions"], prefix="root_")
        tn = {"vars": tvars, "subtasks": st, "order": self.order(st), "constraints": [], "tconstraints": self.time_constraints(st)}
        c = self.static_constraint(sc)
        if c is not None and r.random() < 0.6:
            tn["constraints"].append(c)
        rec["tn"] = tn
        self.feat.add("htn")
        return rec

    def static_constraint(self, sc):
        r = self.rng
        t = r.choice(self.types)[0]
        a = self.obj_term(t, sc, allow_fluent=False)
        b = self.obj_term(t, sc, allow_fluent=False)
        if a is None or b is None or a == b:
            return None
        e = ["eq", a, b]
        if r.random() < 0.4:
            e = ["not", e]
        if r.random() < 0.3:
            c = self.obj_term(t, sc, allow_fluent=False)
            if c is not None and c != a:
                e = ["or", e, ["eq", a, c]]
        return e

    def subtasks(self, sc, tasks, actions, prefix):
        r = self.rng
        out = []
        for j in range(r.choice([0, 1, 2, 2, 3])):
            if r.random() < 0.5 and actions:
                a = r.choice(actions)
                name, ps = a["name"], a["params"]
            else:
                name, ps = r.choice(tasks)
            args = []
            for _, pt in ps:
                if pt[0] != "user":
                    args = None
                    break
                x = self.obj_term(pt[1], sc, allow_fluent=False)
                if x is None:
                    args = None
                    break
                args.append(x)
            if args is None:
                continue
            ident = f"{prefix}{j}" if r.random() < 0.7 else None
            out.append([ident, name, args])
        return out

    def order(self, st):
        r = self.rng
        n = len(st)
        if n < 2:
            return []
        x = r.random()
        if x < 0.35:
            self.feat.add("htn:total-order")
            return [[i, i + 1] for i in range(n - 1)]
        if x < 0.7:
            self.feat.add("htn:partial-order")
            return [[i, j] for i in range(n) for j in range(i + 1, n) if r.random() < 0.4]
        return []

    def time_constraints(self, st):
        """[[op, [idx|None, 'start'|'end'|'gstart'|'gend', delay], [..]]] -> LT/LE between timing expressions."""
        r = self.rng
        out = []
        if not st or r.random() < 0.6:
            return out
        for _ in range(r.choice([1, 2])):
            i = r.randrange(len(st))
            a = [i, r.choice(["start", "end"]), self.delay()]
            if r.random() < 0.5:
                b = [None, "gstart", self.delay("+")]
            else:
                b = [r.randrange(len(st)), r.choice(["start", "end"]), self.delay()]
            if r.random() < 0.5:
                a, b = b, a
            out.append([r.choice(["lt", "le"]), a, b])
            self.feat.add("htn:time-constraint")
        return out

    # ---- scheduling -----------------------------------------------------------------------------
    def gen_sched(self):
        r = self.rng
        nt = r.choice([0, 1, 2])
        for i in range(nt):
            self.types.append([self.name("T", i), None if i == 0 or r.random() < 0.5 else self.types[0][0]])
        oi = 0
        for t, _ in self.types:
            for _ in range(r.choice([1, 2])):
                self.objects.append([self.name("o", oi), ["user", t]])
                oi += 1
        rec = {"name": r.choice(["sched", "sched:x", "s-1", None]), "types": self.types, "objects": self.objects}
        resources = [[self.name("res", i), r.choice([1, 2, 4, 2**40])] for i in range(r.choice([0, 1, 2]))]
        rec["resources"] = resources
        fluents = []
        for i in range(r.choice([1, 2, 3])):
            x = r.random()
            if x < 0.5:
                t, d = "bool", ["b", r.random() < 0.5]
            elif x < 0.8:
                t = self.pick_type()
                d = self.value_in(t)
            elif self.types:
                tn = r.choice(self.types)[0]
                t, d = ["user", tn], ["o", self.objs_of(tn)[0]] if self.objs_of(tn) else None
            else:
                t, d = "bool", ["b", True]
            sig = []
            if self.types and r.random() < 0.3:
                sig = [["x0", ["user", r.choice(self.types)[0]]]]
            fluents.append({"name": self.name("f", i), "type": t, "sig": sig, "default": d})
        rec["fluents"] = fluents
        self.fluents = fluents
        variables = []
        for i in range(r.choice([0, 1, 2])):
            variables.append([self.name("v", i), r.choice(["bool", ["int", None, None], ["int", 0, 10], self.pick_type("int")])])
        rec["variables"] = variables
        acts = []
        for i in range(r.choice([1, 2, 3])):
            an = self.name("act", i)
            a = {"name": an, "optional": r.random() < 0.4, "params": [], "uses": [], "conds": [], "effects": [], "constraints": []}
            if r.random() < 0.6:
                a["duration"] = ["fixed", ["i", r.choice([1, 3, 20, 2**40])]]
            else:
                lo = r.choice([1, 2, 5])
                a["duration"] = ["bounds", ["i", lo], ["i", lo + r.choice([0, 1, 7])]]
            if self.types and r.random() < 0.5:
                a["params"].append(["p0", ["user", r.choice(self.types)[0]]])
            if r.random() < 0.3:
                a["params"].append(["n0", ["int", 0, r.choice([3, 2**40])]])
            for rn, cap in resources:
                if r.random() < 0.6:
                    a["uses"].append([rn, r.choice([1, 1, 2])])
            bf = [f for f in fluents if f["type"] == "bool" and not f["sig"]]
            if bf and r.random() < 0.6:
                f = r.choice(bf)
                tm = [an, r.choice(["start", "end"]), r.choice(["0", "1", "-1", "1/2"])]
                if r.random() < 0.5:
                    iv = ["point", tm]
                else:
                    k = r.choice(["closed", "open", "lopen", "ropen"])
                    self.feat.add("interval:" + k)
                    iv = [k, [an, "start", r.choice(["0", "3"])], [an, "end", r.choice(["0", "-2"])]]
                a["conds"].append([iv, ["not", ["f", f["name"]]] if r.random() < 0.5 else ["f", f["name"]]])
                a["effects"].append([[an, "start", r.choice(["0", "1", "7/3"])], {"kind": "assign", "fluent": ["f", f["name"]], "value": ["b", True]}])
                if r.random() < 0.5:
                    a["effects"].append([[an, "end", "0"], {"kind": "assign", "fluent": ["f", f["name"]], "value": ["b", False]}])
            nf = [f for f in fluents if f["type"] != "bool" and f["type"][0] in ("int", "real") and not f["sig"]]
            if nf and r.random() < 0.5:
                f = r.choice(nf)
                a["effects"].append([[an, r.choice(["start", "end"]), "0"], {"kind": r.choice(["inc", "dec"]), "fluent": ["f", f["name"]], "value": ["i", 1]}])
            if r.random() < 0.3:
                a["release"] = r.choice([0, 5, 2**40])
            if r.random() < 0.3:
                a["deadline"] = r.choice([50, 1000, BIG])
            acts.append(a)
        # activity-level constraints over variables / timepoints
        for a in acts:
            for vn, vt in variables:
                if vt != "bool" and r.random() < 0.4:
                    a["constraints"].append(["eq", ["p", vn], ["i", r.choice([4, 6])]])
            if r.random() < 0.3:
                a["constraints"].append(["eq", ["texp", a["name"], "start", "0"], ["i", 0]])
        rec["activities"] = acts
        cons = []
        names = [a["name"] for a in acts]
        opt = [a["name"] for a in acts if a["optional"]]
        for _ in range(r.choice([0, 1, 2, 3])):
            x = r.random()
            if x < 0.4 and len(names) >= 2:
                a, b = r.sample(names, 2)
                e = [r.choice(["le", "lt"]), ["texp", a, "end", r.choice(["0", "2", "1/2"])], ["texp", b, "start", "0"]]
            elif x < 0.7 and opt:
                e = ["present", r.choice(opt)]
                if r.random() < 0.5 and len(opt) >= 2:
                    e = ["or", ["and", ["present", opt[0]], ["not", ["present", opt[1]]]], ["present", opt[1]]]
            else:
                bv = [vn for vn, vt in variables if vt == "bool"]
                if not bv:
                    continue
                e = ["p", r.choice(bv)]
                if r.random() < 0.5:
                    e = ["not", e]
            scope = []
            if opt and r.random() < 0.5:
                scope = [["present", o] for o in r.sample(opt, r.choice([1, min(2, len(opt))]))]
                self.feat.add("sched:scoped-constraint")
            cons.append([e, scope])
        rec["constraints"] = cons
        base_eff = []
        for rn, cap in resources:
            if r.random() < 0.4:
                base_eff.append([r.choice([10, 17, "5/2"]), {"kind": r.choice(["inc", "dec"]), "fluent": ["f", rn], "value": ["i", 1]}])
        nfl = [f for f in fluents if f["type"] != "bool" and f["type"][0] in ("int", "real") and not f["sig"]]
        if r.random() < 0.35:
            tgt = r.choice([rn for rn, _ in resources] + [f["name"] for f in nfl]) if (resources or nfl) else None
            if tgt is not None:
                base_eff.append([["gend", gend_delay(r)], {"kind": r.choice(["inc", "dec"]), "fluent": ["f", tgt], "value": ["i", 1]}])
                self.feat.add("gend-delay:sched-base-effect")
        rec["base_effects"] = base_eff
        base_conds = []
        bf = [f for f in fluents if f["type"] == "bool" and not f["sig"]]
        if bf and r.random() < 0.6:
            k = r.choice(["point", "closed", "open", "lopen", "ropen"])
            if r.random() < 0.6:
                dg = gend_delay(r)
                iv = ["point", ["gend", dg]] if k == "point" else [k, ["gend", dg], ["gend", "0"]] if r.random() < 0.5 else [k, ["gstart", "1"], ["gend", dg]]
                self.feat.add("gend-delay:sched-base-condition")
            else:
                iv = ["point", ["gend", "0"]] if k == "point" else [k, ["gstart", "1"], ["gend", "0"]]
            base_conds.append([iv, ["f", r.choice(bf)["name"]]])
            if r.random() < 0.25 and acts:  # an activity condition that looks at the tail of the schedule
                a = r.choice(acts)
                a["conds"].append([["closed", [a["name"], "end", "0"], [None, "gend", gend_delay(r)]], ["f", r.choice(bf)["name"]]])
                self.feat.add("gend-delay:sched-activity-condition")
        rec["base_conds"] = base_conds
        if r.random() < 0.4:
            rec["metric"] = {"kind": "makespan"}
        if r.random() < 0.3:
            rec["epsilon"] = "1/10"
        self.feat.add("sched")
        return rec


# ---- directed grids ------------------------------------------------------------------------------------
def typegrid_recipe(rng, i):
    """One tiny problem whose fluent / fluent-parameter / action-parameter / quantified-variable types come from one cell."""
    g = G20(rng)
    kind = ["int", "real"][i % 2]
    lo_inf = bool((i // 2) % 2)
    hi_inf = bool((i // 4) % 2)
    lows = INT_LOWS if kind == "int" else REAL_LOWS
    ups = INT_UPS if kind == "int" else REAL_UPS
    t = [kind, None if lo_inf else rng.choice(lows[1:]), None if hi_inf else rng.choice(ups[1:])]
    g.feat.add(f"{kind}:" + ("-inf" if lo_inf else "fin") + "," + ("inf" if hi_inf else "fin"))
    v = g.value_in(t)
    v2 = g.value_in(t)
    use = (i // 8) % 4  # where the type is used
    rec = {"name": "typegrid", "types": [["T", None]], "objects": [["o", ["user", "T"]]], "init": [], "goals": [], "invariants": []}
    fl = {"name": "x", "type": t, "sig": [], "default": v if rng.random() < 0.5 else None}
    if fl["default"] is None:
        rec["init"].append([["f", "x"], v])
    rec["fluents"] = [fl, {"name": "b", "type": "bool", "sig": [], "default": ["b", False]}]
    act = {"name": "a", "params": [], "pre": [["le", ["f", "x"], v2]], "effects": [{"kind": "assign", "fluent": ["f", "x"], "value": v2, "cond": None, "forall": []}]}
    if use == 1 and kind == "int" and not lo_inf and not hi_inf:
        # a *small* domain with large / negative bounds: initial_values enumerates the domain of fluent parameters
        rec["fluents"].append({"name": "arr", "type": "bool", "sig": [["k", ["int", t[1], t[1] + 2]]], "default": ["b", False]})
        g.feat.add("numeric-fluent-parameter")
    if use == 2 and kind == "int":
        act["params"].append(["n", t])
        act["pre"].append(["le", ["p", "n"], ["f", "x"]])
        g.feat.add("numeric-action-parameter")
    if use == 3:
        rec["metric"] = {"kind": rng.choice(["minfinal", "maxfinal"]), "expr": ["plus", ["f", "x"], v2]}
    rec["actions"] = [act]
    rec["goals"].append([rng.choice(["le", "ge", "eq"]), ["f", "x"], v2])
    return rec, sorted(g.feat)


TIMEGRID_KINDS = ["start", "end", "gstart", "gend"]
TIMEGRID_IVS = ["point", "closed", "open", "lopen", "ropen"]


def timegrid_recipe(rng, i):
    g = G20(rng)
    kind = TIMEGRID_KINDS[i % 4]
    ivk = TIMEGRID_IVS[(i // 4) % 5]
    dk = ["fixed", "closed", "open", "lopen", "ropen"][(i // 20) % 5]
    d = rng.choice(DELAYS)
    d2 = rng.choice(DELAYS)
    if kind in ("gstart", "gend"):  # problem-level timings: the library rejects `end - k` and negative absolute times
        d = "0" if kind == "gend" else str(abs(Fraction(d)))
        k2 = rng.choice(["gstart", "gend"])
        d2 = "0" if k2 == "gend" else str(abs(Fraction(d2)))
        t2 = [k2, d2]
    else:
        t2 = [rng.choice(["start", "end"]), d2]
    t1 = [kind, d]
    iv = ["point", t1] if ivk == "point" else [ivk, t1, t2]
    g.feat.add("interval:" + ivk)
    g.feat.add("timepoint:" + kind)
    g.feat.add("duration:" + dk)
    g.feat.add("delay:" + ("zero" if Fraction(d) == 0 else "int" if Fraction(d).denominator == 1 else "rational"))
    lo, hi = ["r", str(abs(Fraction(rng.choice(RATS[:6] + RATS[7:]))))], ["i", rng.choice([10**6, 2**40])]
    dur = ["fixed", lo] if dk == "fixed" else [dk, lo, hi]
    rec = {
        "name": "timegrid",
        "types": [],
        "objects": [],
        "fluents": [{"name": "p", "type": "bool", "sig": [], "default": ["b", False]}, {"name": "q", "type": "bool", "sig": [], "default": ["b", True]}],
        "init": [],
        "goals": [["f", "p"]],
        "invariants": [],
    }
    act = {"name": "d", "params": [], "duration": dur, "conds": [], "effects": []}
    if kind in ("start", "end"):
        act["conds"].append([iv, ["f", "q"]])
        act["effects"].append([t1, {"kind": "assign", "fluent": ["f", "p"], "value": ["b", True], "cond": None, "forall": []}])
        rec["timed_goals"] = []
    else:
        act["conds"].append([["point", ["start", "0"]], ["f", "q"]])
        act["effects"].append([["end", "0"], {"kind": "assign", "fluent": ["f", "p"], "value": ["b", True], "cond": None, "forall": []}])
        rec["timed_goals"] = [[iv, ["f", "q"]]]
        if kind == "gstart" and Fraction(d) > 0:
            rec["timed_effects"] = [[t1, {"kind": "assign", "fluent": ["f", "q"], "value": ["b", False], "cond": None, "forall": []}]]
    if kind == "gend":
        # `global_end + k` with k != 0 is refused for timed goals / timed effects, but it is a legal Timing of durative
        # conditions / effects and of TemporalOversubscription intervals (all of them encoded as proto.Timing)
        dg = gend_delay(rng)
        dh = gend_delay(rng)
        lo_d, hi_d = sorted([Fraction(dg), Fraction(dh)])
        other = rng.choice([["gend", "0"], ["gend", str(hi_d)], ["gstart", str(abs(Fraction(d2)))]])
        if other[0] == "gstart":
            ivg = ["point", ["gend", dg]] if ivk == "point" else [ivk, other, ["gend", dg]]
        else:
            ivg = ["point", ["gend", dg]] if ivk == "point" else [ivk, ["gend", str(lo_d)], other]
        where = (i // 4) % 3
        if where in (0, 2):
            act["conds"].append([ivg, ["f", "q"]])
            g.feat.add("gend-delay:action-condition")
            act["effects"].append([["gend", dg], {"kind": "assign", "fluent": ["f", "q"], "value": ["b", True], "cond": None, "forall": []}])
            g.feat.add("gend-delay:action-effect")
        if where in (1, 2):
            rec["tmetric"] = [[ivg, ["f", "q"], rng.choice(["1", "7/3", "-2"])]]
            if ivk != "point" and rng.random() < 0.5:
                rec["tmetric"].append([["point", ["gend", dh]], ["f", "p"], "5"])
            g.feat.add("gend-delay:tmetric")
        g.feat.add("gend-delay:" + ("negative" if Fraction(dg) < 0 else "positive"))
        g.feat.add("gend-delay:" + ("int" if Fraction(dg).denominator == 1 else "rational"))
    rec["actions"] = [act]
    return rec, sorted(g.feat)


def gend_delay(rng):
    """A NON-ZERO delay for a timing anchored to the end of the plan: mostly `global_end - k`."""
    d = Fraction(rng.choice([x for x in DELAYS if Fraction(x) != 0]))
    return str(-abs(d) if rng.random() < 0.8 else abs(d))


# ---- recipes per family ---------------------------------------------------------------------------------
def gen_recipe(rng, family, index):
    """-> (recipe, features).  recipe["family"] tells build_problem which instantiation to use."""
    if family == "typegrid":
        rec, feats = typegrid_recipe(rng, index)
        rec["family"] = family
        return rec, feats
    if family == "timegrid":
        rec, feats = timegrid_recipe(rng, index)
        rec["family"] = family
        return rec, feats
    prof = dict(metric=None, traj=0.0, interpreted_functions=0.0, invariants=0.15, undefined_init=0.15, int_params=0.1)
    if family == "classical":
        prof.update(metric=rng.choice([None, "any", "any"]), traj=0.3)
    if family == "htn":
        prof.update(max_actions=2, int_params=0.0)
    g = G20(rng, prof)
    if family == "sched":
        rec = g.gen_sched()
        rec["family"] = family
        return rec, sorted(g.feat)
    rec = g.gen()
    rec["name"] = rng.choice(["gen", "gen", "p-1", "a b", None])
    g.add_grid_fluents(rec, rng.choice([0, 1, 2, 3]))
    if family == "temporal":
        g.add_temporal(rec)
    if family == "htn":
        if rng.random() < 0.3:
            g.add_temporal(rec)
            rec.pop("metric", None)
        g.add_htn(rec)
    rec["family"] = family
    return rec, sorted(g.feat)


# ---- instantiation --------------------------------------------------------------------------------------
class Ctx20(R.Ctx):
    """vk.recipe.Ctx plus ["texp", container|None, kind, delay] (timing expression) and ["present", activity]."""

    activities = None

    def expr(self, e):
        k = e[0]
        if k == "texp":
            return self.em.TimingExp(timing20(e[1:]))
        if k == "present":
            return self.activities[e[1]].present
        return super().expr(e)


def timing20(t):
    """[container|None, "start"|"end"|"gstart"|"gend", delay]"""
    from unified_planning.model.timing import Timing, Timepoint, TimepointKind

    cont, k, d = t
    d = Fraction(d)
    if d.denominator == 1:
        d = int(d)
    kind = {"start": TimepointKind.START, "end": TimepointKind.END, "gstart": TimepointKind.GLOBAL_START, "gend": TimepointKind.GLOBAL_END}[k]
    return Timing(d, Timepoint(kind, cont))


def interval20(iv):
    from unified_planning.model.timing import TimeInterval, TimePointInterval

    def tm(t):
        return timing20(t) if len(t) == 3 else R.timing(t)

    if iv[0] == "point":
        return TimePointInterval(tm(iv[1]))
    return TimeInterval(tm(iv[1]), tm(iv[2]), iv[0] in ("open", "lopen"), iv[0] in ("open", "ropen"))


def _ctx20(ctx):
    c = Ctx20(ctx.env)
    c.__dict__.update(ctx.__dict__)
    return c


def build_problem(rec, env):
    """-> problem (raises the library's own exceptions for rejected recipes)."""
    fam = rec.get("family")
    if fam == "sched":
        return build_sched(rec, env)
    if fam == "htn":
        from unified_planning.model.htn import HierarchicalProblem

        pb, ctx = R.instantiate_problem(rec, env, HierarchicalProblem)
        build_htn(rec, pb, _ctx20(ctx))
    else:
        pb, ctx = R.instantiate_problem(rec, env)
    if rec.get("tmetric"):
        from unified_planning.model.metrics import TemporalOversubscription

        goals = {}
        for iv, g, w in rec["tmetric"]:
            w = Fraction(w)
            goals[(interval20(iv), ctx.expr(g))] = int(w) if w.denominator == 1 else w
        pb.add_quality_metric(TemporalOversubscription(goals, env))
    if rec.get("discrete_time"):
        pb.discrete_time = True
    if rec.get("self_overlapping"):
        pb.self_overlapping = True
    return pb


def _tn_fill(tn, spec, ctx, pb, tasks):
    sts = []
    for ident, name, args in spec["subtasks"]:
        target = tasks[name] if name in tasks else pb.action(name)
        from unified_planning.model.htn import Subtask

        sts.append(tn.add_subtask(Subtask(target, *[ctx.expr(a) for a in args], ident=ident, _env=ctx.env)))
    for i, j in spec.get("order", []):
        tn.set_strictly_before(sts[i], sts[j])
    for c in spec.get("constraints", []):
        tn.add_constraint(ctx.expr(c))
    for op, a, b in spec.get("tconstraints", []):

        def tm(x):
            idx, k, d = x
            cont = None if idx is None else sts[idx].identifier
            return timing20([cont, k, d])

        em = ctx.em
        tn.add_constraint((em.LT if op == "lt" else em.LE)(tm(a), tm(b)))


def build_htn(rec, pb, ctx):
    from unified_planning.model.htn import Method, Task

    tasks = {}
    for name, ps in rec["tasks"]:
        t = Task(name, OrderedDict((n, ctx.type(tt)) for n, tt in ps), ctx.env)
        tasks[name] = pb.add_task(t)
    for m in rec["methods"]:
        meth = Method(m["name"], OrderedDict((n, ctx.type(tt)) for n, tt in m["params"]), ctx.env)
        ctx.params = {p.name: p for p in meth.parameters}
        tname, pnames = m["task"]
        meth.set_task(tasks[tname], *[meth.parameter(n) for n in pnames])
        for c in m["pre"]:
            meth.add_precondition(ctx.expr(c))
        _tn_fill(meth, m, ctx, pb, tasks)
        ctx.params = {}
        pb.add_method(meth)
    tn = pb.task_network
    spec = rec["tn"]
    ctx.params = {}
    for n, t in spec["vars"]:
        ctx.params[n] = tn.add_variable(n, ctx.type(t))
    _tn_fill(tn, spec, ctx, pb, tasks)
    ctx.params = {}


def build_sched(rec, env):
    from unified_planning.model.scheduling import SchedulingProblem
    from unified_planning.model import Fluent, Object
    from unified_planning.model import metrics as upm

    ctx = Ctx20(env)
    pb = SchedulingProblem(rec.get("name"), env)
    for name, father in rec.get("types", []):
        ctx.types[name] = ctx.tm.UserType(name, ctx.types[father] if father else None)
    for name, t in rec.get("objects", []):
        o = Object(name, ctx.type(t), env)
        ctx.objects[name] = o
        pb.add_object(o)
    for name, cap in rec.get("resources", []):
        ctx.fluents[name] = pb.add_resource(name, cap)
    for f in rec.get("fluents", []):
        sig = OrderedDict((n, ctx.type(t)) for n, t in f.get("sig", []))
        fl = Fluent(f["name"], ctx.type(f["type"]), sig, env)
        ctx.fluents[f["name"]] = fl
        if f.get("default") is not None:
            pb.add_fluent(fl, default_initial_value=ctx.expr(f["default"]))
        else:
            pb.add_fluent(fl)
    for n, t in rec.get("variables", []):
        ctx.params[n] = pb.add_variable(n, ctx.type(t))
    base_params = dict(ctx.params)
    ctx.activities = {}
    for a in rec.get("activities", []):
        d = a["duration"]
        act = pb.add_activity(a["name"], optional=a["optional"])
        if d[0] == "fixed":
            act.set_fixed_duration(ctx.expr(d[1]))
        else:
            act.set_duration_bounds(ctx.expr(d[1]), ctx.expr(d[2]))
        ctx.activities[a["name"]] = act
    for a in rec.get("activities", []):
        act = ctx.activities[a["name"]]
        ctx.params = dict(base_params)
        for n, t in a["params"]:
            ctx.params[n] = act.add_parameter(n, ctx.type(t))
        for rn, amount in a["uses"]:
            act.uses(ctx.fluents[rn], amount)
        for iv, c in a["conds"]:
            act.add_condition(interval20(iv), ctx.expr(c))
        for t, eff in a["effects"]:
            tm = timing20(t)
            fl, val = ctx.expr(eff["fluent"]), ctx.expr(eff["value"])
            {"assign": act.add_effect, "inc": act.add_increase_effect, "dec": act.add_decrease_effect}[eff["kind"]](tm, fl, val)
        for c in a["constraints"]:
            act.add_constraint(ctx.expr(c))
        if "release" in a:
            act.add_release_date(a["release"])
        if "deadline" in a:
            act.add_deadline(a["deadline"])
    ctx.params = dict(base_params)
    for c, scope in rec.get("constraints", []):
        pb.add_constraint(ctx.expr(c), [ctx.expr(s) for s in scope])
    for t, eff in rec.get("base_effects", []):
        if isinstance(t, list):  # [kind, delay]: a Timing (else: a number = absolute time)
            t = timing20([None] + list(t))
        else:
            t = Fraction(t)
            t = int(t) if t.denominator == 1 else t
        fl, val = ctx.expr(eff["fluent"]), ctx.expr(eff["value"])
        {"assign": pb.add_effect, "inc": pb.add_increase_effect, "dec": pb.add_decrease_effect}[eff["kind"]](t, fl, val)
    for iv, c in rec.get("base_conds", []):
        pb.add_condition(interval20([iv[0]] + [[None] + list(x) if len(x) == 2 else x for x in iv[1:]]), ctx.expr(c))
    if rec.get("metric"):
        pb.add_quality_metric(upm.MinimizeMakespan(env))
    if rec.get("epsilon") is not None:
        pb.epsilon = Fraction(rec["epsilon"])
    return pb


# ---- plans ----------------------------------------------------------------------------------------------
def ground_args(pb, action, rng):
    """Random actual parameters (FNodes) for an action, or None if some parameter domain is empty / unbounded."""
    em = pb.environment.expression_manager
    out = []
    for p in action.parameters:
        t = p.type
        if t.is_user_type():
            objs = list(pb.objects(t))
            if not objs:
                return None
            out.append(em.ObjectExp(rng.choice(objs)))
        elif t.is_int_type():
            lo = t.lower_bound if t.lower_bound is not None else -3
            hi = t.upper_bound if t.upper_bound is not None else lo + 6
            out.append(em.Int(rng.choice([lo, hi, rng.randint(lo, hi)])))
        elif t.is_real_type():
            out.append(em.Real(Fraction(rng.choice(RATS))))
        elif t.is_bool_type():
            out.append(em.Bool(rng.random() < 0.5))
        else:
            return None
    return tuple(out)


def gen_plan(pb, rng):
    """-> (plan, features) ; sequential if the problem has no durative action, else time-triggered."""
    from unified_planning.plans import SequentialPlan, TimeTriggeredPlan, ActionInstance
    from unified_planning.model import DurativeAction

    acts = list(pb.actions)
    feats = set()
    n = rng.choice([0, 1, 2, 3, 5])
    insts = []
    for _ in range(n):
        if not acts:
            break
        a = rng.choice(acts)
        args = ground_args(pb, a, rng)
        if args is None:
            continue
        insts.append(ActionInstance(a, args))
    temporal = any(isinstance(a, DurativeAction) for a in acts)
    if not temporal and rng.random() < 0.8:
        feats.add("plan:sequential")
        if not insts:
            feats.add("plan:empty")
        return SequentialPlan(insts, pb.environment), feats
    feats.add("plan:time-triggered")
    items = []
    for ai in insts:
        st = Fraction(rng.choice(["0", "1", "1/2", "101/100", "7/3", str(2**40), f"{2**58}/7"]))
        if isinstance(ai.action, DurativeAction):
            du = Fraction(rng.choice(["1", "1/3", "5", "22/7", str(2**40), f"{2**58 + 1}/7"]))
            if du.denominator != 1:
                feats.add("plan:rational-duration")
        else:
            du = None
            feats.add("plan:instantaneous-in-tt")
        if st.denominator != 1:
            feats.add("plan:rational-start")
        items.append((st, ai, du))
    if not items:
        feats.add("plan:empty")
    return TimeTriggeredPlan(items, pb.environment), feats


def gen_schedule(pb, rng):
    from unified_planning.plans import Schedule

    acts = [a for a in pb.activities if not a.optional or rng.random() < 0.5]
    asg = {}
    em = pb.environment.expression_manager
    for a in acts:
        s = rng.choice([0, 5, 17, 2**40])
        asg[a.start] = s
        asg[a.end] = s + rng.choice([1, 20])
        for p in a.parameters:
            if p.type.is_user_type():
                objs = list(pb.objects(p.type))
                if objs:
                    asg[p] = rng.choice(objs)
            elif p.type.is_int_type():
                asg[p] = p.type.lower_bound if p.type.lower_bound is not None else 0
    for v in pb.base_variables:
        if v.type.is_bool_type():
            asg[v] = rng.random() < 0.5
        elif v.type.is_int_type():
            asg[v] = v.type.lower_bound if v.type.lower_bound is not None else 4
    return Schedule(acts, asg, pb.environment)


# ---- directed hierarchical plans --------------------------------------------------------------------------------
# One tiny HTN domain (a robot moving between locations) and, per cell, an initial task network + its full decomposition +
# a flat plan.  The cell decides (a) the class of the flat part, (b) whether / how some *ground action* is executed more
# than once (the decomposition refers to the flat plan's actions by per-occurrence ids, so equal content must not be
# conflated), (c) the nesting depth of the repeated occurrences.
HGRID_PATTERNS = ["distinct", "twice-adjacent", "twice-under-two-method-instances", "thrice", "twice-at-different-depths"]


def hgrid_recipe(rng, i):
    temporal = bool(i % 2)
    pattern = HGRID_PATTERNS[(i // 2) % len(HGRID_PATTERNS)]
    perm = [0, 1, 2, 3]
    rng.shuffle(perm)
    a, b, c, d = perm
    # root subtasks: ["move", x, y] (primitive) | ["go", x, y] (method direct: move x y) | ["tour", x, y, z] (method three:
    # go x y ; go y z ; move z y) | ["idle"] (primitive without parameters)
    if pattern == "distinct":
        roots = [["move", a, b], ["go", b, c], ["tour", c, d, a]]
    elif pattern == "twice-adjacent":
        roots = [["move", a, b], ["move", a, b]] + ([["go", b, c]] if rng.random() < 0.5 else [])
    elif pattern == "twice-under-two-method-instances":
        roots = [["go", a, b], ["move", b, a], ["go", a, b]]
    elif pattern == "thrice":
        roots = [["tour", a, b, a], ["move", a, b]]
    else:
        roots = [["tour", a, b, a]] + ([["move", c, d]] if rng.random() < 0.5 else [])
    if rng.random() < 0.4:
        k = rng.randrange(len(roots) + 1)
        roots[k:k] = [["idle"], ["idle"]] if (pattern != "distinct" and rng.random() < 0.5) else [["idle"]]
    order = rng.choice(["dfs", "dfs", "reversed", "shuffled"])
    rec = {
        "family": "hgrid",
        "temporal": temporal,
        "pattern": pattern,
        "roots": roots,
        "flat_order": order,
        "shuffle_seed": rng.randrange(10**6),
        "named_root_ids": rng.random() < 0.6,
        "starts": [rng.choice(["0", "1", "1/2", "7/3", "101/100", str(2**40)]) for _ in range(12)],
        "dur": rng.choice(["2", "1/3", "22/7"]),
    }
    feats = {"hplan:flat-" + ("time-triggered" if temporal else "sequential"), "hplan:pattern:" + pattern}
    return rec, sorted(feats)


def build_hgrid(rec, env):
    """-> (problem, HierarchicalPlan, measured features).  Public constructors only."""
    import random
    from unified_planning.model import InstantaneousAction, DurativeAction, Fluent, Object
    from unified_planning.model.htn import HierarchicalProblem, Method, Task
    from unified_planning.model.timing import StartTiming, EndTiming
    from unified_planning.plans import ActionInstance, SequentialPlan, TimeTriggeredPlan, HierarchicalPlan
    from unified_planning.plans.hierarchical_plan import Decomposition, MethodInstance

    tm, em = env.type_manager, env.expression_manager
    Loc = tm.UserType("Loc")
    pb = HierarchicalProblem("hgrid", env)
    locs = [pb.add_object(Object(f"l{j}", Loc, env)) for j in range(4)]
    at = pb.add_fluent(Fluent("at", Loc, environment=env))
    pb.set_initial_value(at, locs[0])
    temporal = rec["temporal"]
    sig = OrderedDict([("a", Loc), ("b", Loc)])
    if temporal:
        move = DurativeAction("move", sig, env)
        du = Fraction(rec["dur"])
        move.set_fixed_duration(int(du) if du.denominator == 1 else du)
        move.add_condition(StartTiming(), em.Equals(at, move.parameter("a")))
        move.add_effect(EndTiming(), at, move.parameter("b"))
        idle = DurativeAction("idle", OrderedDict(), env)
        idle.set_fixed_duration(1)
    else:
        move = InstantaneousAction("move", sig, env)
        move.add_precondition(em.Equals(at, move.parameter("a")))
        move.add_effect(at, move.parameter("b"))
        idle = InstantaneousAction("idle", OrderedDict(), env)
    pb.add_action(move)
    pb.add_action(idle)
    go = pb.add_task(Task("go", OrderedDict([("x", Loc), ("y", Loc)]), env))
    tour = pb.add_task(Task("tour", OrderedDict([("x", Loc), ("y", Loc), ("z", Loc)]), env))
    direct = Method("direct", OrderedDict([("x", Loc), ("y", Loc)]), env)
    direct.set_task(go, direct.parameter("x"), direct.parameter("y"))
    direct.add_subtask(move, direct.parameter("x"), direct.parameter("y"), ident="mv")
    pb.add_method(direct)
    three = Method("three", OrderedDict([("x", Loc), ("y", Loc), ("z", Loc)]), env)
    x, y, z = (three.parameter(n) for n in "xyz")
    three.set_task(tour, x, y, z)
    s1 = three.add_subtask(go, x, y, ident="g1")
    s2 = three.add_subtask(go, y, z, ident="g2")
    s3 = three.add_subtask(move, z, y, ident="leg3")
    three.set_ordered(s1, s2, s3)
    pb.add_method(three)

    L = [em.ObjectExp(o) for o in locs]
    flat = []  # ActionInstances in depth-first order (one fresh object per occurrence)

    def act(a, *args):
        ai = ActionInstance(a, tuple(args))
        flat.append(ai)
        return ai

    def dec_go(xi, yi):
        return MethodInstance(direct, (L[xi], L[yi]), Decomposition({"mv": act(move, L[xi], L[yi])}))

    def dec_tour(xi, yi, zi):
        sub = OrderedDict()
        sub["g1"] = dec_go(xi, yi)
        sub["g2"] = dec_go(yi, zi)
        sub["leg3"] = act(move, L[zi], L[yi])
        return MethodInstance(three, (L[xi], L[yi], L[zi]), Decomposition(dict(sub)))

    root = OrderedDict()
    tn = pb.task_network
    depth = 0
    for j, r in enumerate(rec["roots"]):
        ident = f"r{j}" if rec["named_root_ids"] else None
        if r[0] == "move":
            st = tn.add_subtask(move, L[r[1]], L[r[2]], ident=ident)
            root[st.identifier] = act(move, L[r[1]], L[r[2]])
        elif r[0] == "idle":
            st = tn.add_subtask(idle, ident=ident)
            root[st.identifier] = act(idle)
        elif r[0] == "go":
            st = tn.add_subtask(go, L[r[1]], L[r[2]], ident=ident)
            root[st.identifier] = dec_go(r[1], r[2])
            depth = max(depth, 1)
        else:
            st = tn.add_subtask(tour, L[r[1]], L[r[2]], L[r[3]], ident=ident)
            root[st.identifier] = dec_tour(r[1], r[2], r[3])
            depth = max(depth, 2)
    seq = list(flat)
    if rec["flat_order"] == "reversed":
        seq.reverse()
    elif rec["flat_order"] == "shuffled":
        random.Random(rec["shuffle_seed"]).shuffle(seq)
    if temporal:
        t, items = Fraction(0), []
        for j, ai in enumerate(seq):
            t = t + Fraction(rec["starts"][j % len(rec["starts"])])  # non-decreasing, possibly equal, start times
            items.append((t, ai, Fraction(rec["dur"]) if ai.action.name == "move" else Fraction(1)))
        flat_plan = TimeTriggeredPlan(items, env)
    else:
        flat_plan = SequentialPlan(seq, env)
    plan = HierarchicalPlan(flat_plan, Decomposition(dict(root)))
    # measured on the plan that was built (not on the recipe)
    keys = [(ai.action.name, tuple(str(p) for p in ai.actual_parameters)) for ai in flat]
    mult = max(keys.count(k) for k in keys)
    feats = {
        "hplan:flat-" + ("time-triggered" if temporal else "sequential"),
        "hplan:max-occurrences-of-one-ground-action:" + ("1" if mult == 1 else "2" if mult == 2 else "3+"),
        f"hplan:method-depth:{depth}",
    }
    if mult > 1:
        feats.add("hplan:repeated-ground-action")
        feats.add("hplan:repeated-ground-action:" + ("time-triggered" if temporal else "sequential"))
    return pb, plan, feats

"""Seeded generator of small durative problem recipes + time-triggered plan recipes (owner: conformant-meta; C29).

The grammar stays inside DurativeActionToProcesses.supported_kind(): no quantifiers, no conditional / forall effects;
fixed durations (constant, parameter-dependent, static-fluent-dependent) and duration intervals (all four forms) with
from-end delays strictly smaller than the smallest duration; conditions at start / end / over-all / intermediate;
effects at start / end / intermediate; optional timed effects; instantaneous actions mixed in.
"""
from fractions import Fraction

DELAYS = ["1/2", "1"]


def _fr(x):
    return str(Fraction(x))


class DG:
    def __init__(self, rng, variable=0.45):
        self.r = rng
        self.variable = variable
        self.feat = set()

    def gen(self):
        r = self.r
        types = [["T0", None]]
        if r.random() < 0.4:
            types.append(["T1", "T0"])
        objects = []
        for i in range(r.choice([1, 2, 2, 3])):
            objects.append([f"o{i}", ["user", r.choice(types)[0]]])
        if not any(o[1][1] == "T0" or True for o in objects):
            objects.append(["ox", ["user", "T0"]])
        self.types, self.objects = types, objects
        fluents = [
            {"name": "p0", "type": "bool", "sig": [], "default": ["b", False]},
            {"name": "p1", "type": "bool", "sig": [["x0", ["user", "T0"]]], "default": ["b", r.random() < 0.5]},
            {"name": "n0", "type": ["int", 0, 20], "sig": [], "default": ["i", 3]},
            {"name": "r0", "type": ["real", None, None], "sig": [], "default": ["r", "1/2"]},
            # static fluents (never written): usable in durations
            {"name": "dist", "type": ["int", 2, 6], "sig": [["x0", ["user", "T0"]]], "default": ["i", 3]},
            {"name": "slow", "type": ["real", None, None], "sig": [], "default": ["r", "5/2"]},
        ]
        init = []
        for o, _ in objects:
            if r.random() < 0.7:
                init.append([["f", "dist", ["o", o]], ["i", r.choice([2, 3, 4, 5])]])
        self.fluents = fluents
        actions = []
        na = r.choice([1, 2, 2, 3])
        for i in range(na):
            actions.append(self.durative(i))
        if r.random() < 0.5:
            actions.append(self.instantaneous(len(actions)))
        rec = {
            "name": "dur",
            "types": types,
            "objects": objects,
            "fluents": fluents,
            "actions": actions,
            "init": init,
            "goals": [["f", "p0"]] if r.random() < 0.6 else [["ge", ["f", "n0"], ["i", 1]]],
        }
        if r.random() < 0.25:
            self.feat.add("timed-effects")
            rec["timed_effects"] = [[["gstart", r.choice(["1", "5/2", "4"])], {"kind": "assign", "fluent": ["f", "p0"], "value": ["b", r.random() < 0.5]}]]
            if r.random() < 0.4:
                rec["timed_effects"].append([["gstart", r.choice(["2", "6"])], {"kind": "inc", "fluent": ["f", "n0"], "value": ["i", 1]}])
        if r.random() < 0.3:
            rec["epsilon"] = r.choice(["1/10", "1/100", "1/4"])
        return rec

    # ---- pieces -----------------------------------------------------------------------------------
    def params(self):
        r = self.r
        ps = []
        x = r.random()
        if x < 0.3:
            pass
        elif x < 0.55:
            ps.append(["y0", ["user", r.choice(self.types)[0]]])
        elif x < 0.8:
            ps.append(["k0", ["int", 1, 3]])
        else:
            ps.append(["y0", ["user", r.choice(self.types)[0]]])
            ps.append(["k0", ["int", 1, 3]])
        return ps

    def dur_expr(self, ps, lo_only=False):
        """A duration expression with value >= 2 for every parameter binding. -> (expr, feature)"""
        r = self.r
        ks = [p for p in ps if p[1][0] == "int"]
        ys = [p for p in ps if p[1][0] == "user"]
        x = r.random()
        if ks and x < 0.45:
            k = ["p", ks[0][0]]
            return r.choice([["plus", k, ["i", 1]], ["plus", k, ["i", 2]], ["times", ["i", 2], k], ["plus", k, ["r", "3/2"]], ["div", ["plus", k, ["i", 3]], ["i", 2]]]), "param-duration"
        if ys and x < 0.75:
            d = ["f", "dist", ["p", ys[0][0]]]
            return r.choice([d, ["plus", d, ["i", 1]], ["plus", d, ["r", "1/2"]]]), "static-fluent-duration"
        if x < 0.85:
            return r.choice([["f", "slow"], ["plus", ["f", "slow"], ["i", 1]]]), "static-fluent-duration"
        return r.choice([["i", 2], ["i", 3], ["i", 5], ["r", "5/2"], ["r", "7/3"]]), "constant-duration"

    def cond_expr(self, ps):
        r = self.r
        ys = [p for p in ps if p[1][0] == "user"]
        atoms = [["f", "p0"], ["not", ["f", "p0"]], ["ge", ["f", "n0"], ["i", r.choice([0, 1, 2])]], ["le", ["f", "r0"], ["i", 10]]]
        if ys:
            atoms.append(["f", "p1", ["p", ys[0][0]]])
            atoms.append(["not", ["f", "p1", ["p", ys[0][0]]]])
        a = r.choice(atoms)
        if r.random() < 0.2:
            return ["or", a, r.choice(atoms)]
        return a

    def effect(self, ps, used):
        r = self.r
        ys = [p for p in ps if p[1][0] == "user"]
        ks = [p for p in ps if p[1][0] == "int"]
        cands = [
            {"kind": "assign", "fluent": ["f", "p0"], "value": ["b", r.random() < 0.6]},
            {"kind": r.choice(["inc", "dec"]), "fluent": ["f", "n0"], "value": ["i", 1]},
            {"kind": "inc", "fluent": ["f", "r0"], "value": ["r", "1/2"]},
            {"kind": "assign", "fluent": ["f", "r0"], "value": ["plus", ["f", "r0"], ["i", 1]]},
        ]
        if ys:
            cands.append({"kind": "assign", "fluent": ["f", "p1", ["p", ys[0][0]]], "value": ["b", r.random() < 0.5]})
        if ks:
            cands.append({"kind": "inc", "fluent": ["f", "n0"], "value": ["p", ks[0][0]]})
        e = r.choice(cands)
        key = str(e["fluent"])
        if key in used:
            return None
        used.add(key)
        return e

    def durative(self, i):
        r = self.r
        ps = self.params()
        lo, feat = self.dur_expr(ps)
        self.feat.add(feat)
        if r.random() < self.variable:
            form = r.choice(["closed", "closed", "open", "lopen", "ropen"])
            hi = ["plus", lo, r.choice([["i", 1], ["i", 2], ["r", "1/2"]])]
            dur = [form, lo, hi]
            self.feat.add("variable-duration:" + form)
        else:
            dur = ["fixed", lo]
            self.feat.add("fixed-duration")
        conds, effects = [], []
        if r.random() < 0.6:
            conds.append([["point", ["start", "0"]], self.cond_expr(ps)])
        if r.random() < 0.35:
            conds.append([["point", ["end", "0"]], self.cond_expr(ps)])
            self.feat.add("end-condition")
        if r.random() < 0.35:
            form = r.choice(["closed", "open", "lopen", "ropen"])
            conds.append([[form, ["start", "0"], ["end", "0"]], self.cond_expr(ps)])
            self.feat.add("overall-condition")
        if r.random() < 0.2:
            d = r.choice(DELAYS)
            iv = r.choice([["point", ["start", d]], ["point", ["end", "-" + d]], ["closed", ["start", d], ["end", "-" + d]], ["closed", ["start", "0"], ["end", "-" + d]]])
            conds.append([iv, self.cond_expr(ps)])
            self.feat.add("intermediate-condition")
        # distinct intervals only (add_condition on one interval twice is fine, but keep recipes simple)
        for t in ("start", "end", "istart", "iend"):
            if r.random() < {"start": 0.6, "end": 0.7, "istart": 0.2, "iend": 0.3}[t]:
                used = set()
                tm = {"start": ["start", "0"], "end": ["end", "0"], "istart": ["start", r.choice(DELAYS)], "iend": ["end", "-" + r.choice(DELAYS)]}[t]
                for _ in range(r.choice([1, 1, 2])):
                    e = self.effect(ps, used)
                    if e is not None:
                        effects.append([tm, e])
                if t in ("istart", "iend"):
                    self.feat.add("intermediate-effect")
                if t == "iend":
                    self.feat.add("from-end-intermediate-effect")
        if not effects:
            effects.append([["end", "0"], {"kind": "assign", "fluent": ["f", "p0"], "value": ["b", True]}])
        return {"name": f"d{i}", "params": ps, "duration": dur, "conds": conds, "effects": effects}

    def instantaneous(self, i):
        r = self.r
        ps = self.params()
        used = set()
        effs = [e for e in (self.effect(ps, used) for _ in range(r.choice([1, 2]))) if e is not None]
        for e in effs:
            e.setdefault("cond", None)
            e.setdefault("forall", [])
        self.feat.add("instantaneous-action")
        return {"name": f"i{i}", "params": ps, "pre": [self.cond_expr(ps)] if r.random() < 0.5 else [], "effects": effs}


def gen_durative_problem(rng, variable=0.45):
    g = DG(rng, variable)
    rec = g.gen()
    return rec, sorted(g.feat)


def gen_tt_plan(rng, rec, dur_of, max_len=5, boundary=0.35):
    """Random time-triggered plan recipe over the ground actions of rec.
    dur_of(action_recipe, args) -> ("fixed", d) | (form, lo, hi) with Fractions (reference evaluation, supplied by the
    caller) | None when the instantiation is unusable.
    Returns list of [start "p/q", action name, [args], duration "p/q" | None]; instances of one ground action never
    overlap or touch (hazard H10)."""
    objs = {}
    for o, t in rec["objects"]:
        objs.setdefault(t[1], []).append(o)
    sub = {}
    for n, f in rec["types"]:
        sub.setdefault(n, set()).add(n)
    changed = True
    while changed:
        changed = False
        for n, f in rec["types"]:
            if f is not None:
                for k, v in sub.items():
                    if f in v and n not in v:
                        v.add(n)
                        changed = True

    def domain(t):
        if t[0] == "int":
            return list(range(t[1], t[2] + 1))
        return [o for o, ot in rec["objects"] if ot[1] in sub.get(t[1], {t[1]})]

    out = []
    busy = {}  # (action, args) -> list of (start, end)
    n = rng.randint(1, max_len)
    tries = 0
    while len(out) < n and tries < 40:
        tries += 1
        a = rng.choice(rec["actions"])
        doms = [domain(t) for _, t in a["params"]]
        if any(not d for d in doms):
            continue
        args = [rng.choice(d) for d in doms]
        start = Fraction(rng.randint(0, 16), 2) if rng.random() < 0.8 else Fraction(rng.randint(0, 40), rng.choice([3, 5, 7]))
        if "duration" not in a:
            d = None
            end = start
        else:
            spec = dur_of(a, args)
            if spec is None:
                continue
            if spec[0] == "fixed":
                d = spec[1]
            else:
                form, lo, hi = spec
                x = rng.random()
                if x < boundary and form in ("closed", "ropen"):
                    d = lo
                elif x < 2 * boundary and form in ("closed", "lopen"):
                    d = hi
                else:
                    d = lo + (hi - lo) * Fraction(rng.randint(1, 7), 8)
            end = start + d
        key = (a["name"], tuple(args))
        if any(not (end < s or e < start) for s, e in busy.get(key, [])):
            continue
        busy.setdefault(key, []).append((start, end))
        out.append([str(start), a["name"], args, None if d is None else str(d)])
    return out

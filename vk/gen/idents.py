"""Adversarial identifier generator for `vk.gen.problem` (profile key `names`) — owner: C08/C09 (factory-wf).

`make_names()` returns a *stateful* callable `(rng, kind, index) -> identifier` (create one per generated problem).
Identifiers are valid, distinct strings (uniqueness is enforced by `G.name`, which retries) drawn so that
  * they contain underscores, digits and mixed case;
  * many are prefixes / `_`-extensions of one another (`a`, `a_b`, `a_b_c`, `a_0`, `a_0_1`);
  * `_`-joins of several of them coincide (`mv` + `a_b` + `c`  ==  `mv` + `a` + `b_c`  ==  `mv_a` + `b_c` ...);
  * some equal the *mangled form* a compiler would derive from another identifier (`not_<f>`, `<a>_0`,
    `is_value_defined_<f>`, `dcrm_fake_goal`, `hold-0`, ...).
`rename_locals(recipe, rng)` additionally renames action parameters and fluent signature parameters of a finished
recipe (the generator itself always calls them y0/y1/x0/x1) to identifiers with separators, digits and type-like names.
"""

STEMS = ["a", "b", "c", "mv", "x", "A", "B", "aB", "a1", "b2", "not", "go", "0", "1"]
RESERVED = [
    "dcrm_fake_goal",
    "dcrm_fake_action",
    "dcrm_fake_action_0",
    "hold-0",
    "hold-1",
    "seen-phi-0",
    "seen-psi-0",
    "seen-psi-1",
    "true",
    "false",
]


def make_names(reserved=0.04):
    made = []

    def names(rng, kind, index):
        x = rng.random()
        n = None
        if made and x < 0.62:
            base = rng.choice(made)
            op = rng.choice(["num", "num", "not", "concat", "concat", "concat", "case", "prefix", "split", "ivd", "ext"])
            if op == "num":
                n = f"{base}_{rng.choice([0, 0, 1, 2])}"
            elif op == "not":
                n = "not_" + base
            elif op == "concat":
                n = base + "_" + rng.choice(made + STEMS)
            elif op == "case":
                n = base.swapcase() if base.swapcase() != base else base + "X"
            elif op == "prefix":
                n = base[: rng.randint(1, max(1, len(base) - 1))].rstrip("_-") or base + "_"
            elif op == "split":
                parts = [p for p in base.split("_") if p]
                n = rng.choice(parts) if len(parts) > 1 else base + "_" + rng.choice(STEMS)
            elif op == "ivd":
                n = "is_value_defined_" + base
            else:
                n = base + rng.choice(["0", "1", "b", "_", "B"])
        elif x < 0.62 + reserved:
            n = rng.choice(RESERVED)
        else:
            n = rng.choice(STEMS)
            if rng.random() < 0.45:
                n = n + "_" + rng.choice(STEMS)
                if rng.random() < 0.3:
                    n = n + "_" + rng.choice(STEMS)
        made.append(n)
        return n

    return names


LOCAL_POOL = ["p", "p_0", "p_1", "x", "x_1", "P", "y_0", "t", "t_0", "q0", "a_b", "l", "l_0", "n", "n_1", "to", "from_"]


def rename_locals(rec, rng, prob=0.7):
    """Rename action parameters / fluent signature parameters of a recipe in place (deterministic in rng)."""
    glob = {n for n, _ in rec.get("types", [])} | {n for n, _ in rec.get("objects", [])}
    glob |= {f["name"] for f in rec.get("fluents", [])} | {a["name"] for a in rec.get("actions", [])}
    type_names = [n for n, _ in rec.get("types", [])]

    def fresh(taken, ptype):
        cands = list(LOCAL_POOL)
        if isinstance(ptype, list) and ptype[0] == "user":
            # the lower-cased type name is what UsertypeFluentsRemover picks for its extra parameter
            cands += [ptype[1].lower(), ptype[1].lower() + "_0"]
        rng.shuffle(cands)
        for c in cands:
            if c not in taken and c not in glob:
                return c
        return None

    for f in rec.get("fluents", []):
        if rng.random() < prob:
            taken = set()
            for p in f["sig"]:
                n = fresh(taken, p[1])
                if n is not None:
                    p[0] = n
                taken.add(p[0])
    for a in rec.get("actions", []):
        if "duration" in a or rng.random() >= prob:
            continue
        ren, taken = {}, set()
        for p in a["params"]:
            n = fresh(taken, p[1])
            if n is not None:
                ren[p[0]] = n
                p[0] = n
            taken.add(p[0])
        if ren:
            _rename_params(a["pre"], ren)
            for e in a["effects"]:
                for k in ("fluent", "value", "cond"):
                    if e.get(k) is not None:
                        _rename_params(e[k], ren)
            m = rec.get("metric")
            if m and m.get("kind") == "costs" and a["name"] in m["costs"]:
                _rename_params(m["costs"][a["name"]], ren)
    return rec


def _rename_params(e, ren):
    if isinstance(e, list):
        if len(e) == 2 and e[0] == "p" and isinstance(e[1], str):
            e[1] = ren.get(e[1], e[1])
            return
        for x in e:
            _rename_params(x, ren)


def _rename_objects(x, ren):
    if isinstance(x, list):
        if len(x) == 2 and x[0] == "o" and isinstance(x[1], str):
            x[1] = ren.get(x[1], x[1])
            return
        for y in x:
            _rename_objects(y, ren)
    elif isinstance(x, dict):
        for y in x.values():
            _rename_objects(y, ren)


def inject_join_trap(rec, rng):
    """Rename objects (and possibly one action) of a finished recipe so that two *different* ground instances have the same
    `_`-joined name: move(X_Y, Z) / move(X, Y_Z), or with one shared type move(X_X, X) / move(X, X_X), or across two actions
    N(X_Y) / N_X(Y).  Returns True when a trap could be injected."""
    fathers = dict((n, f) for n, f in rec["types"])

    def dom(t):
        out = []
        for o, ot in rec["objects"]:
            x = ot[1]
            while x is not None:
                if x == t:
                    out.append(o)
                    break
                x = fathers.get(x)
        return out

    used = {n for n, _ in rec["types"]} | {n for n, _ in rec["objects"]} | {f["name"] for f in rec["fluents"]} | {a["name"] for a in rec["actions"]}

    def fresh_stems(k):
        pool = ["k", "m", "r", "s", "u", "w", "K", "M", "R7", "s2", "uU", "w0"]
        rng.shuffle(pool)
        out = []
        for p in pool:
            if all(not (n == p or n.startswith(p + "_") or n.endswith("_" + p)) for n in used):
                out.append(p)
            if len(out) == k:
                return out
        return None

    acts = [a for a in rec["actions"] if "duration" not in a]
    rng.shuffle(acts)
    ren = None
    for a in acts:
        up = [(i, p) for i, p in enumerate(a["params"]) if isinstance(p[1], list) and p[1][0] == "user"]
        if len(a["params"]) == 2 and len(up) == 2:
            d1, d2 = dom(up[0][1][1][1]), dom(up[1][1][1][1])
            st = fresh_stems(3)
            if st is None:
                return False
            X, Y, Z = st
            both = [o for o in d1 if o in d2]
            if len(both) >= 2:
                o1, o2 = rng.sample(both, 2)
                ren = {o1: X, o2: f"{X}_{X}"}  # (X_X, X) and (X, X_X)
                break
            if len(d1) >= 2 and len(d2) >= 2:
                p, q = rng.sample(d1, 2)
                rs = [o for o in d2 if o not in (p, q)]
                if len(rs) >= 2:
                    r, s_ = rng.sample(rs, 2)
                    ren = {p: f"{X}_{Y}", q: X, r: Z, s_: f"{Y}_{Z}"}
                    break
    if ren is None:
        one = [a for a in acts if len(a["params"]) == 1 and isinstance(a["params"][0][1], list) and a["params"][0][1][0] == "user"]
        if len(one) >= 2:
            a1, a2 = rng.sample(one, 2)
            d1, d2 = dom(a1["params"][0][1][1]), dom(a2["params"][0][1][1])
            st = fresh_stems(2)
            c1 = [o for o in d1]
            c2 = [o for o in d2]
            if st and c1 and c2:
                X, Y = st
                o1 = rng.choice(c1)
                rest = [o for o in c2 if o != o1]
                if rest:
                    o2 = rng.choice(rest)
                    ren = {o1: f"{X}_{Y}", o2: Y}  # a1(X_Y) and a1_X(Y)
                    new_action_name = f"{a1['name']}_{X}"
                    if new_action_name in used:
                        return False
                    m = rec.get("metric")
                    if m and m.get("kind") == "costs" and a2["name"] in m["costs"]:
                        m["costs"][new_action_name] = m["costs"].pop(a2["name"])
                    a2["name"] = new_action_name
    if ren is None:
        return False
    if any(v in used for v in ren.values()):
        return False
    for o in rec["objects"]:
        o[0] = ren.get(o[0], o[0])
    for k in ("fluents", "actions", "init", "goals", "invariants", "traj", "metric"):
        if rec.get(k) is not None:
            _rename_objects(rec[k], ren)
    return True


def concat_traps(names):
    """Own detection of identifier traps in a set of names: -> set of trap classes present.
    'suffix-num' : n and n_<digit> both present;  'not' : n and not_n;  'ivd' : n and is_value_defined_n;
    'join' : some name is the `_`-join of two other names;  'reserved' : a compiler-reserved identifier is present."""
    s = set(names)
    out = set()
    for n in s:
        for d in "012":
            if f"{n}_{d}" in s:
                out.add("suffix-num")
        if "not_" + n in s:
            out.add("not")
        if "is_value_defined_" + n in s:
            out.add("ivd")
        if n in RESERVED:
            out.add("reserved")
        if "_" in n:
            for i, ch in enumerate(n):
                if ch == "_" and n[:i] in s and n[i + 1 :] in s:
                    out.add("join")
    return out
